"""Rules shared by several properties: the date-read census (rule C), H1–H3."""
import ast
import re
import string

from ..flow import reaching
from ..model import (AnalysisError, body_without_doc, call_name, cmp_triples, dotted, loc, unparse,
                     walk_no_nested)

# ---- A1: members of Date, read from dates/date.py and confirmed against this table ----------------
LABEL_RELATIVE = {"d", "s", "mjd", "jd", "julian_century", "datetime", "strftime"}
INVARIANT = {"_d", "_s", "_mjd", "_datetime", "_offset", "change_scale", "scale", "eop"}
AMBIGUOUS = {"d", "s"}            # short names that other classes also use
NON_DATE_RECEIVERS = {"_init", "_i"}  # sgp4beta.Init: `.s` is a model constant (frozen by reading)
DATE_SPEC = re.compile(r"%[aAbBcdfHIjmMpSUwWxXyYzZ]")
DATE_MODULE = "beyond/dates/date.py"


def check_date_table(chk):
    """A1 is re-derived on every run: the label-relative members are exactly the public members of Date
    whose implementation reads `_offset` (directly or through another such member)."""
    c = chk.repo.cls(DATE_MODULE, "Date")
    reads = {}
    for name, f in c.methods.items():
        names = set()
        for n in ast.walk(f.node):
            if isinstance(n, ast.Attribute) and isinstance(n.value, ast.Name) and n.value.id == "self":
                names.add(n.attr)
        reads[name] = names
    tainted = {"_convert_to_scale"} if "_offset" in reads.get("_convert_to_scale", ()) else set()
    for name, names in reads.items():
        if "_offset" in names and name not in ("__init__", "__getstate__", "__setstate__"):
            tainted.add(name)
    changed = True
    while changed:
        changed = False
        for name, names in reads.items():
            if name not in tainted and names & tainted and name not in ("__init__", "__getstate__", "__setstate__"):
                tainted.add(name)
                changed = True
    public = {n for n in tainted if not n.startswith("_")}
    # change_scale / __add__ / __sub__ read label-relative members but return label-carrying Dates: invariant by R03.5
    public -= {"change_scale"}
    if public != LABEL_RELATIVE:
        raise AnalysisError(f"table A1 out of date: label-relative members derived from date.py = {sorted(public)}, "
                            f"frozen table = {sorted(LABEL_RELATIVE)}")
    return tainted


# ---- constant resolution (strings) ---------------------------------------------------------------

def resolve_str_const(repo, module, node, flow=None):
    """Resolve `node` to a str constant through module-level names and imports, else None."""
    if isinstance(node, ast.Constant) and isinstance(node.value, str):
        return node.value
    if isinstance(node, ast.Name):
        if flow is not None:
            defs = flow.defs_of(node)
            vals = set()
            for d in defs:
                if d[0] == "assign":
                    vals.add(resolve_str_const(repo, module, d[1], flow))
                else:
                    vals.add(None)
            if defs:
                return vals.pop() if len(vals) == 1 else None
        r = repo.resolve_name(module, node.id)
        if isinstance(r, tuple) and r[0] == "assign":
            return resolve_str_const(repo, r[1], r[2])
    return None


# ---- format-template parsing ------------------------------------------------------------------------

class FmtField:
    __slots__ = ("arg", "path", "spec", "nested", "literal_before")

    def __init__(self, arg, path, spec, nested, literal_before):
        self.arg, self.path, self.spec, self.nested, self.literal_before = arg, path, spec, nested, literal_before


def parse_format_call(call):
    """For `"...".format(...)` with a constant template returns (template, [FmtField]) else None.
    FmtField.arg is the AST of the argument the field's first name component refers to; .path the attribute /
    index path text that follows (e.g. '.date', '[0]'); .spec the raw spec; .nested the list of argument
    ASTs referenced inside the spec."""
    f = call.func
    if not (isinstance(f, ast.Attribute) and f.attr == "format" and isinstance(f.value, ast.Constant)
            and isinstance(f.value.value, str)):
        return None
    tpl = f.value.value
    pos = [a for a in call.args]
    kws = {k.arg: k.value for k in call.keywords if k.arg}
    auto = [0]

    def arg_for(first):
        if first == "":
            i = auto[0]
            auto[0] += 1
            return pos[i] if i < len(pos) else None
        if first.isdigit():
            i = int(first)
            return pos[i] if i < len(pos) else None
        return kws.get(first)

    fields = []
    for lit, fname, spec, conv in string.Formatter().parse(tpl):
        if fname is None:
            continue
        m = re.match(r"^([^.\[]*)(.*)$", fname)
        first, rest = m.group(1), m.group(2)
        arg = arg_for(first)
        nested = []
        if spec:
            for _l, nf, _s, _c in string.Formatter().parse(spec):
                if nf is not None:
                    m2 = re.match(r"^([^.\[]*)(.*)$", nf)
                    nested.append((nf, arg_for(m2.group(1))))
        fields.append(FmtField(arg, rest, spec or "", nested, lit))
    return tpl, fields


def static_spec(repo, module, flow, spec, nested):
    """Substitute nested fields by their constant values where known."""
    out = spec
    for nf, argnode in nested:
        val = resolve_str_const(repo, module, argnode, flow) if argnode is not None else None
        out = out.replace("{" + nf + "}", val if val is not None else "\x00", 1)
    return out


def fstring_spec(repo, module, flow, fv):
    """Static text of the format spec of a FormattedValue (None if there is none)."""
    if fv.format_spec is None:
        return None
    parts = []
    for p in fv.format_spec.values:
        if isinstance(p, ast.Constant):
            parts.append(str(p.value))
        elif isinstance(p, ast.FormattedValue):
            v = resolve_str_const(repo, module, p.value, flow)
            parts.append(v if v is not None else "\x00")
    return "".join(parts)


# ---- the census of date reads -------------------------------------------------------------------------

class DateRead:
    __slots__ = ("func", "node", "member", "receiver", "kind")

    def __init__(self, func, node, member, receiver, kind):
        self.func, self.node, self.member, self.receiver, self.kind = func, node, member, receiver, kind

    @property
    def where(self):
        return loc(self.func, self.node)


def _mk_attr_chain(base, path):
    """Build an AST for base + '.a.b' (index parts are kept as text-only Subscript of a Name placeholder)."""
    node = base
    for m in re.finditer(r"\.([^.\[]+)|\[([^\]]*)\]", path):
        if m.group(1) is not None:
            node = ast.Attribute(value=node, attr=m.group(1), ctx=ast.Load())
        else:
            idx = m.group(2)
            sl = ast.Constant(value=int(idx)) if idx.lstrip("-").isdigit() else ast.Constant(value=idx)
            node = ast.Subscript(value=node, slice=sl, ctx=ast.Load())
    return node


def receiver_is_non_date(node):
    """Frozen exceptions for the ambiguous short names `.s` / `.d`."""
    d = dotted(node)
    if d is None:
        return False
    last = d.split(".")[-1]
    return last in NON_DATE_RECEIVERS


def date_reads_in(repo, func, flow=None):
    """All label-relative reads inside one function (nested functions included: they are scanned as part of it)."""
    module = func.module
    flow = flow or reaching(func.node)
    out = []
    for n in ast.walk(func.node):
        if isinstance(n, ast.Attribute) and n.attr in LABEL_RELATIVE and isinstance(n.ctx, ast.Load):
            if n.attr in AMBIGUOUS and receiver_is_non_date(n.value):
                continue
            # `datetime.datetime` / `datetime.strptime` style module accesses are not date reads
            if isinstance(n.value, ast.Name) and n.value.id in ("datetime", "dt") and n.attr in ("datetime", "strftime"):
                r = repo.resolve_name(module, n.value.id)
                if r is not None and not (isinstance(r, tuple) and r[0] == "assign"):
                    continue
            out.append(DateRead(func, n, n.attr, n.value, "attr"))
        elif isinstance(n, ast.FormattedValue):
            spec = fstring_spec(repo, module, flow, n)
            if spec and DATE_SPEC.search(spec):
                out.append(DateRead(func, n, "__format__", n.value, "fmt"))
        elif isinstance(n, ast.Call):
            pf = parse_format_call(n)
            if pf:
                for fld in pf[1]:
                    if fld.arg is None or not fld.spec:
                        continue
                    spec = static_spec(repo, module, flow, fld.spec, fld.nested)
                    if DATE_SPEC.search(spec):
                        recv = _mk_attr_chain(fld.arg, fld.path)
                        node = fld.arg
                        out.append(DateRead(func, node, "__format__", recv, "fmt"))
    return out, flow


# ---- origins of a receiver ---------------------------------------------------------------------------------

def is_change_scale(node):
    return isinstance(node, ast.Call) and isinstance(node.func, ast.Attribute) and node.func.attr == "change_scale"


def is_date_ctor(node):
    """Date.now(...), Date(...), cls(...) are dates built in place with a label chosen here."""
    if not isinstance(node, ast.Call):
        return False
    d = dotted(node.func)
    return d in ("Date.now", "Date", "Date.strptime", "parse_date")


class Origins:
    """Symbolic origins of an expression denoting a Date (or a state carrying one)."""

    def __init__(self, flow, max_depth=8):
        self.flow = flow
        self.max_depth = max_depth

    def of(self, node, depth=0):
        """Returns a set of tuples:
        ('norm', scale_text)          X.change_scale(<arg>)  (scale_text = literal or unparsed expression)
        ('built',)                    Date.now() / Date(...)
        ('dtvalue', inner_origins)    value of a `.datetime` read (already counted where it was read)
        ('path', text)                access path rooted at a parameter / loop variable
        (a path whose text starts with '?' has an opaque root: it can only ever match itself)
        """
        if depth > self.max_depth:
            return {("path", "?" + unparse(node))}
        if is_change_scale(node):
            a = node.args[0] if node.args else None
            if isinstance(a, ast.Constant) and isinstance(a.value, str):
                return {("norm", a.value)}
            if a is None:
                return {("normexpr", "")}
            scale_paths = sorted(o[1] if o[0] == "path" else "?" + unparse(a) for o in self.paths(a, depth + 1))
            return {("normexpr", "|".join(scale_paths))}
        if is_date_ctor(node):
            return {("built",)}
        out = set()
        for p in self.paths(node, depth):
            out.add(p)
        return out

    def paths(self, node, depth=0):
        if depth > self.max_depth:
            return {("path", "?" + unparse(node))}
        if isinstance(node, ast.Name):
            defs = self.flow.defs_of(node)
            if not defs:
                return {("path", node.id)}
            res = set()
            for d in defs:
                res |= self._def_paths(node.id, d, depth + 1)
            return res
        if isinstance(node, ast.Attribute):
            if node.attr == "datetime":
                return {("dtvalue", unparse(node.value))}
            inner = self.of(node.value, depth + 1)
            res = set()
            for o in inner:
                if o[0] == "path":
                    res.add(("path", f"{o[1]}.{node.attr}"))
                elif o[0] in ("norm", "normexpr", "built") and node.attr in ("date",):
                    res.add(o)
                else:
                    res.add(("path", "?" + unparse(node)))
            return res
        if isinstance(node, ast.Subscript):
            inner = self.of(node.value, depth + 1)
            idx = unparse(node.slice)
            return {("path", f"{o[1]}[{idx}]") if o[0] == "path" else ("path", "?" + unparse(node)) for o in inner}
        if isinstance(node, ast.Call):
            if is_change_scale(node) or is_date_ctor(node):
                return self.of(node, depth)
            f = node.func
            # state derivations that keep the date object
            if isinstance(f, ast.Attribute) and f.attr in ("copy", "as_orbit", "as_statevector") and \
                    not any(k.arg == "date" for k in node.keywords):
                return self.of(f.value, depth + 1)
            return {("path", "?" + unparse(node))}
        if isinstance(node, ast.BinOp) and isinstance(node.op, (ast.Div, ast.Mult)):
            # vector arithmetic on a state keeps its date
            return self.of(node.left, depth + 1)
        if isinstance(node, ast.IfExp):
            return self.of(node.body, depth + 1) | self.of(node.orelse, depth + 1)
        return {("path", "?" + unparse(node))}

    def _def_paths(self, name, d, depth):
        kind = d[0]
        if kind == "param":
            return {("path", d[1])}
        if kind == "assign":
            return self.of(d[1], depth)
        if kind == "for":
            it, idx = d[1], d[2]
            if isinstance(it, ast.Call) and call_name(it) == "enumerate" and it.args:
                if idx == 1:
                    it, idx = it.args[0], None
                elif idx == 0:
                    return {("path", f"?index of {unparse(it)}")}
            elif isinstance(it, ast.Call) and isinstance(it.func, ast.Attribute) and it.func.attr == "items":
                if idx == 1:
                    it, idx = it.func.value, None
            inner = self.of(it, depth)
            suffix = "[*]" if idx is None else f"[*][{idx}]"
            return {("path", o[1] + suffix) if o[0] == "path" else ("path", f"?element of {unparse(d[1])}" + suffix) for o in inner}
        if kind == "unpack":
            inner = self.of(d[1], depth)
            return {("path", f"{o[1]}[{d[2]}]") if o[0] == "path" else ("path", "?" + unparse(d[1]) + f"[{d[2]}]") for o in inner}
        if kind == "aug":
            res = set()
            for p in d[4]:
                res |= self._def_paths(name, p, depth)
            return res or {("path", "?" + name)}
        return {("path", "?" + name)}


# ---- label emission ---------------------------------------------------------------------------------------------

def label_paths_of(func, flow=None):
    """Paths X (rooted at the function's parameters) such that the function emits `X.scale.name` / `X.scale`."""
    flow = flow or reaching(func.node)
    org = Origins(flow)
    out = set()
    # a `.scale` read inside the argument of change_scale(...) is a use of a label, not an emission of it
    inside_norm = set()
    for n in ast.walk(func.node):
        if is_change_scale(n):
            for a in n.args:
                for x in ast.walk(a):
                    inside_norm.add(id(x))
    for n in ast.walk(func.node):
        if isinstance(n, ast.Attribute) and n.attr == "scale" and isinstance(n.ctx, ast.Load) and id(n) not in inside_norm:
            for o in org.of(n.value):
                if o[0] == "path":
                    out.add(o[1])
    return out


# ---- H1: convergence polarity --------------------------------------------------------------------------------------

def abs_compare(test):
    """If `test` is `abs(X) <op> T` (either orientation) return (X, op, T) oriented with abs on the left."""
    for left, op, right in cmp_triples(test):
        def is_abs(n):
            return isinstance(n, ast.Call) and call_name(n) in ("abs", "fabs", "norm")
        if is_abs(left):
            return left, op, right
        if is_abs(right):
            from ..model import _CMP_SWAP
            return right, _CMP_SWAP.get(op, op), left
    return None


# ---- parameter defaults ----------------------------------------------------------------------------------------------

def anchored_files():
    """{property id: [anchored .py files]} from the given properties file."""
    import json as _json
    from pathlib import Path as _Path
    out = {}
    for line in (_Path(__file__).resolve().parents[2] / "properties.jsonl").read_text().splitlines():
        if line.strip():
            d = _json.loads(line)
            out[d["id"]] = [f for f in d["anchors"]["files"] if f.endswith(".py")]
    return out


def defaults_of(fnode):
    """[[parameter, source of its default]] for the parameters that have one."""
    a = fnode.args
    pos = a.posonlyargs + a.args
    out = [[x.arg, ast.unparse(d)] for x, d in zip(pos[len(pos) - len(a.defaults):], a.defaults)]
    out += [[x.arg, ast.unparse(d)] for x, d in zip(a.kwonlyargs, a.kw_defaults) if d is not None]
    return out


def signature_rule(chk):
    """SIG: a caller that relies on a default gets the behaviour the default selects.  The defaults of every function of
    the files this property is anchored in equal the reference ones (bvstatic/data/signatures.json).  New parameters are
    not looked at; a removed function is left to the rules that anchor it."""
    import json as _json
    from pathlib import Path as _Path
    ref = _json.loads((_Path(__file__).resolve().parents[1] / "data" / "signatures.json").read_text())
    files = anchored_files().get(chk.prop, [])
    chk.rule("SIG", "parameter defaults of the functions of the anchored files are the reference ones")
    n = 0
    for rel in files:
        m = chk.repo.modules.get(rel)
        if m is None:
            continue
        cur = {f.qualname + (":setter" if f.is_setter else ""): f for f in m.all_funcs()}
        for q, pinned in sorted(ref.get(rel, {}).items()):
            f = cur.get(q)
            if f is None:
                continue
            have = dict(defaults_of(f.node))
            bad = [(p, d, have.get(p)) for p, d in pinned if have.get(p) != d and _literal_differs(d, have.get(p), f)]
            n += 1
            chk.inst("SIG", f"{rel}::{q}", not bad, f"{len(pinned)} defaults unchanged" if not bad else
                     "; ".join(f"default of `{p}` is {h if h is not None else 'gone'} (reference: {d})" for p, d, h in bad), loc(f, f.node), nontrivial=False)
    if files and n == 0:
        raise AnalysisError("SIG matched no function with defaults in the anchored files")
    # a default that is one mutable object shared by every call (`maneuvers=[]`, `extras={}`) may only be read: once it is
    # stored, handed on, returned or written to, what one call leaves in it is what the next call starts from (wave q:
    # `CWHelper.coelliptic(..., maneuvers=[])` handed to the Orbit it builds)
    for rel in files:
        m = chk.repo.modules.get(rel)
        if m is None:
            continue
        for f in m.all_funcs():
            a = f.node.args
            pos = a.posonlyargs + a.args
            pairs = list(zip(pos[len(pos) - len(a.defaults):], a.defaults)) + [(x, d) for x, d in zip(a.kwonlyargs, a.kw_defaults) if d is not None]
            for x, d in pairs:
                mutable = isinstance(d, (ast.List, ast.Dict, ast.Set, ast.ListComp, ast.DictComp, ast.SetComp)) or \
                    (isinstance(d, ast.Call) and isinstance(d.func, ast.Name) and d.func.id in ("list", "dict", "set", "bytearray"))
                if not mutable:
                    continue
                uses = _escaping_uses(f.node, x.arg)
                chk.inst("SIG", f"{rel}::{f.qualname}::mutable-default::{x.arg}", not uses,
                         f"`{x.arg}={ast.unparse(d)}` is only read" if not uses else
                         f"`{x.arg}={ast.unparse(d)}` is one object shared by every call, and the function lets it out or writes to it: " + "; ".join(uses[:3]),
                         loc(f, f.node), nontrivial=False)


_READ_METHODS = {"items", "keys", "values", "get", "index", "count", "copy"}


def _escaping_uses(fnode, name):
    """Uses of parameter `name` other than reading it: everything but `name.items()`-style reads, `name[k]` loads,
    iteration, membership / truth tests and len()."""
    parents = {}
    for n in ast.walk(fnode):
        for c in ast.iter_child_nodes(n):
            parents[c] = n
    out = []
    for n in ast.walk(fnode):
        if not (isinstance(n, ast.Name) and n.id == name):
            continue
        if isinstance(n.ctx, ast.Store):
            continue        # rebinding the local name leaves the shared object alone
        p = parents.get(n)
        if isinstance(p, ast.Attribute) and p.value is n and p.attr in _READ_METHODS and isinstance(parents.get(p), ast.Call) and parents[p].func is p:
            continue
        if isinstance(p, ast.Subscript) and p.value is n and isinstance(p.ctx, ast.Load):
            continue
        if isinstance(p, (ast.For, ast.comprehension)) and p.iter is n:
            continue
        if isinstance(p, ast.Compare) or isinstance(p, (ast.If, ast.While, ast.IfExp, ast.BoolOp)) or (isinstance(p, ast.UnaryOp) and isinstance(p.op, ast.Not)):
            continue
        if isinstance(p, ast.Call) and isinstance(p.func, ast.Name) and p.func.id in ("len", "sorted", "list", "dict", "tuple", "set", "any", "all", "sum", "enumerate", "zip") and n in p.args:
            continue
        if isinstance(p, ast.keyword) and p.arg is None:
            continue        # **name unpacks a copy
        if isinstance(p, ast.Starred) or isinstance(p, ast.FormattedValue):
            continue
        if isinstance(p, ast.Dict) and any(k is None and v is n for k, v in zip(p.keys, p.values)):
            continue        # {**name, ...} builds a new dict
        out.append(f"`{ast.unparse(p)[:70]}` (line {n.lineno})")
    return out


def _literal_differs(ref_src, cur_src, f):
    """A default written another way (1e-3 / 0.001, a named module constant bound to the same literal) is the same default."""
    if cur_src is None:
        return True
    try:
        a, b = ast.literal_eval(ref_src), None
    except Exception:
        return ref_src.replace(" ", "") != cur_src.replace(" ", "")
    try:
        b = ast.literal_eval(cur_src)
    except Exception:
        # a module-level constant?
        node = f.module.assigns.get(cur_src)
        try:
            b = ast.literal_eval(node) if node is not None else None
        except Exception:
            return True
        if node is None:
            return True
    return not (a == b and type(a) is type(b))


# ---- small accessors and gates pinned by E8 ------------------------------------------------------------------------------
# Functions a property depends on that have no independent oracle (a gate `elevation <= 0`, a getter that chooses between
# a cache and its source, a constructor that wires defaults).  Table built from mutation testing of the checks
# (tools/mutation_score.py): single-point mutants of these functions passed the suite and every rule.  The rule is
# "proven equal to the reference version by E8" — behavioural, not textual.
LIS, EPHF, MANF, CWHF, COVF = "beyond/propagators/listeners.py", "beyond/orbits/ephem.py", "beyond/orbits/man.py", "beyond/utils/cwhelper.py", "beyond/orbits/cov.py"
E8_PINS = {
    "C06": [("beyond/propagators/keplernum.py", "KeplerNum.__init__", "method, step, tolerance and frame wiring of the integrator")],
    "C08": [(EPHF, "Ephem.__iter__", "native iteration starts at the first stored point"), (EPHF, "Ephem.__next__", "native iteration visits every stored point once"),
            (EPHF, "Ephem.start", "first stored date"), (EPHF, "Ephem.stop", "last stored date")],
    "C09": [(EPHF, "Ephem.order", "order read from the live interpolator, else the stored one"), (EPHF, "Ephem.order:setter", "order written to the live interpolator, else stored"),
            (EPHF, "Ephem.method", "method read from the live interpolator, else the stored one"), (EPHF, "Ephem.method:setter", "method written to the live interpolator, else stored"),
            (EPHF, "Ephem.interp", "interpolator built once from the current points with the current method and order"),
            (EPHF, "Ephem.copy", "copy(frame=, form=, same=) converts the new ephemeris"), (EPHF, "Ephem.start", "first stored date"), (EPHF, "Ephem.stop", "last stored date"),
            ("beyond/utils/interp.py", "Interp.__init__", "abscissas, ordinates, method and order stored as given; Lagrange needs an order")],
    "C10": [(LIS, "StationMaskListener.check", "crossings below the horizon are not mask events"), (LIS, "StationMaxListener.check", "a maximum counts only above the horizon, while rising no more"),
            (LIS, "RadialVelocityListener.check", "sight-restricted radial velocity events need a positive elevation"), (LIS, "Listener.check", "an event is a sign change between consecutive evaluations"),
            (LIS, "events_iterator", "only event points (optionally of the requested kinds) are passed on"), (LIS, "find_event", "the n-th event of the requested kind"),
            (LIS, "stations_listeners", "the three listeners of a station"), (LIS, "StationSignalListener.__init__", "AOS / LOS at the given elevation")],
    "C12": [("beyond/io/tle.py", "Tle.__init__", "field slices, scalings and the two-digit year pivot (57 → 1957, 56 → 2056)")],
    "C13": [("beyond/io/ccsds/tdm.py", "_loads_xml", "participants, path indices and measurement decoding of the XML reader"),
            ("beyond/io/ccsds/tdm.py", "_loads_kvn", "participants, path indices and measurement decoding of the KVN reader"),
            ("beyond/io/ccsds/tdm.py", "collect_metadata", "participants numbered once each, paths by participant number")],
    "C14": [(COVF, "Cov.__array_finalize__", "derived arrays get their own metadata dict"), (COVF, "Cov.orb:setter", "attaching to a state detaches the state's previous covariance"),
            (COVF, "Cov.__new__", "6×6 shape check; frame and state stored")],
    "C15": [(COVF, "Cov.__array_finalize__", "derived arrays get their own metadata dict"), (COVF, "Cov.copy", "copy(frame=) converts the copy")],
    "C16": [("beyond/propagators/cw.py", "ClohessyWiltshire.propagate", "maneuvers applied once each, in the window they belong to"),
            (CWHF, "CWHelper.coelliptic", "state vector mapped by the orientation matrix"), (CWHF, "CWHelper.tangential_boost", "impulse direction mapped by the orientation matrix"),
            (CWHF, "CWHelper.vbar_linear", "impulses and compensation mapped by the orientation matrix"), (CWHF, "CWHelper.hohmann", "two tangential impulses half a period apart"),
            (CWHF, "CWHelper.eccentric_boost", "radial impulses"), (CWHF, "CWHelper.hohmann_distance", "3π dv / n"), (CWHF, "CWHelper.coelliptic_velocity", "drift rate 3/2 n r")],
    "C17": [(MANF, "ImpulsiveMan.__init__", "dv, frame tag and date stored"), (MANF, "ImpulsiveMan.check", "impulse window"), (MANF, "ContinuousMan.check", "burn window"),
            (MANF, "KeplerianImpulsiveMan.__init__", "element increments default to zero"), (MANF, "KeplerianImpulsiveMan.dv", "dv from element increments, in TNW"),
            (MANF, "KeplerianContinuousMan.__init__", "element increments default to zero"), (MANF, "KeplerianContinuousMan.accel", "acceleration from element increments")],
    "C20": [("beyond/frames/frames.py", "get_frame", "unknown names are reported, JPL frames created on demand")],
    "C01": [("beyond/orbits/statevector.py", "Infos.type", "first classification flag that holds")],
    "C02": [("beyond/orbits/statevector.py", "StateVector.frame:setter", "the frame change is applied to the cartesian state and committed together with it"),
            ("beyond/frames/frames.py", "Frame.transform", "rotation then translation, by the orientation and centre chains")],
    "C07": [("beyond/io/tle.py", "Tle.__init__", "field columns and scalings of the two lines"), ("beyond/io/tle.py", "Tle.orbit", "the orbit handed to SGP4 carries the parsed fields"),
            ("beyond/io/tle.py", "_float", "implied-decimal reader")],
    "C18": [("beyond/env/jpl.py", "Pck.__getitem__", "kernel constants converted to SI (km → m, km³/s² → m³/s²)"),
            ("beyond/frames/frames.py", "orbit2frame", "a frame attached to a kernel orbit hangs from the centre that orbit is expressed from"),
            ("beyond/frames/frames.py", "Frame.transform", "rotation then translation, by the orientation and centre chains"),
            ("beyond/frames/center.py", "Center.convert_to", "offsets summed along the centre chain, reversed links negated"),
            ("beyond/frames/center.py", "Center._to_parent", "offset (fixed or propagated) rotated into the requested axes")],
    "C19": [("beyond/utils/lambert.py", "_C", "Stumpff function C(z), three branches"), ("beyond/utils/lambert.py", "_S", "Stumpff function S(z), three branches"),
            ("beyond/utils/lambert.py", "_y", "auxiliary y(z)"), ("beyond/utils/lambert.py", "_dF", "derivative used by the Newton iteration"),
            ("beyond/utils/lambert.py", "_lambert", "Newton iteration on z, Lagrange coefficients, both velocities"),
            ("beyond/utils/interplanetary.py", "flyby", "turn angle and periapsis radius of a fly-by"), ("beyond/utils/interplanetary.py", "bplane", "B-plane vectors and angle"),
            ("beyond/utils/leo.py", "sso_frozen", "fixed-point iteration between the sun-synchronous and the frozen conditions"),
            ("beyond/utils/leo.py", "frozen", "frozen eccentricity"),
            ("beyond/utils/constellation.py", "WalkerStar.nu", "phasing between planes"), ("beyond/utils/constellation.py", "WalkerStar.raan", "plane spacing over 180°"),
            ("beyond/utils/constellation.py", "WalkerDelta.raan", "plane spacing over 360°"), ("beyond/utils/constellation.py", "WalkerDelta.nu", "phasing between planes"),
            ("beyond/utils/constellation.py", "WalkerStar.iter_fleet", "one (raan, nu) per satellite"), ("beyond/utils/constellation.py", "WalkerStar.per_plane", "satellites per plane"),
            ("beyond/utils/ltan.py", "orb2ltan", "local time of the ascending node of an orbit"), ("beyond/utils/beta.py", "beta_limit", "eclipse-free limit of the beta angle")],
}


def pins_rule(chk):
    from ..equiv import same_as_reference
    pins = E8_PINS.get(chk.prop, [])
    if not pins:
        return
    chk.rule("PIN", "small accessors / gates the property depends on are proven equal to their reference version (E8 value graphs)")
    for rel, key, what in pins:
        same_as_reference(chk, "PIN", rel, key, what)
    chk.floor("PIN", len(pins))


# functions whose rule accepts several idioms (R20.3): pinning them to one would undo that
ANCHOR_EXEMPT = {("beyond/utils/node.py", "Node.steps"), ("beyond/utils/node.py", "Node.path")}


def anchors_rule(chk):
    """ANCHOR: every function a rule of this property looked up by name is proven equal to its reference version (E8).
    The rules explain *what* must hold in those functions but read only the fragments they know; this clause closes the
    gap for everything else in the same function (an extra statement, a changed argument, a different source of a value)."""
    import os as _os
    if _os.environ.get("BVSTATIC_NO_ANCHORS"):
        return
    from ..equiv import reference, same_as_reference
    ref = reference()["modules"]
    pinned = {(rel, key) for rel, key, _ in E8_PINS.get(chk.prop, [])}
    cand = set(chk.repo.consulted) - ANCHOR_EXEMPT
    todo = sorted(k for k in cand if k not in pinned and k[1] in ref.get(k[0], {}).get("funcs", {}))
    if not todo:
        files_rule(chk, pinned)
        return
    chk.rule("ANCHOR", "every function the rules of this property anchor on is proven equal to its reference version (E8)")
    for rel, key in todo:
        same_as_reference(chk, "ANCHOR", rel, key, "a function the rules of this property read")
    files_rule(chk, pinned | set(todo))


# Display methods.  Only `__repr__` is exempt from FILE / DEP / DEFS, and not everywhere: hand-written mutants of the display
# methods showed that most `__str__` / `__format__` bodies of this package are *functional* -- `Date.__format__` and
# `Date.strftime` print every epoch the TLE / CCSDS writers and the sgp4 bridge emit, `Frame.__str__` is what
# `COV_REF_FRAME = {frame}` writes, `Tle.__str__` is the TLE writer's output (name line included), the event classes'
# `__str__` is the label of an event, and `Date.__repr__` (through `__str__` and `Timescale.__str__`) is the KEY of the
# `memoize` decorator on the IAU tables (`str(args)`): a coarser text makes two dates share one nutation.
DISPLAY_ONLY = ("__repr__",)
FUNCTIONAL_REPR = {("beyond/dates/date.py", "Date.__repr__")}


def display_only(rel, key):
    return key.split(".")[-1].split(":")[0] in DISPLAY_ONLY and (rel, key.split(":")[0]) not in FUNCTIONAL_REPR


def files_rule(chk, done):
    """FILE: the rest of the files the property is anchored in.  Five waves of seeded changes kept finding the same hole —
    a function of an anchored file that no rule of the property opens (the frame setter for C01 and C02, `parse_date` for
    C04, `Interp._prev_idx` for C06, `DateRange.__iter__` for C08, `TopocentricFrame.__init__` for C11).  Every function
    of the anchored files, display methods excepted, is proven equal to its reference version."""
    import os as _os
    if _os.environ.get("BVSTATIC_NO_FILES"):
        return
    from ..equiv import reference, same_as_reference
    ref = reference()["modules"]
    files = anchored_files().get(chk.prop, [])
    todo = []
    for rel in files:
        for key in sorted(ref.get(rel, {}).get("funcs", {})):
            if (rel, key) in done or display_only(rel, key) or (rel, key.split(":")[0]) in ANCHOR_EXEMPT:
                continue
            todo.append((rel, key))
        for key in sorted(ref.get(rel, {}).get("scopes", {})):
            if key.endswith("#log") or key.endswith("#__all__"):
                continue
            todo.append((rel, key))        # class-level tables and module-level objects of the anchored files
    if todo:
        chk.rule("FILE", "every other function of the anchored files (`__repr__` bodies excepted), and every name bound in their "
                         "class and module bodies, is proven equal to its reference version (E8)")
        for rel, key in todo:
            same_as_reference(chk, "FILE", rel, key, "a function of a file this property is anchored in" if "#" not in key
                              else "a class- or module-level object of a file this property is anchored in", missing_ok=True)
    defs_rule(chk, files, None)
    deps_rule(chk, done | set(todo))


def defs_rule(chk, files, patterns):
    """DEFS: no definition of the given files was removed, and none was added under a name the package already uses
    (see equiv.definition_changes): such an edit changes which implementation a call picks — an override dropped from a
    subclass, a default `copy()` removed from a base class, a hook (`__eq__`, `__reduce__`, `__getattr__`) added — while
    every remaining function keeps its text and its fingerprint."""
    import fnmatch
    from ..equiv import definition_changes
    found = []
    for rel in files:
        for kind, key in definition_changes(chk.repo, rel):
            if display_only(rel, key) or key.endswith(("#log", "#__all__")):
                continue
            if patterns is not None and not any(fnmatch.fnmatchcase(key, p) for p in patterns.get(rel, ())):
                continue
            found.append((rel, kind, key))
    chk.rule("DEFS", "no definition of the anchored (or directly read) files was removed, none added under a name already in use")
    chk.inst("DEFS", "definitions-unchanged::" + ("anchored-files" if patterns is None else "dependencies"), not found,
             f"{len(files)} files: the set of definitions is the reference one (or differs only by new names / in-place helpers)" if not found else
             "; ".join(f"{rel}::{key} {kind}" for rel, kind, key in found[:6]) + " — changes which implementation is picked (override / shadowing / hook)",
             found[0][0] if found else "")


# DEP: what the anchored code reads directly outside the anchored files.  Found with the reference graph (cone.py, depth
# one or two from the functions the rules open), confirmed by reading, frozen here with the reason; unit patterns are
# fnmatch patterns over the unit names of one file.  Wave f of the seeded changes (defects placed outside the anchored
# files on purpose) is what this table answers.
_DATE_ARITH = ("beyond/dates/date.py", ["Date.__add__", "Date.__sub__", "Date.__lt__", "Date.__le__", "Date.__gt__", "Date.__ge__", "Date.__eq__",
                                        "Date._convert_dt", "Date._convert_to_scale", "Date.__init__", "Date.change_scale"])
_DATE_ARGS = ("beyond/dates/date.py", ["Date._julian_century", "Date.julian_century", "Date.change_scale", "Date._convert_to_scale", "Date._mjd",
                                       "Date.mjd", "Date.jd", "Date.d", "Date.s", "Date.__init__", "Timescale.*", "<module>#*"])
_DATE_PRINT = ("beyond/dates/date.py", ["Date.__format__", "Date.strftime", "Date.__str__", "Date.datetime", "Date._datetime", "Timescale.__str__"])
_DATE_KEY = ("beyond/dates/date.py", ["Date.__repr__", "Date.__str__", "Timescale.__str__", "Date.datetime", "Date._datetime"])
_MEMOIZE = ("beyond/utils/memoize.py", ["*"])
_INFOS = ("beyond/orbits/statevector.py", ["Infos.*", "StateVector.infos"])
_EARTH_ROTATION = [("beyond/frames/iau1980.py", ["*"]), ("beyond/frames/iau2010.py", ["*"])]
_EOP = ("beyond/dates/eop.py", ["*"])
_SCALES = ("beyond/dates/date.py", ["Date.change_scale", "Date._convert_to_scale", "Date._convert_dt", "Date.__init__", "Timescale.*", "<module>#*"])
_FORMS = ("beyond/orbits/forms.py", ["*"])
_SV_CONVERT = ("beyond/orbits/statevector.py", ["StateVector.frame:setter", "StateVector.form:setter", "StateVector.copy", "StateVector.__new__",
                                                "StateVector.__array_finalize__", "StateVector.__reduce__", "StateVector.__setstate__"])
_ORBIT_DISPATCH = ("beyond/orbits/orbit.py", ["Orbit.propagate", "Orbit.iter", "Orbit.ephemeris", "Orbit.ephem", "Orbit.__new__", "Orbit.propagator",
                                              "Orbit.propagator:setter", "Orbit.copy", "Orbit.as_statevector"])
_NODE = ("beyond/utils/node.py", ["Node.*", "Route.*"])
_CONSTANTS = ("beyond/constants.py", ["*"])
_PROPAGATORS = [(f"beyond/propagators/{m}.py", ["*.propagate", "*._propagate", "*._iter", "*.iter", "*.copy", "*.orbit", "*.orbit:setter", "*.__init__"])
                for m in ("kepler", "j2", "sgp4", "cw", "none", "soi", "keplernum", "base")]
DEPS = {
    "C01": [(("beyond/env/jpl.py", ["Pck.*", "get_body", "create_frames", "Bsp.*"]), "the central body of a JPL frame (its µ, which every conversion of a state in that frame reads) is built by this kernel reader (wave l: planet and system GM merged in the wrong order)"),
            (_CONSTANTS, "the gravitational parameter every conversion reads (`body.µ`) comes from these Body objects")],
    "C02": [(_DATE_ARGS, "the argument of every rotation: julian centuries and days of the date in the scale the model asks for"),
            (_NODE, "the path search between orientations"),
            (("beyond/orbits/ephem.py", ["Ephem.propagate", "Ephem.interpolate", "Ephem.interp", "Ephem._reset_interp"]), "an orbit-attached frame follows its reference: an Ephem reference is interpolated at the date of the state"),
            (("beyond/utils/interp.py", ["*"]), "an orbit-attached frame follows its reference: an Ephem reference is interpolated at the date of the state"),
            (_MEMOIZE, "the IAU tables and the nutation are memoised by this decorator, keyed by `str(args) + str(kwargs)`"),
            (_DATE_KEY, "the text of a Date is the memo key of `nutation(date, ...)`: two instants must never print alike"),
            (_SV_CONVERT, "`sv.frame = x` / `copy(frame=x)` is the conversion: to cartesian, rotate and translate, back to the original form"),
            (_FORMS, "a frame change goes through the cartesian form and back to the form the state had")],
    "C03": [(("beyond/config.py", ["*"]), "the missing-data policy and the database name are read from this object")],
    "C04": [(_EOP, "a Date labelled UTC / UT1 is placed on the TAI axis with the leap-second table and the daily UT1-UTC of the EOP database: elapsed times, comparisons and abscissas inherit its errors (wave l: `bisect` made the look-up exclusive at the very midnight of a leap second)"),
            (("beyond/io/ccsds/omm.py", ["*"]), "a sibling of the anchored OPM / OEM modules: reads and writes epochs with the same helpers"),
            (("beyond/io/ccsds/tdm.py", ["*"]), "a sibling of the anchored OPM / OEM modules: reads and writes epochs with the same helpers"),
            (("beyond/io/horizon.py", ["*"]), "reads epochs of a declared time scale"),
            (("beyond/frames/iau1980.py", ["*"]), "every model function takes its argument from the date in UT1 / TT"),
            (("beyond/frames/iau2010.py", ["*"]), "every model function takes its argument from the date in UT1 / TT"),
            (("beyond/env/jpl.py", ["JplPropagator.*", "Bsp.*", "get_orbit"]), "the kernels are evaluated at the julian date in TDB"),
            (("beyond/utils/ltan.py", ["*"]), "sidereal time and Sun position of a date")],
    "C05": [(_EOP, "a Date labelled UTC / UT1 is placed on the TAI axis with the leap-second table and the daily UT1-UTC of the EOP database: elapsed times, comparisons and abscissas inherit its errors (wave l: `bisect` made the look-up exclusive at the very midnight of a leap second)"),
            (_DATE_ARITH, "the elapsed time of a propagation is a difference of Dates"),
            (_ORBIT_DISPATCH, "`Orbit.propagate` hands the date or the timedelta to the propagator"),
            (("beyond/propagators/base.py", ["*"]), "the analytical propagators inherit `propagate` / `iter` from it")],
    "C06": [(_CONSTANTS, "the right-hand side reads `body.µ` of every attracting body (wave l: the alias cached on first read)"),
            (_EOP, "a Date labelled UTC / UT1 is placed on the TAI axis with the leap-second table and the daily UT1-UTC of the EOP database: elapsed times, comparisons and abscissas inherit its errors (wave l: `bisect` made the look-up exclusive at the very midnight of a leap second)"),
            (_DATE_ARITH, "steps and stop conditions are Date sums and comparisons"),
            (("beyond/orbits/man.py", ["*"]), "the maneuvers the integrator applies"),
            (_SV_CONVERT, "every step is returned as a copy in the requested frame and form"),
            (_FORMS, "the integrator starts from `orbit.copy(form='cartesian')`: the initial state of an orbit given in any element form (wave k: a slip in equinoctial -> keplerian moved the start point along the orbit)")],
    "C07": [(_DATE_ARITH, "minutes since epoch are a difference of Dates"),
            (_ORBIT_DISPATCH, "`Orbit.propagate` hands the date or the timedelta to the propagator"),
            (("beyond/propagators/__init__.py", ["*"]), "the propagator registry `Tle.orbit()` resolves Sgp4 through"),
            (_DATE_PRINT, "the calendar fields handed to the sgp4 library are printed with `Date.__format__`; the TLE epoch likewise"),
            (_SCALES, "`Sgp4.propagate` converts the requested date to UTC; `Sgp4Beta` differences instants"),
            (_EOP, "UTC <-> TAI goes through the leap-second table of the EOP database (wave k: the table stored most-recent-first made TAI-UTC 1.4 s for every date)")],
    "C08": [(_EOP, "a Date labelled UTC / UT1 is placed on the TAI axis with the leap-second table and the daily UT1-UTC of the EOP database: elapsed times, comparisons and abscissas inherit its errors (wave l: `bisect` made the look-up exclusive at the very midnight of a leap second)")] + [
            (x, "a propagator whose `iter` and `propagate` have to agree") for x in _PROPAGATORS if not x[0].endswith(("keplernum.py", "base.py"))]
           + [(_SV_CONVERT, "every yielded point is a copy of the propagated state")],
    "C09": [(_EOP, "a Date labelled UTC / UT1 is placed on the TAI axis with the leap-second table and the daily UT1-UTC of the EOP database: elapsed times, comparisons and abscissas inherit its errors (wave l: `bisect` made the look-up exclusive at the very midnight of a leap second)"),
            (("beyond/dates/date.py", ["Date._mjd", "Date.mjd", "Date.__lt__", "Date.__le__", "Date.__gt__", "Date.__ge__", "Date.__eq__", "Date.__sub__", "Date.__add__"]),
             "the abscissa of the interpolation and the range test"),
            (("beyond/orbits/statevector.py", ["StateVector.__new__", "StateVector.copy"]), "the interpolated state is built from the neighbours' metadata")],
    "C10": [(_EOP, "a Date labelled UTC / UT1 is placed on the TAI axis with the leap-second table and the daily UT1-UTC of the EOP database: elapsed times, comparisons and abscissas inherit its errors (wave l: `bisect` made the look-up exclusive at the very midnight of a leap second)")] + [
            (x, "a producer of the stream the listeners watch") for x in _PROPAGATORS if not x[0].endswith("base.py")]
           + [(_ORBIT_DISPATCH, "`Orbit.iter` forwards the listeners"),
              (("beyond/orbits/statevector.py", ["StateVector.event", "StateVector.event:setter", "StateVector.copy", "StateVector.frame:setter", "StateVector.form:setter"]),
               "events are attached to copies of the state, the watched quantities are read in the listener's frame and form"),
              (("beyond/dates/date.py", ["Date.__add__", "Date.__sub__", "Date.__lt__", "Date.__le__", "Date.__gt__", "Date.__ge__", "Date.__eq__"]), "the bisection works on Dates"),
              (_INFOS, "the analytical propagators whose stream is watched take the mean motion from `orbit.infos.n` (wave k: a cached Infos made the crossings those of another orbit)")],
    "C11": [(("beyond/frames/frames.py", ["Frame.*", "get_frame", "<module>#ITRF", "<module>#WGS84"]), "the station frame is attached to ITRF and converts through `Frame.transform`"),
            (_SV_CONVERT, "`copy(frame=station, form='spherical')` is the measurement"),
            (_FORMS, "the spherical form is the measurement; the frame setter re-expresses the state in its original form")] + [
            (x, "the station moves with the Earth's rotation in inertial frames: the anchored orientation providers call these models (wave k: a unit slip in `equinox` for dates before 1997)") for x in _EARTH_ROTATION] + [
            (_EOP, "UT1 and polar motion of the date, which the Earth-rotation step reads"),
            (_SCALES, "the rotation models ask for the date in UT1 / TT")],
    "C12": [(("beyond/dates/date.py", ["Date.__init__", "Date._convert_dt", "Date._convert_to_scale", "Date.datetime", "Date._datetime", "Date.change_scale", "Date.d", "Date.s", "Date.__add__"]),
             "the epoch field is built from and written through these"),
            (_DATE_PRINT, "the two-digit year of line 1 is printed with `Date.__format__`"),
            (_EOP, "the epoch of an orbit dated in another scale is converted to UTC through the leap-second table"),
            (("beyond/orbits/forms.py", ["Form._tle_to_keplerian_mean", "Form._keplerian_mean_to_tle", "Form.__call__", "<module>#TLE", "get_form", "Form.__init__"]),
             "`from_orbit` converts to the TLE form"),
            (("beyond/orbits/orbit.py", ["Orbit.__new__", "Orbit.propagator:setter"]), "`Tle.orbit()` builds the Orbit"),
            (("beyond/orbits/statevector.py", ["StateVector.__new__", "StateVector.copy", "StateVector.form:setter", "StateVector.frame:setter"]), "`Tle.orbit()` / `from_orbit`")],
    "C13": [(("beyond/orbits/ephem.py", ["*"]), "the OEM object: settings and points have to survive the round trip"),
            (("beyond/orbits/cov.py", ["*"]), "the covariance attached to the states"),
            (("beyond/orbits/man.py", ["*.__init__", "*.__new__", "*.check"]), "the maneuvers an OPM carries"),
            (("beyond/utils/measures.py", ["*"]), "the measures a TDM carries"),
            (("beyond/orbits/statevector.py", ["StateVector.__new__", "StateVector.copy", "StateVector.cov*", "StateVector.maneuvers*", "StateVector.form:setter", "StateVector.frame:setter"]),
             "what the readers build and the writers convert"),
            (("beyond/orbits/orbit.py", ["Orbit.__new__", "Orbit.propagator*"]), "what the readers build"),
            (("beyond/dates/date.py", ["Date.strptime", "Date.__init__", "Date._convert_dt", "Date.change_scale", "Date.datetime", "Date._datetime"]), "epochs are parsed and printed through these"),
            (_DATE_PRINT, "every epoch of a message is printed with `Date.__format__` (KVN) or `Date.strftime` (XML)"),
            (("beyond/frames/frames.py", ["Frame.__str__", "Frame.__init__", "get_frame", "<module>#dynamic"]), "`COV_REF_FRAME = {frame}` prints a Frame; the readers look names up with `get_frame`")],
    "C14": [(_SCALES, "the rotation models ask for the date in UT1 / TT"),
            (_EOP, "UT1 and polar motion of the date, which the inertial <-> Earth-fixed rotation of the covariance reads"),
            (_FORMS, "the covariance builds its local frames from a cartesian copy of the state"),
            (("beyond/frames/frames.py", ["Frame.transform", "get_frame"]), "the rotation applied to the covariance")] + [
            (x, "the rotation between inertial and Earth-fixed axes comes from these models; it must be a function of the date alone (wave k: X, Y, s reused for any date within ten minutes of the previous call)") for x in _EARTH_ROTATION],
    "C15": [(_FORMS, "names and aliases are resolved through `Form.alt` and the forms' parameter lists"),
            (("beyond/frames/center.py", ["*"]), "`copy(frame=...)` runs the centre chain with the registered reference states as offsets: it must leave them alone"),
            (("beyond/frames/orient.py", ["Orientation.convert_to", "*._to_parent", "*.__init__"]), "`copy(frame=...)` runs the orientation chain with the registered reference states")],
    "C16": [(_EOP, "a Date labelled UTC / UT1 is placed on the TAI axis with the leap-second table and the daily UT1-UTC of the EOP database: elapsed times, comparisons and abscissas inherit its errors (wave l: `bisect` made the look-up exclusive at the very midnight of a leap second)"),
            (_DATE_ARITH, "the elapsed time is a difference of Dates, maneuvers are found by comparing Dates"),
            (_ORBIT_DISPATCH, "`Orbit.propagate` / `Orbit.iter` hand over to the propagator"),
            (_SV_CONVERT, "the propagated state is a copy of the initial one (it carries the propagator and the frame)"),
            (_INFOS, "`ClohessyWiltshire.from_orbit` takes the semi-major axis of the target from `orbit.infos.kep.a`")],
    "C17": [(("beyond/frames/center.py", ["*"]), "a frame attached to an orbit places that orbit at its origin: the offset is `Center._to_parent`, evaluated on the live reference orbit (wave l: memoised by name, date and orientation)"),
            (_EOP, "a Date labelled UTC / UT1 is placed on the TAI axis with the leap-second table and the daily UT1-UTC of the EOP database: elapsed times, comparisons and abscissas inherit its errors (wave l: `bisect` made the look-up exclusive at the very midnight of a leap second)"),
            (("beyond/orbits/statevector.py", ["Infos.*", "StateVector.infos", "StateVector.copy", "StateVector.frame:setter", "StateVector.form:setter"]),
             "`dkep2dv` reads speed, mean motion and flight-path quantities from `orb.infos`"),
            (_DATE_ARITH, "the once-only windows of the maneuvers are Date comparisons: `<` and `<=` must be complementary (wave k: a tolerance in `__le__` / `__ge__` only)")],
    "C18": [(_DATE_ARGS, "the kernels and the analytical series are evaluated at the date in TDB / TT"),
            (_NODE, "the path search between centres"),
            (_SV_CONVERT, "`copy(frame=...)` is how a state changes centre"),
            (_FORMS, "a frame change goes through the cartesian form and back to the form the state had, with the new centre's µ"),
            (_EOP, "the TDB / TT argument of a UTC date goes through TAI-UTC of the EOP database (wave k: `round(mjd)` in the day look-up made it one second late before a leap second)")],
    "C19": [(_EOP, "a Date labelled UTC / UT1 is placed on the TAI axis with the leap-second table and the daily UT1-UTC of the EOP database: elapsed times, comparisons and abscissas inherit its errors (wave l: `bisect` made the look-up exclusive at the very midnight of a leap second)"),
            (_FORMS, "the inputs are converted to the form each helper needs"),
            (("beyond/orbits/statevector.py", ["Infos.*", "StateVector.infos", "StateVector.copy", "StateVector.frame:setter", "StateVector.form:setter"]), "period, mean motion and conversions of the inputs"),
            (_CONSTANTS, "radius, J2 and µ of the central body"),
            (("beyond/dates/date.py", ["Date.__sub__", "Date.__add__"]), "the time of flight is a difference of Dates")],
    "C20": [(_SV_CONVERT, "`sv.frame = x` / `copy(frame=x)` is the conversion the routes serve"),
            (_FORMS, "the frame setter restores the original form, which reads the new frame's central body")],
}


# ---- the three cores -------------------------------------------------------------------------------------------------------
# Waves f, k and l (changes placed outside the anchored files) each found the same thing: about half of them got past the
# property's own check, every time through a unit of one of three tightly coupled cores that the table above did not yet
# name for that property.  One row per miss does not converge, so the cores are attached to every property whose mechanism
# runs through them (a Date is built, compared or converted; a state changes form or is copied; a state changes frame):
_TIME_CORE = [("beyond/dates/date.py", ["*"]), ("beyond/dates/eop.py", ["*"]), ("beyond/config.py", ["*"]), ("beyond/dates/__init__.py", ["*"])]
_STATE_CORE = [("beyond/orbits/forms.py", ["*"]), ("beyond/orbits/statevector.py", ["*"]), ("beyond/orbits/orbit.py", ["*"]), ("beyond/constants.py", ["*"]),
               ("beyond/utils/node.py", ["*"])]
_FRAME_CORE = [("beyond/frames/frames.py", ["*"]), ("beyond/frames/center.py", ["*"]), ("beyond/frames/orient.py", ["*"]), ("beyond/frames/local.py", ["*"]),
               ("beyond/frames/iau1980.py", ["*"]), ("beyond/frames/iau2010.py", ["*"]), ("beyond/utils/matrix.py", ["*"]), ("beyond/utils/memoize.py", ["*"]),
               ("beyond/utils/node.py", ["*"])]
_CORES = {
    "time": (_TIME_CORE, "time core: every Date this property's mechanism builds, compares, subtracts or converts goes through date.py / eop.py (and the configuration they read)",
             ["C02", "C04", "C05", "C06", "C07", "C08", "C09", "C10", "C11", "C12", "C13", "C14", "C16", "C17", "C18", "C19"]),
    "state": (_STATE_CORE, "state core: the states this property's mechanism receives, copies or returns change form and carry their metadata through forms.py / statevector.py / orbit.py, with the central body's constants",
              ["C01", "C02", "C04", "C05", "C06", "C07", "C08", "C09", "C10", "C11", "C12", "C13", "C14", "C15", "C16", "C17", "C18", "C19", "C20"]),
    "frame": (_FRAME_CORE, "frame core: a frame change of a state (or of its covariance) runs Frame.transform, the centre and orientation chains and the Earth-rotation models",
              ["C02", "C04", "C06", "C07", "C08", "C09", "C10", "C11", "C12", "C13", "C14", "C15", "C17", "C18", "C19", "C20"]),
}
# wave p (the third "outside the anchored files" wave, 16 of 19 caught on receipt) left two holes of the same kind:
#  - a pickled state carries its Date, so the Date's own pickling hooks decide whether "pickling preserves values and metadata"
#    (C15) - the time core is attached to C15 as well;
#  - the moving origin and axes of an orbit-attached or body-centred frame are whatever `propagate(date)` of the reference
#    orbit / of the body's propagator returns: the offset providers are a fourth core of the frame properties C02 and C20.
_CORES["time"][2].append("C15")
DEPS.setdefault("C15", []).extend(((f"beyond/propagators/{m}.py", ["*.copy", "*.__init__"]), "the per-item copy of `StateVector.copy` calls the propagator's `copy`: it must hand back an equivalent, independent propagator (wave q: `return self`)")
                                  for m in ("base", "kepler", "j2", "sgp4", "cw", "none", "soi", "keplernum"))
DEPS.setdefault("C19", []).append((("beyond/env/solarsystem.py", ["*"]), "the beta angle and the true local time of the node read the Sun (or Moon) position from these propagators (wave q: one result cache shared by both bodies)"))
_OFFSET_CORE = list(_PROPAGATORS) + [("beyond/env/solarsystem.py", ["*"]), ("beyond/env/jpl.py", ["JplPropagator.*", "Bsp.*", "get_orbit", "get_frame", "create_frames"]),
                                      ("beyond/propagators/base.py", ["*"])]
_CORES["offset"] = (_OFFSET_CORE, "offset core: the moving origin (and local axes) of an orbit-attached or body-centred frame is what `propagate(date)` of its reference orbit / body propagator returns; `Center._to_parent` and `LocalOrbitalOrientation._to_parent` call it on every conversion",
                    ["C02", "C20"])
for _name, (_files, _why, _props) in _CORES.items():
    for _p in _props:
        DEPS.setdefault(_p, []).extend((x, _why) for x in _files)


def deps_rule(chk, done):
    """DEP: the direct dependencies of the anchored code outside the anchored files (table above) are proven equal to
    their reference versions.  The report names the reference path from the anchored code to the changed unit."""
    import fnmatch
    import os as _os
    if _os.environ.get("BVSTATIC_NO_DEPS"):
        return
    from ..equiv import reference_units, same_as_reference, reference, unit_fp, module_fingerprints
    table = DEPS.get(chk.prop, [])
    if not table:
        return
    files = set(anchored_files().get(chk.prop, []))
    todo, seen = [], set(done)
    for (rel, patterns), why in table:
        if rel not in reference()["modules"]:
            from ..model import AnalysisError
            raise AnalysisError(f"dependency module {rel} has no reference fingerprints")
        units = reference_units(rel)
        n = 0
        for key in units:
            if (rel, key) in seen or rel in files:
                continue
            bare = key.split(".")[-1].split(":")[0]
            if display_only(rel, key) or key.endswith("#log") or key.endswith("#__all__") or (rel, key.split(":")[0]) in ANCHOR_EXEMPT:
                continue
            if any(fnmatch.fnmatchcase(key, p) for p in patterns):
                seen.add((rel, key))
                todo.append((rel, key, why))
                n += 1
    pats = {}
    for (rel, patterns), why in table:
        if rel not in files:
            pats.setdefault(rel, []).extend(patterns)
    if pats:
        defs_rule(chk, sorted(pats), pats)
    if not todo:
        return
    chk.rule("DEP", "what the anchored code reads directly outside the anchored files is proven equal to its reference version (E8)")
    graph = []

    def path_to(rel, key):
        try:
            if not graph:
                from .. import cone
                g = cone.Graph(chk.repo)
                graph.extend([g, g.cone({u for u in g.units if u[0] in files})])
            g, c = graph
            if (rel, key) not in c:
                return ""
            return "; reached through " + " -> ".join(f"{u[0].rsplit('/', 1)[-1]}::{u[1]}" + (f" (line {l})" if l else "") for u, l in g.path(c, (rel, key)))
        except Exception as e:      # the path is an explanation, not the verdict
            return f"; reference path not computed ({type(e).__name__})"
    refm = reference()["modules"]
    for rel, key, why in todo:
        cur = unit_fp(module_fingerprints(chk.repo, rel), key) if rel in chk.repo.modules else None
        if cur is not None and cur != unit_fp(refm[rel], key):
            why = why + path_to(rel, key)
        same_as_reference(chk, "DEP", rel, key, why, missing_ok=True)


# ---- display methods are effect-free (REPR) ---------------------------------------------------------------------------
# `__repr__` bodies are exempt from FILE / DEP (their text is not behaviour) -- which is only sound if a display method
# does nothing but build text.  Wave k: `Orbit.__repr__` renamed an entry of `self.form.param_names` (the list owned by
# the process-wide Form object) to label a hyperbolic anomaly `H`; one `print(orbit)` later `.E` was gone for every state
# in that form, with every anchored file byte-identical.
REPR_ACCEPTED = {
    ("beyond/dates/date.py::Date.__str__", "self._cache['str']"): "memo of the text in the per-instance cache of an immutable Date (table A4)",
}
_DISPLAY = ("__repr__", "__str__", "__format__")


def _names_defined_in(repo, files):
    """Attribute / method / class-attribute names defined by the classes of `files` (for relevance of a REPR report)."""
    out = set()
    for rel in files:
        m = repo.modules.get(rel)
        if m is None:
            continue
        for c in m.classes.values():
            out.update(c.methods)
            out.update(c.setters)
            out.update(getattr(c, "attrs", {}) or {})
            for f in list(c.methods.values()) + list(c.setters.values()):
                for n in ast.walk(f.node):
                    if isinstance(n, ast.Attribute) and isinstance(n.ctx, ast.Store) and isinstance(n.value, ast.Name) and n.value.id == "self":
                        out.add(n.attr)
    return out


_CREATORS = {"list", "dict", "set", "sorted", "tuple", "str", "repr", "format", "copy", "deepcopy", "join", "split", "array", "zeros", "OrderedDict"}


def _built_here(root, flow, depth=0):
    """The object a store goes through was created in this function: a display / comprehension / string operation / copy,
    directly or through locals.  An attribute or element LOAD, a parameter, `self` are somebody else's object."""
    if depth > 6:
        return False
    if isinstance(root, (ast.List, ast.Dict, ast.Set, ast.ListComp, ast.DictComp, ast.SetComp, ast.Constant, ast.JoinedStr, ast.BinOp, ast.Tuple)):
        return True
    if isinstance(root, ast.Call):
        return call_name(root) in _CREATORS
    if isinstance(root, ast.Name):
        defs = flow.defs_of(root)
        if not defs:
            return False
        for d in defs:
            if d[0] != "assign" or not _built_here(d[1], flow, depth + 1):
                return False
        return True
    return False        # Attribute, Subscript, anything else


def display_pure_rule(chk):
    """REPR: every display method of the package only builds text: no attribute / element store, no mutator call on
    anything but a local it created.  A failing method is reported to the properties whose anchored files contain it or
    define one of the names it writes through."""
    from ..ownership import Fresh, stores_through
    repo = chk.repo
    files = set(anchored_files().get(chk.prop, []))
    for (rel, _pats), _why in DEPS.get(chk.prop, []):
        files.add(rel)
    mine = None
    chk.rule("REPR", "display methods (__repr__, __str__, __format__) of the package have no effect: they are exempt from the pins only as text")
    n = 0
    for f in repo.all_funcs():
        if f.name not in _DISPLAY or f.cls is None:
            continue
        n += 1
        fr = Fresh(f, repo)
        bad = []
        for text, root, node in stores_through(f, fr.flow):
            vals = fr.classify(root)
            if REPR_ACCEPTED.get((f.ref, text)):
                continue
            if _built_here(root, fr.flow):
                continue            # a local built here (txt += ..., parts.append(...))
            origin = {a.attr for a in ast.walk(root) if isinstance(a, ast.Attribute)}
            if isinstance(root, ast.Name):
                for d in fr.flow.defs_of(root):
                    if len(d) > 1 and isinstance(d[1], ast.AST):
                        origin |= {a.attr for a in ast.walk(d[1]) if isinstance(a, ast.Attribute)}
            bad.append((text, node, origin))
        for n_ in ast.walk(f.node):
            if isinstance(n_, (ast.Global, ast.Nonlocal)) or (isinstance(n_, ast.Call) and call_name(n_) in ("setattr", "delattr")):
                bad.append((unparse(n_), n_, {a.attr for a in ast.walk(n_) if isinstance(a, ast.Attribute)}))
            if isinstance(n_, ast.Delete):
                for t in n_.targets:
                    if isinstance(t, (ast.Attribute, ast.Subscript)):
                        bad.append((unparse(t), n_, {a.attr for a in ast.walk(t) if isinstance(a, ast.Attribute)}))
        if not bad:
            chk.inst("REPR", f"{f.ref}", True, "builds text only", loc(f, f.node), nontrivial=False)
            continue
        if mine is None:
            mine = _names_defined_in(repo, files)
        for text, node, written in bad:
            relevant = f.module.rel in files or bool(written & mine)
            chk.inst("REPR", f"{f.ref}::{text}", not relevant,
                     ("a display method writes to shared state, but not to anything this property's files define" if not relevant else
                      f"`{text}` in a display method writes to a longer-lived object: printing a value changes later results"), loc(f, node))
    chk.floor("REPR", 30)


# ---- duck-typing probes (DUCK) ----------------------------------------------------------------------------------------
# The package decides by `hasattr(x, "name")` / `getattr(x, "name", default)` in a dozen places (a link is moving if its
# offset has `propagate`; an item of `_data` is copied if it has `copy`; a frame is a station if it has `mask`...).  The
# text of the probe never changes when its ANSWER does: the answer is the set of classes that define the name.
# Wave g removed `Propagator.copy` (orbit copies then share their propagator); wave k added `StateVector.propagate`
# (every frame attached to a bare state vector started to move).

def duck_probes(repo, files=None):
    """{name: [site refs]} for hasattr / three-argument getattr with a literal name, in `files` (or the whole package)."""
    out = {}
    for f in repo.all_funcs():
        if files is not None and f.module.rel not in files:
            continue
        for n in ast.walk(f.node):
            if isinstance(n, ast.Call) and isinstance(n.func, ast.Name) and n.func.id in ("hasattr", "getattr") and len(n.args) >= 2 \
                    and isinstance(n.args[1], ast.Constant) and isinstance(n.args[1].value, str):
                if n.func.id == "getattr" and len(n.args) < 3:
                    continue
                out.setdefault(n.args[1].value, []).append(f"{f.ref}:{n.lineno}")
    return out


def duck_definers(repo, names):
    """{name: sorted [rel::Class]} classes of the package that define `name` (method, property, class attribute, or an
    instance attribute assigned through `self.name = ...` in one of their methods)."""
    out = {n: set() for n in names}
    for m in repo.modules.values():
        for c in m.classes.values():
            have = set(c.methods) | set(c.setters) | set(getattr(c, "attrs", {}) or {})
            for f in list(c.methods.values()) + list(c.setters.values()):
                for n in ast.walk(f.node):
                    if isinstance(n, ast.Attribute) and isinstance(n.ctx, ast.Store) and isinstance(n.value, ast.Name) and n.value.id == "self":
                        have.add(n.attr)
            for n in names:
                if n in have:
                    out[n].add(f"{m.rel}::{c.name}")
    return {k: sorted(v) for k, v in out.items()}


def duck_rule(chk):
    """DUCK: for every name probed by hasattr / getattr-with-default in the anchored files, the classes of the package that
    define the name are the reference ones (bvstatic/data/duck.json).  A class the reference tree does not have is new API
    and is not counted."""
    import json as _json
    from pathlib import Path as _Path
    repo = chk.repo
    files = set(anchored_files().get(chk.prop, []))
    probes = duck_probes(repo, files)
    if not probes:
        return
    ref = _json.loads((_Path(__file__).resolve().parent.parent / "data" / "duck.json").read_text())
    ref_classes = set(ref["classes"])
    cur = duck_definers(repo, probes)
    chk.rule("DUCK", "the classes that define each name probed by hasattr / getattr in the anchored files are the reference ones")
    for name in sorted(probes):
        if name not in ref["definers"]:
            # a probe the reference tree does not have: the function containing it is reported by FILE / ANCHOR
            continue
        want = set(ref["definers"][name])
        have = {d for d in cur[name] if d in ref_classes}
        gone = {d for d in want if d.split("::")[0] in repo.modules and d.split("::")[1] in repo.modules[d.split("::")[0]].classes} - have
        added = have - want
        ok = not gone and not added
        chk.inst("DUCK", f"{name}", ok,
                 f"defined by {len(want)} classes, as in the reference tree" if ok else
                 f"`{name}` is probed at {', '.join(probes[name][:3])}: " + "; ".join(
                     ([f"now also defined by {sorted(added)}"] if added else []) + ([f"no longer defined by {sorted(gone)}"] if gone else []))
                 + " -- the probe answers differently for instances of these classes", "", nontrivial=True)


# ---- a conversion is a read (CONV) --------------------------------------------------------------------------------------
CONVERSION_CHAIN = [("beyond/frames/frames.py", "Frame.transform"), ("beyond/frames/center.py", "Center.convert_to"),
                    ("beyond/frames/center.py", "Center._to_parent"), ("beyond/frames/orient.py", "Orientation.convert_to"),
                    ("beyond/frames/orient.py", "LocalOrbitalOrientation._to_parent"), ("beyond/frames/orient.py", "TopocentricOrientation._to_parent"),
                    ("beyond/frames/lagrange.py", "LagrangeOrient._to_parent"), ("beyond/frames/local.py", "to_local")]


def conversion_is_a_read(chk, rule):
    """Every function on the path of a frame change (Frame.transform -> Center.convert_to / _to_parent -> Orientation.convert_to
    -> the local / topocentric / Lagrange orientations) writes only to objects it created: the offsets and reference states
    registered on the links (`self.offset`, `self.statevector`, what their `propagate` returns for a static reference) are the
    caller's objects and other frames' anchors.  Waves i and k: `sv.frame = self.parent` instead of `sv.copy(frame=...)` in
    LocalOrbitalOrientation._to_parent, `res.form = "cartesian"` in Center._to_parent -- a conversion of one state rewrote
    another."""
    from ..ownership import Fresh, stores_through
    repo = chk.repo
    chk.rule(rule, "a frame conversion is a read: the functions on its path store only into objects they created")
    for rel, qual in CONVERSION_CHAIN:
        f = repo.try_func(rel, qual) if "." in qual else repo.modules[rel].functions.get(qual) if rel in repo.modules else None
        if f is None:
            raise AnalysisError(f"conversion-chain function {rel}::{qual} not found")
        fr = Fresh(f, repo)
        stores = stores_through(f, fr.flow)
        if not stores:
            chk.inst(rule, f"{f.ref}", True, "no attribute / element store, no mutator call", loc(f, f.node), nontrivial=False)
        for text, root, node in stores:
            vals = fr.classify(root)
            local_root = root
            while isinstance(local_root, (ast.Attribute, ast.Subscript)):
                local_root = local_root.value
            fresh = vals == {"fresh"} and isinstance(local_root, ast.Name) and local_root.id not in ("self", "cls") \
                and local_root.id not in [a.arg for a in f.node.args.args]
            chk.inst(rule, f"{f.ref}::{text}", fresh, "store on an object built in this call" if fresh else
                     f"`{text}` writes through {sorted(map(str, vals))}: a registered reference state / offset or the caller's object is modified by a conversion",
                     loc(f, node))
    chk.floor(rule, 8)


# ---- package __init__ modules (INIT) ------------------------------------------------------------------------------------
# Code in a package `__init__` runs at import time, before the user has configured anything, whoever uses the names it binds.
# Wave l: `J2000 = Date(2000, 1, 1, 12, scale="TT")` added to beyond/dates/__init__.py -- the first Date instantiates the EOP
# database (and caches the failure) before `config.update(...)`: every later date gets zero corrections, silently.

def init_statements(repo, rel):
    m = repo.modules.get(rel)
    if m is None:
        return None
    tree = ast.parse(m.source)
    out = []
    for st in tree.body:
        if isinstance(st, ast.Expr) and isinstance(st.value, ast.Constant):
            continue            # docstring
        out.append(unparse(st))
    return out


def init_files_of(files):
    out = {"beyond/__init__.py"}
    for rel in files:
        parts = rel.split("/")[:-1]
        for i in range(1, len(parts) + 1):
            out.add("/".join(parts[:i]) + "/__init__.py")
    return sorted(out)


def init_rule(chk):
    """INIT: the module-level statements of the package `__init__` files on the path of the anchored files are the
    reference ones (bvstatic/data/inits.json).  Excused: one more name imported from a module the same `__init__` already
    imports (no new import-time code runs)."""
    import json as _json
    from pathlib import Path as _Path
    ref = _json.loads((_Path(__file__).resolve().parent.parent / "data" / "inits.json").read_text())
    files = init_files_of(anchored_files().get(chk.prop, []))
    chk.rule("INIT", "import-time code of the package __init__ modules on the path of the anchored files is the reference code")
    for rel in files:
        if rel not in ref:
            continue
        cur = init_statements(chk.repo, rel)
        if cur is None:
            chk.inst("INIT", rel, False, "package __init__ removed", rel)
            continue
        want = ref[rel]
        imported = set()
        for s in want:
            t = ast.parse(s).body[0]
            if isinstance(t, ast.ImportFrom):
                imported.add((t.level, t.module))
        added, removed = [], [s for s in want if s not in cur]
        for s in cur:
            if s in want:
                continue
            t = ast.parse(s).body[0]
            if isinstance(t, ast.ImportFrom) and (t.level, t.module) in imported and not any(a.name == "*" for a in t.names):
                # the same import with more (or fewer) names: modules already loaded, only bindings change
                old = [w for w in want if isinstance(ast.parse(w).body[0], ast.ImportFrom) and (ast.parse(w).body[0].level, ast.parse(w).body[0].module) == (t.level, t.module)]
                old_names = {(a.name, a.asname) for w in old for a in ast.parse(w).body[0].names}
                if old_names <= {(a.name, a.asname) for a in t.names}:
                    removed = [r for r in removed if r not in old]
                    continue
            added.append(s)
        ok = not added and not removed
        chk.inst("INIT", rel, ok, f"{len(want)} statements, as in the reference tree" if ok else
                 "import-time code changed: " + "; ".join([f"added `{a[:70]}`" for a in added] + [f"removed `{r[:70]}`" for r in removed]), rel)
