"""Rules shared by several properties: the date-read census (rule C), H1–H3."""
import ast
import re
import string

from ..flow import reaching
from ..model import (AnalysisError, body_without_doc, call_name, cmp_triples, dotted, loc, unparse,
                     walk_no_nested)

# ---- A1: members of Date, read from dates/date.py and confirmed against this table ----------------
LABEL_RELATIVE = {"d", "s", "mjd", "jd", "julian_century", "datetime", "strftime"}
INVARIANT = {"_d", "_s", "_mjd", "_datetime", "_offset", "change_scale", "scale", "eop"}
AMBIGUOUS = {"d", "s"}            # short names that other classes also use
NON_DATE_RECEIVERS = {"_init", "_i"}  # sgp4beta.Init: `.s` is a model constant (frozen by reading)
DATE_SPEC = re.compile(r"%[aAbBcdfHIjmMpSUwWxXyYzZ]")
DATE_MODULE = "beyond/dates/date.py"


def check_date_table(chk):
    """A1 is re-derived on every run: the label-relative members are exactly the public members of Date
    whose implementation reads `_offset` (directly or through another such member)."""
    c = chk.repo.cls(DATE_MODULE, "Date")
    reads = {}
    for name, f in c.methods.items():
        names = set()
        for n in ast.walk(f.node):
            if isinstance(n, ast.Attribute) and isinstance(n.value, ast.Name) and n.value.id == "self":
                names.add(n.attr)
        reads[name] = names
    tainted = {"_convert_to_scale"} if "_offset" in reads.get("_convert_to_scale", ()) else set()
    for name, names in reads.items():
        if "_offset" in names and name not in ("__init__", "__getstate__", "__setstate__"):
            tainted.add(name)
    changed = True
    while changed:
        changed = False
        for name, names in reads.items():
            if name not in tainted and names & tainted and name not in ("__init__", "__getstate__", "__setstate__"):
                tainted.add(name)
                changed = True
    public = {n for n in tainted if not n.startswith("_")}
    # change_scale / __add__ / __sub__ read label-relative members but return label-carrying Dates: invariant by R03.5
    public -= {"change_scale"}
    if public != LABEL_RELATIVE:
        raise AnalysisError(f"table A1 out of date: label-relative members derived from date.py = {sorted(public)}, "
                            f"frozen table = {sorted(LABEL_RELATIVE)}")
    return tainted


# ---- constant resolution (strings) ---------------------------------------------------------------

def resolve_str_const(repo, module, node, flow=None):
    """Resolve `node` to a str constant through module-level names and imports, else None."""
    if isinstance(node, ast.Constant) and isinstance(node.value, str):
        return node.value
    if isinstance(node, ast.Name):
        if flow is not None:
            defs = flow.defs_of(node)
            vals = set()
            for d in defs:
                if d[0] == "assign":
                    vals.add(resolve_str_const(repo, module, d[1], flow))
                else:
                    vals.add(None)
            if defs:
                return vals.pop() if len(vals) == 1 else None
        r = repo.resolve_name(module, node.id)
        if isinstance(r, tuple) and r[0] == "assign":
            return resolve_str_const(repo, r[1], r[2])
    return None


# ---- format-template parsing ------------------------------------------------------------------------

class FmtField:
    __slots__ = ("arg", "path", "spec", "nested", "literal_before")

    def __init__(self, arg, path, spec, nested, literal_before):
        self.arg, self.path, self.spec, self.nested, self.literal_before = arg, path, spec, nested, literal_before


def parse_format_call(call):
    """For `"...".format(...)` with a constant template returns (template, [FmtField]) else None.
    FmtField.arg is the AST of the argument the field's first name component refers to; .path the attribute /
    index path text that follows (e.g. '.date', '[0]'); .spec the raw spec; .nested the list of argument
    ASTs referenced inside the spec."""
    f = call.func
    if not (isinstance(f, ast.Attribute) and f.attr == "format" and isinstance(f.value, ast.Constant)
            and isinstance(f.value.value, str)):
        return None
    tpl = f.value.value
    pos = [a for a in call.args]
    kws = {k.arg: k.value for k in call.keywords if k.arg}
    auto = [0]

    def arg_for(first):
        if first == "":
            i = auto[0]
            auto[0] += 1
            return pos[i] if i < len(pos) else None
        if first.isdigit():
            i = int(first)
            return pos[i] if i < len(pos) else None
        return kws.get(first)

    fields = []
    for lit, fname, spec, conv in string.Formatter().parse(tpl):
        if fname is None:
            continue
        m = re.match(r"^([^.\[]*)(.*)$", fname)
        first, rest = m.group(1), m.group(2)
        arg = arg_for(first)
        nested = []
        if spec:
            for _l, nf, _s, _c in string.Formatter().parse(spec):
                if nf is not None:
                    m2 = re.match(r"^([^.\[]*)(.*)$", nf)
                    nested.append((nf, arg_for(m2.group(1))))
        fields.append(FmtField(arg, rest, spec or "", nested, lit))
    return tpl, fields


def static_spec(repo, module, flow, spec, nested):
    """Substitute nested fields by their constant values where known."""
    out = spec
    for nf, argnode in nested:
        val = resolve_str_const(repo, module, argnode, flow) if argnode is not None else None
        out = out.replace("{" + nf + "}", val if val is not None else "\x00", 1)
    return out


def fstring_spec(repo, module, flow, fv):
    """Static text of the format spec of a FormattedValue (None if there is none)."""
    if fv.format_spec is None:
        return None
    parts = []
    for p in fv.format_spec.values:
        if isinstance(p, ast.Constant):
            parts.append(str(p.value))
        elif isinstance(p, ast.FormattedValue):
            v = resolve_str_const(repo, module, p.value, flow)
            parts.append(v if v is not None else "\x00")
    return "".join(parts)


# ---- the census of date reads -------------------------------------------------------------------------

class DateRead:
    __slots__ = ("func", "node", "member", "receiver", "kind")

    def __init__(self, func, node, member, receiver, kind):
        self.func, self.node, self.member, self.receiver, self.kind = func, node, member, receiver, kind

    @property
    def where(self):
        return loc(self.func, self.node)


def _mk_attr_chain(base, path):
    """Build an AST for base + '.a.b' (index parts are kept as text-only Subscript of a Name placeholder)."""
    node = base
    for m in re.finditer(r"\.([^.\[]+)|\[([^\]]*)\]", path):
        if m.group(1) is not None:
            node = ast.Attribute(value=node, attr=m.group(1), ctx=ast.Load())
        else:
            idx = m.group(2)
            sl = ast.Constant(value=int(idx)) if idx.lstrip("-").isdigit() else ast.Constant(value=idx)
            node = ast.Subscript(value=node, slice=sl, ctx=ast.Load())
    return node


def receiver_is_non_date(node):
    """Frozen exceptions for the ambiguous short names `.s` / `.d`."""
    d = dotted(node)
    if d is None:
        return False
    last = d.split(".")[-1]
    return last in NON_DATE_RECEIVERS


def date_reads_in(repo, func, flow=None):
    """All label-relative reads inside one function (nested functions included: they are scanned as part of it)."""
    module = func.module
    flow = flow or reaching(func.node)
    out = []
    for n in ast.walk(func.node):
        if isinstance(n, ast.Attribute) and n.attr in LABEL_RELATIVE and isinstance(n.ctx, ast.Load):
            if n.attr in AMBIGUOUS and receiver_is_non_date(n.value):
                continue
            # `datetime.datetime` / `datetime.strptime` style module accesses are not date reads
            if isinstance(n.value, ast.Name) and n.value.id in ("datetime", "dt") and n.attr in ("datetime", "strftime"):
                r = repo.resolve_name(module, n.value.id)
                if r is not None and not (isinstance(r, tuple) and r[0] == "assign"):
                    continue
            out.append(DateRead(func, n, n.attr, n.value, "attr"))
        elif isinstance(n, ast.FormattedValue):
            spec = fstring_spec(repo, module, flow, n)
            if spec and DATE_SPEC.search(spec):
                out.append(DateRead(func, n, "__format__", n.value, "fmt"))
        elif isinstance(n, ast.Call):
            pf = parse_format_call(n)
            if pf:
                for fld in pf[1]:
                    if fld.arg is None or not fld.spec:
                        continue
                    spec = static_spec(repo, module, flow, fld.spec, fld.nested)
                    if DATE_SPEC.search(spec):
                        recv = _mk_attr_chain(fld.arg, fld.path)
                        node = fld.arg
                        out.append(DateRead(func, node, "__format__", recv, "fmt"))
    return out, flow


# ---- origins of a receiver ---------------------------------------------------------------------------------

def is_change_scale(node):
    return isinstance(node, ast.Call) and isinstance(node.func, ast.Attribute) and node.func.attr == "change_scale"


def is_date_ctor(node):
    """Date.now(...), Date(...), cls(...) are dates built in place with a label chosen here."""
    if not isinstance(node, ast.Call):
        return False
    d = dotted(node.func)
    return d in ("Date.now", "Date", "Date.strptime", "parse_date")


class Origins:
    """Symbolic origins of an expression denoting a Date (or a state carrying one)."""

    def __init__(self, flow, max_depth=8):
        self.flow = flow
        self.max_depth = max_depth

    def of(self, node, depth=0):
        """Returns a set of tuples:
        ('norm', scale_text)          X.change_scale(<arg>)  (scale_text = literal or unparsed expression)
        ('built',)                    Date.now() / Date(...)
        ('dtvalue', inner_origins)    value of a `.datetime` read (already counted where it was read)
        ('path', text)                access path rooted at a parameter / loop variable
        (a path whose text starts with '?' has an opaque root: it can only ever match itself)
        """
        if depth > self.max_depth:
            return {("path", "?" + unparse(node))}
        if is_change_scale(node):
            a = node.args[0] if node.args else None
            if isinstance(a, ast.Constant) and isinstance(a.value, str):
                return {("norm", a.value)}
            if a is None:
                return {("normexpr", "")}
            scale_paths = sorted(o[1] if o[0] == "path" else "?" + unparse(a) for o in self.paths(a, depth + 1))
            return {("normexpr", "|".join(scale_paths))}
        if is_date_ctor(node):
            return {("built",)}
        out = set()
        for p in self.paths(node, depth):
            out.add(p)
        return out

    def paths(self, node, depth=0):
        if depth > self.max_depth:
            return {("path", "?" + unparse(node))}
        if isinstance(node, ast.Name):
            defs = self.flow.defs_of(node)
            if not defs:
                return {("path", node.id)}
            res = set()
            for d in defs:
                res |= self._def_paths(node.id, d, depth + 1)
            return res
        if isinstance(node, ast.Attribute):
            if node.attr == "datetime":
                return {("dtvalue", unparse(node.value))}
            inner = self.of(node.value, depth + 1)
            res = set()
            for o in inner:
                if o[0] == "path":
                    res.add(("path", f"{o[1]}.{node.attr}"))
                elif o[0] in ("norm", "normexpr", "built") and node.attr in ("date",):
                    res.add(o)
                else:
                    res.add(("path", "?" + unparse(node)))
            return res
        if isinstance(node, ast.Subscript):
            inner = self.of(node.value, depth + 1)
            idx = unparse(node.slice)
            return {("path", f"{o[1]}[{idx}]") if o[0] == "path" else ("path", "?" + unparse(node)) for o in inner}
        if isinstance(node, ast.Call):
            if is_change_scale(node) or is_date_ctor(node):
                return self.of(node, depth)
            f = node.func
            # state derivations that keep the date object
            if isinstance(f, ast.Attribute) and f.attr in ("copy", "as_orbit", "as_statevector") and \
                    not any(k.arg == "date" for k in node.keywords):
                return self.of(f.value, depth + 1)
            return {("path", "?" + unparse(node))}
        if isinstance(node, ast.BinOp) and isinstance(node.op, (ast.Div, ast.Mult)):
            # vector arithmetic on a state keeps its date
            return self.of(node.left, depth + 1)
        if isinstance(node, ast.IfExp):
            return self.of(node.body, depth + 1) | self.of(node.orelse, depth + 1)
        return {("path", "?" + unparse(node))}

    def _def_paths(self, name, d, depth):
        kind = d[0]
        if kind == "param":
            return {("path", d[1])}
        if kind == "assign":
            return self.of(d[1], depth)
        if kind == "for":
            it, idx = d[1], d[2]
            if isinstance(it, ast.Call) and call_name(it) == "enumerate" and it.args:
                if idx == 1:
                    it, idx = it.args[0], None
                elif idx == 0:
                    return {("path", f"?index of {unparse(it)}")}
            elif isinstance(it, ast.Call) and isinstance(it.func, ast.Attribute) and it.func.attr == "items":
                if idx == 1:
                    it, idx = it.func.value, None
            inner = self.of(it, depth)
            suffix = "[*]" if idx is None else f"[*][{idx}]"
            return {("path", o[1] + suffix) if o[0] == "path" else ("path", f"?element of {unparse(d[1])}" + suffix) for o in inner}
        if kind == "unpack":
            inner = self.of(d[1], depth)
            return {("path", f"{o[1]}[{d[2]}]") if o[0] == "path" else ("path", "?" + unparse(d[1]) + f"[{d[2]}]") for o in inner}
        if kind == "aug":
            res = set()
            for p in d[4]:
                res |= self._def_paths(name, p, depth)
            return res or {("path", "?" + name)}
        return {("path", "?" + name)}


# ---- label emission ---------------------------------------------------------------------------------------------

def label_paths_of(func, flow=None):
    """Paths X (rooted at the function's parameters) such that the function emits `X.scale.name` / `X.scale`."""
    flow = flow or reaching(func.node)
    org = Origins(flow)
    out = set()
    # a `.scale` read inside the argument of change_scale(...) is a use of a label, not an emission of it
    inside_norm = set()
    for n in ast.walk(func.node):
        if is_change_scale(n):
            for a in n.args:
                for x in ast.walk(a):
                    inside_norm.add(id(x))
    for n in ast.walk(func.node):
        if isinstance(n, ast.Attribute) and n.attr == "scale" and isinstance(n.ctx, ast.Load) and id(n) not in inside_norm:
            for o in org.of(n.value):
                if o[0] == "path":
                    out.add(o[1])
    return out


# ---- H1: convergence polarity --------------------------------------------------------------------------------------

def abs_compare(test):
    """If `test` is `abs(X) <op> T` (either orientation) return (X, op, T) oriented with abs on the left."""
    for left, op, right in cmp_triples(test):
        def is_abs(n):
            return isinstance(n, ast.Call) and call_name(n) in ("abs", "fabs", "norm")
        if is_abs(left):
            return left, op, right
        if is_abs(right):
            from ..model import _CMP_SWAP
            return right, _CMP_SWAP.get(op, op), left
    return None
