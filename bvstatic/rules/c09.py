"""C09 — ephemeris interpolation (structural clauses).

R09.1 refusal before use: every path to the dispatch in Interp.__call__ passes `xs[0] <= x <= xs[-1]` (inclusive at
      both ends) or raises ValueError; DatedInterp re-raises on both arms; construction and call both use `_mjd`
R09.2 frame and form of an interpolated point are the ephemeris' own; the interpolator is rebuilt when the points change
R09.3 window arithmetic of the Lagrange selection: stop − start == order; each edge shift preserves the length
      of xs[start:stop] given slice clipping; the bracketing node lies in the window; a short table raises
R09.4 linear formula y0 + (y1 − y0)(x − x0)/(x1 − x0) on two consecutive nodes; the bracket search
"""
import ast

from .. import terms as T
from ..model import AnalysisError, body_without_doc, cmp_triples, loc, unparse
from ..terms import Extract, Poly

INT = "beyond/utils/interp.py"
EPH = "beyond/orbits/ephem.py"


def r09_1(chk):
    repo = chk.repo
    f = repo.func(INT, "Interp.__call__")
    x = f.params()[1]
    body = body_without_doc(f.node)
    first = body[0]
    ok = False
    if isinstance(first, ast.If) and isinstance(first.test, ast.UnaryOp) and isinstance(first.test.op, ast.Not):
        tr = [(unparse(l), o, unparse(r)) for l, o, r in cmp_triples(first.test.operand)]
        ok = tr == [("self.xs[0]", "<=", x), (x, "<=", "self.xs[-1]")] and isinstance(first.body[0], ast.Raise) and unparse(first.body[0].exc.func) == "ValueError"
    chk.inst("R09.1", f"{f.ref}::range-check-first", ok, "out-of-table abscissas raise ValueError before anything else; both ends inclusive" if ok else
             f"first statement: `{unparse(first)[:100]}`", loc(f, first))
    rets = [s for s in body if isinstance(s, ast.Return)]
    ok = len(rets) == 1 and unparse(rets[0].value) == f"func({x})" and body.index(rets[0]) > 0
    chk.inst("R09.1", f"{f.ref}::dispatch-after-check", ok, "the interpolation function is called only after the check" if ok else "changed", loc(f, f.node))
    t = unparse(f.node).replace(" ", "")
    ok = "ifself.method==self.LINEAR:\nfunc=self._linear\nelifself.method==self.LAGRANGE:\nfunc=self._lagrange\nelse:\nraiseValueError".replace(" ", "") in t.replace("    ", "")
    chk.inst("R09.1", f"{f.ref}::method-dispatch", ok, "linear → _linear, lagrange → _lagrange, anything else refused" if ok else "changed", loc(f, f.node))
    g = repo.func(INT, "DatedInterp.__call__")
    d = g.params()[1]
    tries = [n for n in ast.walk(g.node) if isinstance(n, ast.Try)]
    ok = len(tries) == 1 and unparse(tries[0].body[0]).replace(" ", "") == f"returnsuper().__call__({d}._mjd)" and unparse(tries[0].handlers[0].type) == "ValueError"
    chk.inst("R09.1", f"{g.ref}::abscissa", ok, "dates are interpolated on their reference-scale MJD (instant, not label)" if ok else "changed", loc(g, g.node))
    if tries:
        h = tries[0].handlers[0]
        raises = [n for n in ast.walk(h) if isinstance(n, ast.Raise)]
        ifs = [s for s in h.body if isinstance(s, ast.If)]
        ok = len(raises) == 2 and len(ifs) == 1 and bool(ifs[0].orelse)
        chk.inst("R09.1", f"{g.ref}::re-raises-both-arms", ok, "the refusal is never swallowed: both arms of the handler raise" if ok else f"{len(raises)} raise statements in the handler", loc(g, h))
    i = repo.func(INT, "DatedInterp.__init__")
    ok = f"xs = np.asarray([x._mjd for x in {i.params()[1]}])" in unparse(i.node) and "super().__init__(xs, ys, method, order)" in unparse(i.node).replace(i.params()[3], "method").replace(i.params()[2], "ys")
    chk.inst("R09.1", f"{i.ref}::abscissa", ok, "nodes are the reference-scale MJDs of the dates" if ok else "changed", loc(i, i.node))
    ii = repo.func(INT, "Interp.__init__")
    t = unparse(ii.node)
    ok = "if not all((x0 < x1 for x0, x1 in zip(xs, xs[1:]))):" in t and "raise ValueError" in t
    chk.inst("R09.1", f"{ii.ref}::monotonic", ok, "strictly increasing abscissas required" if ok else "changed", loc(ii, ii.node))
    chk.floor("R09.1", 7)


def r09_2(chk):
    repo = chk.repo
    # the settings of an ephemeris that has already interpolated live in its interpolator: the setters must write the
    # attribute the interpolator reads (wave o: `self.interp._order = value` -- a later `ephem.order = k` silently ignored)
    ec = repo.cls(EPH, "Ephem")
    ic = repo.cls("beyond/utils/interp.py", "Interp")
    read_by_interp = {n.attr for f_ in ic.methods.values() for n in ast.walk(f_.node)
                      if isinstance(n, ast.Attribute) and isinstance(n.value, ast.Name) and n.value.id == "self" and isinstance(n.ctx, ast.Load)}
    for name in ("order", "method"):
        st = ec.setters.get(name)
        if st is None:
            raise AnalysisError(f"Ephem.{name} setter not found")
        targets = [unparse(t) for n in ast.walk(st.node) if isinstance(n, ast.Assign) for t in n.targets]
        fwd = [t for t in targets if t.startswith("self.interp.") or t.startswith("self._interp.")]
        ok = len(fwd) == 1 and fwd[0].split(".")[-1] == name and name in read_by_interp and f"self._{name}" in targets
        chk.inst("R09.2", f"{st.ref}::forwarded", ok, f"writes `{fwd[0]}` (which the interpolator reads) once it exists, `self._{name}` before" if ok else
                 f"writes {targets}: the interpolator reads `self.{name}`", loc(st, st.node))
    f = repo.func(EPH, "Ephem.interpolate")
    d = f.params()[1]
    rets = [s for s in body_without_doc(f.node) if isinstance(s, ast.Return)]
    ok = len(rets) == 1 and unparse(rets[0].value).replace(" ", "") == f"StateVector(self.interp({d}),{d},self.form,self.frame)"
    chk.inst("R09.2", f"{f.ref}::labels", ok, "interpolated values are labelled with the requested date and the ephemeris' own form and frame" if ok else
             f"returns {unparse(rets[0].value) if rets else '?'}", loc(f, f.node))
    eph = repo.cls(EPH, "Ephem")
    for name in ("frame", "form"):
        g = eph.methods[name]
        ok = f"return self._orbits[0].{name}" in unparse(g.node)
        chk.inst("R09.2", f"{g.ref}::of-first-point", ok, f"{name} of the first point" if ok else "changed", loc(g, g.node))
        s = eph.setters[name]
        t = unparse(s.node)
        ok = f"for orb in self:\n        orb.{name} = {s.params()[1]}" in t
        chk.inst("R09.2", f"{s.ref}::all-points", ok, "every point is converted" if ok else "changed", loc(s, s.node))
        inval = "del self._interp" in t or any(isinstance(n, ast.Call) and isinstance(n.func, ast.Attribute) and isinstance(n.func.value, ast.Name) and n.func.value.id == "self"
                                                and n.func.attr in eph.methods and "del self._interp" in unparse(eph.methods[n.func.attr].node) for n in ast.walk(s.node))
        chk.inst("R09.2", f"{s.ref}::invalidates-interpolator", inval, "the interpolator (which holds a copy of the values) is dropped" if inval else
                 "the cached interpolator keeps the old values: interpolated points carry the new label with old-frame values", loc(s, s.node))
    p = eph.methods["propagate"]
    ok = f"return self.interpolate({p.params()[1]})" in unparse(p.node)
    chk.inst("R09.2", f"{p.ref}", ok, "propagate is interpolate" if ok else "changed", loc(p, p.node))
    i = eph.methods["__init__"]
    ok = "self._orbits = list(sorted(orbits, key=lambda x: x.date))".replace("orbits,", i.params()[1] + ",") in unparse(i.node)
    chk.inst("R09.2", f"{i.ref}::sorted", ok, "points sorted by date" if ok else "changed", loc(i, i.node))
    chk.floor("R09.2", 9)


def r09_3(chk):
    f = chk.repo.func(INT, "Interp._lagrange")
    body = body_without_doc(f.node)
    ex = Extract(env={"self.order // 2": None})
    # integer arithmetic with order = 2q + p: model `self.order // 2` as q and `self.order % 2` as p
    q, p, idx, n = Poly.atom("q"), Poly.atom("p"), Poly.atom("prev_idx"), Poly.atom("len")
    sub = {"self.order // 2": q, "self.order % 2": p, "self.order": 2 * q + p, "len(self.ys)": n}
    e = Extract(subst=sub)
    start = stop = None
    for s in body:
        if isinstance(s, ast.Assign) and unparse(s.targets[0]) == "stop":
            stop = e.ev(s.value)
        elif isinstance(s, ast.Assign) and unparse(s.targets[0]) == "start":
            start = e.ev(s.value)
        if start is not None and stop is not None:
            break
    if start is None or stop is None:
        raise AnalysisError(f"{f.ref}: start/stop not found")
    where = loc(f, f.node)
    order = 2 * q + p
    ok = T.equal(stop - start, order)
    chk.obl("R09.3", f"{f.ref}::stop-start==order", ok, "the window holds exactly `order` nodes" if ok else f"stop − start = {T.fmt(stop - start)}", where)
    ok = T.equal(start, Poly.atom("prev_idx") - q + 1) and T.equal(stop, Poly.atom("prev_idx") + 1 + q + p)
    chk.obl("R09.3", f"{f.ref}::window-around-bracket", ok, "start = prev − ⌊o/2⌋ + 1 ≤ prev + 1 < stop: the node after the bracket start lies inside (centred window)" if ok else
            f"start = {T.fmt(start)}, stop = {T.fmt(stop)}", where)
    ifs = [s for s in body if isinstance(s, ast.If) and "stop" in unparse(s.test) and "len(self.ys)" in unparse(s.test)]
    ok = False
    what = "edge handling not recognised"
    if len(ifs) == 1:
        a1 = ifs[0]
        a2 = a1.orelse[0] if len(a1.orelse) == 1 and isinstance(a1.orelse[0], ast.If) else None
        t1 = unparse(a1.test).replace(" ", "")
        b1 = [unparse(s).replace(" ", "") for s in a1.body]
        t2 = unparse(a2.test).replace(" ", "") if a2 is not None else ""
        b2 = [unparse(s).replace(" ", "") for s in a2.body] if a2 is not None else []
        # upper edge: start -= stop - len; the slice xs[start:stop] is clipped at len, so its length is len - start' = order
        up = t1 in ("stop>=len(self.ys)", "stop>len(self.ys)") and b1 == ["start-=stop-len(self.ys)"]
        # lower edge: stop -= start; start = 0  → length stop' - 0 = stop - start = order
        lo = t2 == "start<0" and b2 == ["stop-=start", "start=0"]
        ok = up and lo
        what = "upper edge: start shifted down by the overshoot (slice clipped at the end); lower edge: window shifted up to start at 0 — length `order` in both" if ok else \
            f"upper: `{t1}` {b1}; lower: `{t2}` {b2}"
        # symbolic confirmation of the two lengths
        if ok:
            l_up = n - (start - (stop - n))
            l_lo = (stop - start) - Poly()
            ok = T.equal(l_up, order) and T.equal(l_lo, order)
    chk.obl("R09.3", f"{f.ref}::edge-shifts", ok, what, where)
    t = unparse(f.node)
    ok = "xs = self.xs[start:stop]" in t and "ys = self.ys[start:stop]" in t
    chk.inst("R09.3", f"{f.ref}::same-window-for-xs-and-ys", ok, "abscissas and ordinates are taken from the same window" if ok else "changed", where)
    ok = "if len(ys) != self.order:" in t and "raise ValueError" in t
    chk.inst("R09.3", f"{f.ref}::short-table-raises", ok, "a table shorter than the order is refused" if ok else "changed", where)
    ok = "prev_idx = self._prev_idx(x)".replace("(x)", f"({f.params()[1]})") in t
    chk.inst("R09.3", f"{f.ref}::bracket", ok, "window positioned on the bracketing node" if ok else "changed", where)
    # basis: product over m != j of (x - x_m)/(x_j - x_m), then l_j @ ys
    ok = "l_j = ((x - x_m[mask]) / (x_j[mask] - x_m[mask])).reshape(self.order, self.order - 1).prod(axis=1)".replace("(x -", f"({f.params()[1]} -") in t and "return l_j @ ys" in t \
        and "mask = ~np.identity(self.order, dtype=bool)" in t
    chk.inst("R09.3", f"{f.ref}::basis-shape", ok, "l_j = Π_{m≠j} (x − x_m)/(x_j − x_m); result Σ l_j y_j" if ok else "basis expression changed", where)
    ok = "x_m = np.tile(xs, self.order).reshape(self.order, self.order)" in t and "x_j = np.repeat(np.diag(x_m), self.order, axis=0).reshape(self.order, self.order)" in t
    chk.inst("R09.3", f"{f.ref}::basis-grids", ok, "x_m[j, m] = xs[m], x_j[j, m] = xs[j]" if ok else "grid construction changed", where)
    chk.floor("R09.3", 8)


def r09_4(chk):
    f = chk.repo.func(INT, "Interp._linear")
    x = f.params()[1]
    e = Extract()
    rets = [s for s in body_without_doc(f.node) if isinstance(s, ast.Return)]
    val = e.ev(rets[0].value) if rets else None
    x0, x1, y0, y1, X = (Poly.atom(n) for n in ("x0", "x1", "y0", "y1", x))
    want = y0 + (y1 - y0) * (X - x0) / (x1 - x0)
    ok = val is not None and T.equal(val, want)
    chk.obl("R09.4", f"{f.ref}::formula", ok, "y0 + (y1 − y0)(x − x0)/(x1 − x0)" if ok else f"{T.fmt(val) if val is not None else '?'}", loc(f, f.node))
    t = unparse(f.node)
    ok = "x0, x1 = self.xs[prev_idx:prev_idx + 2]" in t and "y0, y1 = self.ys[prev_idx:prev_idx + 2]" in t
    chk.inst("R09.4", f"{f.ref}::consecutive-nodes", ok, "two consecutive nodes starting at the bracket" if ok else "changed", loc(f, f.node))
    # at x = x0 the formula gives y0 and at x = x1 it gives y1 (node exactness of the linear rule)
    if val is not None:
        ok = T.equal(T.subs(val, {x: x0}), y0) and T.equal(T.subs(val, {x: x1}), y1)
        chk.obl("R09.4", f"{f.ref}::node-exact", ok, "exact at both nodes" if ok else "not exact at the nodes", loc(f, f.node))
    g = chk.repo.func(INT, "Interp._prev_idx")
    t = unparse(g.node).replace(" ", "")
    xx = g.params()[1]
    ok = f"if{xx}>xs[k]:\nprev_idx+=k\nxs=xs[k:]\nelse:\nxs=xs[:k]".replace(" ", "") in t.replace("    ", "") and "k=l//2" in t and "ifl==1:\nbreak".replace(" ", "") in t.replace("    ", "")
    chk.inst("R09.4", f"{g.ref}::bisection", ok, "binary search: strictly greater moves right (a query on a node brackets from the left, so the node itself is used)" if ok else "changed", loc(g, g.node))
    chk.floor("R09.4", 4)


def run(chk):
    chk.rule("R09.1", "out-of-table queries are refused before any interpolation; abscissa is the instant")
    chk.rule("R09.2", "interpolated points keep the ephemeris' frame and form; cache follows the points")
    chk.rule("R09.3", "Lagrange window arithmetic (integer term algebra) and basis shape")
    chk.rule("R09.4", "linear formula and bracket search")
    chk.guard(r09_1, chk)
    chk.guard(r09_2, chk)
    chk.guard(r09_3, chk)
    chk.guard(r09_4, chk)
    chk.assume("slice semantics: xs[a:b] is clipped to the table; order = 2⌊o/2⌋ + (o mod 2)")
