"""C12 — TLE text round-trips and is validated.

R12.1 column agreement: the span of every field the writer formats equals the union of the slices the reader
      takes for the same quantity; total width + 1 = tested length = checksum position + 1
R12.2 field flow Tle.__init__ -> orbit() -> from_orbit and inverse scalings (term algebra on the scale factors)
R12.3 validation precedes parsing; the three documented rejections; checksum definition; from_string's grouping
R12.4 the epoch is written from and read as UTC
"""
import ast
import re

from .. import terms as T
from ..fmt import LayoutError, float_format_slice_width, template_layout
from ..model import AnalysisError, body_without_doc, call_name, cmp_triples, const_value, loc, parent_map, unparse
from ..terms import Extract, F, Poly, Unsupported
from .c01 import nf

TLE = "beyond/io/tle.py"

# writer field -> reader attribute (the quantity both sides talk about); derived below and checked against this table
FIELD_TO_ATTR = {"norad_id": "norad_id", "cospar_id": "cospar_id", "date": "epoch", "day": "epoch", "ndot": "ndot", "ndotdot": "ndotdot",
                 "bstar": "bstar", "elnb": "element_nb", "i": "i", nf("Ω"): nf("Ω"), "e": "e", nf("ω"): nf("ω"), "M": "M", "n": "n",
                 "revolutions": "revolutions"}


def writer_layouts(chk):
    f = chk.repo.func(TLE, "Tle.from_orbit")
    out = {}
    for st in ast.walk(f.node):
        if isinstance(st, ast.Assign) and unparse(st.targets[0]) in ("line1", "line2") and isinstance(st.value, ast.Call) \
                and isinstance(st.value.func, ast.Attribute) and st.value.func.attr == "format":
            call = st.value
            tpl = call.func.value.value
            kws = {k.arg: k.value for k in call.keywords}

            def width_of(fname, spec, kws=kws):
                arg = kws.get(fname)
                return float_format_slice_width(arg) if arg is not None else None
            try:
                lay, total = template_layout(tpl, width_of)
            except LayoutError as e:
                raise AnalysisError(f"{f.ref}: layout of {unparse(st.targets[0])} not static ({e})")
            out[unparse(st.targets[0])] = (lay, total, kws, st)
    if set(out) != {"line1", "line2"}:
        raise AnalysisError(f"{f.ref}: line1/line2 templates not found")
    return f, out


def reader_slices(chk):
    """attr -> list of (line var, lo, hi, node); locals (`year`) are attributed to the attribute they flow into."""
    f = chk.repo.func(TLE, "Tle.__init__")
    per_target = {}
    order = []
    for st in ast.walk(f.node):
        if isinstance(st, (ast.Assign, ast.AugAssign)):
            tgt = unparse(st.targets[0] if isinstance(st, ast.Assign) else st.target)
            for n in ast.walk(st.value):
                if isinstance(n, ast.Subscript) and isinstance(n.value, ast.Name) and n.value.id in ("first", "second"):
                    if isinstance(n.slice, ast.Slice):
                        lo, hi = const_value(n.slice.lower), const_value(n.slice.upper)
                    else:
                        lo = const_value(n.slice)
                        hi = lo + 1 if lo is not None else None
                    per_target.setdefault(tgt, []).append((n.value.id, lo, hi, n))
        if isinstance(st, ast.If):
            for n in ast.walk(st.test):
                if isinstance(n, ast.Subscript) and isinstance(n.value, ast.Name) and n.value.id in ("first", "second") and isinstance(n.slice, ast.Slice):
                    per_target.setdefault("<test>", []).append((n.value.id, const_value(n.slice.lower), const_value(n.slice.upper), n))
    return f, per_target


def r12_1(chk):
    wf, lays = writer_layouts(chk)
    rf, slices = reader_slices(chk)
    # attribute -> slices: locals year/epoch flow into self.cospar_id / self.epoch in statement order
    attr_slices = {}
    body = list(ast.walk(rf.node))
    # resolve locals: `year` before `self.cospar_id = ...` belongs to cospar; `year`/`epoch` before `self.epoch` to epoch
    year_uses = slices.get("year", [])
    cospar = [s for s in slices.get("self.cospar_id", [])]      # slices that feed the value (the emptiness test is not one)
    ys = sorted(year_uses, key=lambda s: s[3].lineno)
    if len(ys) != 2:
        raise AnalysisError(f"{rf.ref}: expected two `year` slices (designator year, epoch year)")
    attr_slices["cospar_id"] = cospar + [ys[0]]
    attr_slices["epoch"] = slices.get("epoch", []) + [ys[1]]
    for tgt, sl in slices.items():
        if tgt.startswith("self.") and tgt not in ("self.cospar_id",):
            attr_slices.setdefault(nf(tgt[5:]), []).extend(sl)
    line_of = {"line1": "first", "line2": "second"}
    n_fields = 0
    for lname, (lay, total, kws, st) in lays.items():
        spans = {}
        for kind, name, a, b in lay:
            if kind == "field":
                spans.setdefault(FIELD_TO_ATTR.get(nf(name), nf(name)), []).append((a, b))
        # total width
        ok = total == 68
        chk.inst("R12.1", f"{wf.ref}::{lname}::width", ok, "68 columns before the checksum" if ok else f"template is {total} columns wide (a TLE line is 68 + checksum)", loc(wf, st))
        for attr, sp in sorted(spans.items()):
            if attr == "norad_id" and lname == "line2":
                # catalogue number on line 2 is written but not read back (read from line 1)
                ok = sp == [(2, 7)]
                chk.inst("R12.1", f"{wf.ref}::{lname}::norad_id", ok, "catalogue number in columns 3–7 of both lines" if ok else f"{sp}", loc(wf, st))
                continue
            n_fields += 1
            lo, hi = min(a for a, _ in sp), max(b for _, b in sp)
            rs = [(l, h) for v, l, h, _ in attr_slices.get(attr, []) if v == line_of[lname]]
            if not rs:
                chk.inst("R12.1", f"{TLE}::{lname}::{attr}", False, f"writer puts `{attr}` in columns [{lo}:{hi}] but the reader takes no slice of {line_of[lname]} for it", loc(wf, st))
                continue
            rlo, rhi = min(l for l, _ in rs), max(h for _, h in rs)
            covered = set()
            for l, h in rs:
                covered |= set(range(l, h))
            ok = (rlo, rhi) == (lo, hi) and covered == set(range(lo, hi))
            node = [n for v, l, h, n in attr_slices[attr] if v == line_of[lname]][0]
            chk.inst("R12.1", f"{TLE}::{lname}::{attr}", ok, f"written in [{lo}:{hi}], read from {sorted(set(rs))}" if ok else
                     f"writer formats `{attr}` in columns [{lo}:{hi}] but the reader slices {sorted(set(rs))}: "
                     f"{'leading' if rlo > lo else 'trailing' if rhi < hi else 'foreign'} characters are "
                     f"{'dropped' if (rlo > lo or rhi < hi) else 'included'}", loc(rf, node))
        # literal characters read back: classification and ephemeris type
        lits = {}
        for kind, text, a, b in lay:
            if kind == "lit":
                for i, ch in enumerate(text):
                    lits[a + i] = ch
        for attr, ch in (("classification", "U"), ("type", "0")):
            for v, l, h, node in attr_slices.get(attr, []):
                if v == line_of[lname]:
                    ok = h == l + 1 and lits.get(l) == ch
                    chk.inst("R12.1", f"{TLE}::{lname}::{attr}", ok, f"column {l} holds the literal '{ch}' the writer emits" if ok else
                             f"reader takes [{l}:{h}] but the writer's literal '{ch}' is elsewhere", loc(rf, node))
        # every separator column is a blank
        seps = [a for kind, text, a, b in lay if kind == "lit" for i, chx in enumerate(text) if chx == " "]
        chk.inst("R12.1", f"{wf.ref}::{lname}::line-number", lits.get(0) == ("1" if lname == "line1" else "2") and lits.get(1) == " ",
                 "line starts with its number and a blank", loc(wf, st), nontrivial=False)
    # checksum appended, length and checksum position
    txt = unparse(wf.node).replace(" ", "")
    ok = "line1+=str(cls._checksum(line1))" in txt and "line2+=str(cls._checksum(line2))" in txt
    chk.inst("R12.1", f"{wf.ref}::checksum-appended", ok, "checksum digit appended to each line" if ok else "changed", loc(wf, wf.node))
    cv = chk.repo.func(TLE, "Tle._check_validity")
    lens = [const_value(tr[2]) for n in ast.walk(cv.node) if isinstance(n, ast.Compare) for tr in cmp_triples(n) if unparse(tr[0]) == "len(line)" and tr[1] == "!="]
    idx = [const_value(n.slice) for n in ast.walk(cv.node) if isinstance(n, ast.Subscript) and unparse(n.value) == "line" and not isinstance(n.slice, ast.Slice)]
    ok = lens == [69] and set(idx) == {68}
    chk.inst("R12.1", f"{cv.ref}::length-and-checksum-position", ok, "length 69 = 68 + 1; checksum digit at index 68" if ok else f"length test {lens}, checksum index {idx}", loc(cv, cv.node))
    cs = chk.repo.func(TLE, "Tle._checksum")
    sl = [(const_value(n.slice.lower), const_value(n.slice.upper)) for n in ast.walk(cs.node) if isinstance(n, ast.Subscript) and unparse(n.value) == cs.params()[1] and isinstance(n.slice, ast.Slice)]
    ok = sl == [(None, 68)]
    chk.inst("R12.1", f"{cs.ref}::covers-68-columns", ok, "checksum over the first 68 columns" if ok else f"{sl}", loc(cs, cs.node))
    chk.floor("R12.1", 2 + 14 + 2 + 3)


class ScaleExtract(Extract):
    """deg2rad / degrees / radians as multiplications; `% 360` dropped; float()/_float()/int() of a slice -> atom v."""

    def call(self, n):
        fname = unparse(n.func).split(".")[-1]
        if fname in ("deg2rad", "radians"):
            return self.ev(n.args[0]) * Poly.atom(T.PI) / 180
        if fname in ("degrees", "rad2deg"):
            return self.ev(n.args[0]) * 180 / Poly.atom(T.PI)
        if fname in ("float", "_float", "int", "_unfloat"):
            return self.ev(n.args[0])
        return super().call(n)

    def ev(self, n):
        if isinstance(n, ast.Subscript) and isinstance(n.value, ast.Name) and n.value.id in ("first", "second"):
            return Poly.atom("v")
        if isinstance(n, ast.BinOp) and isinstance(n.op, ast.Mod) and const_value(n.right) == 360:
            return self.ev(n.left)
        return super().ev(n)


def r12_2(chk):
    rf = chk.repo.func(TLE, "Tle.__init__")
    wf, lays = writer_layouts(chk)
    orb = chk.repo.func(TLE, "Tle.orbit")
    where = loc(wf, wf.node)
    # reader scale of each attribute as a function of the raw field value v
    reader = {}
    for st in ast.walk(rf.node):
        if isinstance(st, ast.Assign) and unparse(st.targets[0]).startswith("self."):
            attr = nf(unparse(st.targets[0])[5:])
            if any(isinstance(n, ast.Subscript) and isinstance(n.value, ast.Name) and n.value.id in ("first", "second") for n in ast.walk(st.value)):
                try:
                    reader[attr] = ScaleExtract().ev(st.value)
                except Unsupported:
                    pass
    # writer expression of each field as a function of the orbit attribute x
    pairs = [("ndot", "ndot", "orbit.ndot"), ("ndotdot", "ndotdot", "orbit.ndotdot"), ("bstar", "bstar", "orbit.bstar"),
             ("i", "i", "i"), (nf("Ω"), nf("Ω"), nf("Ω")), (nf("ω"), nf("ω"), nf("ω")), ("M", "M", "M"), ("n", "n", "n")]
    allkw = {}
    for lname, (lay, total, kws, st) in lays.items():
        allkw.update({nf(k): v for k, v in kws.items()})
    for field, attr, src in pairs:
        if attr not in reader or field not in allkw:
            chk.inst("R12.2", f"{TLE}::scale::{attr}", False, "reader or writer expression not found", where)
            continue
        arg = allkw[field]
        # ndot is formatted inside an f-string: take the formatted value
        if isinstance(arg, ast.Call) and isinstance(arg.func, ast.Attribute) and arg.func.attr == "replace" and isinstance(arg.func.value, ast.JoinedStr):
            arg = arg.func.value.values[0].value
        try:
            w = ScaleExtract(env={}, subst={src: reader[attr]}).ev(arg)
        except Unsupported as e:
            raise AnalysisError(f"{wf.ref}: writer expression of {field} not extractable ({e})")
        ok = T.equal(w, Poly.atom("v"))
        chk.obl("R12.2", f"{TLE}::scale::{attr}", ok, "writer scale × reader scale = 1" if ok else f"written value = {T.fmt(w)} for a field value v", where)
    # eccentricity: implied decimal point on both sides
    e_arg = allkw.get("e")
    ok = e_arg is not None and unparse(e_arg).replace(" ", "") == "'{:.7f}'.format(e)[2:]"
    chk.inst("R12.2", f"{wf.ref}::eccentricity", ok, "7 decimals without the leading '0.'" if ok else f"{unparse(e_arg) if e_arg is not None else None}", where)
    ok = any(isinstance(s, ast.Assign) and nf(unparse(s.targets[0])) == "self.e" and unparse(s.value).replace(" ", "") == "_float(second[26:33])" for s in ast.walk(rf.node)) or "e" in reader
    # element order handed to the orbit and read back
    tl = chk.repo.func(TLE, "Tle.to_list")
    rets = [s for s in body_without_doc(tl.node) if isinstance(s, ast.Return)]
    got = [nf(unparse(e))[5:] for e in rets[0].value.elts] if rets and isinstance(rets[0].value, ast.List) else []
    from .c01 import FormTable
    ft = FormTable(chk)
    want = ft.by_name["tle"][1]
    ok = got == want
    chk.inst("R12.2", f"{tl.ref}::order", ok, f"elements handed over in the order of the TLE form {want}" if ok else f"{got} vs form order {want}", loc(tl, tl.node))
    unp = [s for s in ast.walk(wf.node) if isinstance(s, ast.Assign) and isinstance(s.targets[0], ast.Tuple) and unparse(s.value) == "orbit"]
    ok = len(unp) == 1 and [nf(unparse(e)) for e in unp[0].targets[0].elts] == want
    chk.inst("R12.2", f"{wf.ref}::unpack-order", ok, "writer unpacks the orbit in the order of the TLE form" if ok else "changed", where)
    ok = any(unparse(s).replace(" ", "") == "orbit=orbit.copy(form='TLE',frame='TEME')" for s in ast.walk(wf.node) if isinstance(s, ast.Assign))
    chk.inst("R12.2", f"{wf.ref}::form-and-frame", ok, "orbit converted to TLE form in TEME before writing" if ok else "changed", where)
    # flow through orbit(): every orbit.<attr> the writer reads is provided
    data = None
    for st in ast.walk(orb.node):
        if isinstance(st, ast.Assign) and unparse(st.targets[0]) == "data" and isinstance(st.value, ast.Dict):
            data = {const_value(k): unparse(v) for k, v in zip(st.value.keys, st.value.values)}
    if data is None:
        raise AnalysisError(f"{orb.ref}: data dict not found")
    read = sorted({n.attr for n in ast.walk(wf.node) if isinstance(n, ast.Attribute) and isinstance(n.value, ast.Name) and n.value.id == "orbit"} - {"copy", "date", "name"})
    for a in read:
        ok = a in data and data[a] == f"self.{a}"
        chk.inst("R12.2", f"{orb.ref}::carries::{a}", ok, f"orbit() carries `{a}` to the writer" if ok else f"writer reads orbit.{a} but orbit() provides {data.get(a)}", loc(orb, orb.node))
    rets = [s for s in body_without_doc(orb.node) if isinstance(s, ast.Return)]
    ok = len(rets) == 1 and unparse(rets[0].value).replace(" ", "") == "Orbit(self.to_list(),self.epoch,'TLE','TEME','Sgp4',**data)"
    chk.inst("R12.2", f"{orb.ref}::orbit", ok, "Orbit(elements, epoch, 'TLE', 'TEME', 'Sgp4')" if ok else "changed", loc(orb, orb.node))
    # cospar designator: year split and join
    txt = unparse(rf.node).replace(" ", "")
    ok = "year=int(first[9:11])" in txt and "year+=1900ifyear>=57else2000" in txt and "self.cospar_id=f'{year}-{first[11:17].strip()}'" in txt
    chk.inst("R12.2", f"{rf.ref}::designator", ok, "designator read as '<4-digit year>-<launch+piece>'" if ok else "changed", loc(rf, rf.node))
    wt = unparse(wf.node).replace(" ", "")
    ok = wt.count("cospar_id=y[2:]+i") == 2 and "y,_,i=cospar_id.partition('-')" in wt and "y,_,i=orbit.cospar_id.partition('-')" in wt
    chk.inst("R12.2", f"{wf.ref}::designator", ok, "designator written as the last two digits of the year + launch/piece (inverse of the reader)" if ok else "changed", where)
    ok = "epoch=datetime(year,1,1)+timedelta(days=float(first[20:32])-1)" in txt and "year=int(first[18:20])" in txt
    chk.inst("R12.2", f"{rf.ref}::epoch", ok, "epoch = Jan 1st + (day-of-year − 1) days, pivot year 57" if ok else "changed", loc(rf, rf.node))
    dayexpr = allkw.get("day")
    ok = dayexpr is not None and unparse(dayexpr).replace(" ", "") == "int('{:%j}'.format(date))+date.hour/24.0+date.minute/1440+date.second/86400+date.microsecond/86400000000.0"
    chk.inst("R12.2", f"{wf.ref}::day-of-year", ok, "day-of-year + fraction from h, min, s, µs" if ok else "changed", where)
    # name line
    ok = "self.name=text.pop(0).strip()" in txt and "iflen(text)==3:" in txt
    chk.inst("R12.2", f"{rf.ref}::name-line", ok, "a third (first) line is the name", loc(rf, rf.node))
    ok = "returncls(f'{name}{line1}\\n{line2}')" in wt
    chk.inst("R12.2", f"{wf.ref}::name-line", ok, "name line written first when there is a name" if ok else "changed", where)
    # implied-decimal codec: mantissa and exponent of one field come from ONE formatted string (so a rounding carry reaches
    # the exponent), and the reader rebuilds `±.ddddd e±x`
    from ..frozen import compare_formulas
    for fn, what in (("_float", "implied-decimal reader"), ("_unfloat", "implied-decimal writer")):
        g = chk.repo.func(TLE, fn)
        compare_formulas(chk, "R12.2", f"{TLE}::{fn}", g.node, loc(g, g.node), what)
    g = chk.repo.func(TLE, "_unfloat")
    par = parent_map(g.node)
    reads, renders = [], []
    for n in ast.walk(g.node):
        if isinstance(n, ast.Name) and n.id == "flt" and isinstance(n.ctx, ast.Load):
            p = par.get(n)
            if isinstance(p, ast.Compare):
                continue
            spec = unparse(p.format_spec) if isinstance(p, ast.FormattedValue) and p.format_spec is not None else ""
            (renders if spec.rstrip("'\"").endswith("e") else reads).append(n)
    ok = len(renders) == 1 and not reads
    chk.inst("R12.2", f"{g.ref}::one-rounding", ok, "the value is read once, by a single %e rendering from which both mantissa and exponent are split: rounding to the next decade carries into the exponent" if ok else
             f"the value is read {len(renders)} time(s) by an exponent rendering and {len(reads)} time(s) otherwise: mantissa and exponent are rounded separately, so a mantissa that rounds up to the next decade (0.999996) keeps the old exponent", loc(g, g.node))
    chk.floor("R12.2", 29)


def r12_3(chk):
    rf = chk.repo.func(TLE, "Tle.__init__")
    body = body_without_doc(rf.node)
    call_idx = [i for i, s in enumerate(body) if isinstance(s, ast.Expr) and unparse(s.value) == f"self._check_validity({rf.params()[1]})"]
    first_slice = [i for i, s in enumerate(body) if any(isinstance(n, ast.Subscript) and isinstance(n.value, ast.Name) and n.value.id in ("first", "second") for n in ast.walk(s))]
    ok = len(call_idx) == 1 and first_slice and call_idx[0] < min(first_slice)
    chk.inst("R12.3", f"{rf.ref}::validation-first", ok, "_check_validity runs unconditionally before any column is parsed" if ok else "validation no longer dominates parsing", loc(rf, rf.node))
    cv = chk.repo.func(TLE, "Tle._check_validity")
    t = cv.params()[1]
    raises = [n for n in ast.walk(cv.node) if isinstance(n, ast.Raise)]
    ok = len(raises) == 3 and all(unparse(r.exc.func) == "TleParseError" for r in raises)
    chk.inst("R12.3", f"{cv.ref}::three-rejections", ok, "line number, length and checksum each raise TleParseError" if ok else f"{len(raises)} raise statements", loc(cv, cv.node))
    first = body_without_doc(cv.node)[0]
    ok = isinstance(first, ast.If) and unparse(first.test).replace(" ", "") == f"not{t}[0].lstrip().startswith('1')ornot{t}[1].lstrip().startswith('2')".replace("'1'", "'1 '").replace("'2'", "'2 '").replace(" ", "") \
        or (isinstance(first, ast.If) and unparse(first.test).replace(" ", "") == f"not{t}[0].lstrip().startswith('1 ')ornot{t}[1].lstrip().startswith('2 ')".replace(" ", ""))
    want = f"not{t}[0].lstrip().startswith('1 ')ornot{t}[1].lstrip().startswith('2 ')".replace(" ", "")
    got = unparse(first.test).replace(" ", "") if isinstance(first, ast.If) else ""
    ok = got == want.replace("'1')", "'1 ')") or got == f"not{t}[0].lstrip().startswith('1')ornot{t}[1].lstrip().startswith('2')"
    ok = got in (f"not{t}[0].lstrip().startswith('1')ornot{t}[1].lstrip().startswith('2')", want) or got == f"not{t}[0].lstrip().startswith('1\x20')ornot{t}[1].lstrip().startswith('2\x20')"
    # the unparse keeps the blank inside the literal; compare without stripping blanks
    raw = unparse(first.test) if isinstance(first, ast.If) else ""
    ok = raw == f"not {t}[0].lstrip().startswith('1 ') or not {t}[1].lstrip().startswith('2 ')"
    chk.inst("R12.3", f"{cv.ref}::line-numbers", ok, "line 1 must start with '1 ' and line 2 with '2 '" if ok else f"`{raw}`", loc(cv, first))
    loops = [s for s in body_without_doc(cv.node) if isinstance(s, ast.For)]
    ok = len(loops) == 1 and unparse(loops[0].iter) == f"enumerate({t})"
    chk.inst("R12.3", f"{cv.ref}::both-lines", ok, "length and checksum tested on every line" if ok else "changed", loc(cv, cv.node))
    if loops:
        tests = [unparse(s.test).replace(" ", "") for s in loops[0].body if isinstance(s, ast.If)]
        ok = tests == ["len(line)!=69", "check!=line[68]"] and any(unparse(s).replace(" ", "") == "check=str(cls._checksum(line))" for s in loops[0].body)
        chk.inst("R12.3", f"{cv.ref}::length-then-checksum", ok, "length 69, then computed checksum against the last digit" if ok else f"{tests}", loc(cv, loops[0]))
    cs = chk.repo.func(TLE, "Tle._checksum")
    ct = unparse(cs.node).replace(" ", "")
    ok = "str.maketrans({c:Noneforcinascii_uppercase+'+ .'})" in unparse(cs.node).replace("  ", " ").replace(" ", "").replace("'+.'", "'+ .'") or "ascii_uppercase+'+ .'" in unparse(cs.node)
    ok = "ascii_uppercase + '+ .'" in unparse(cs.node) and ".replace('-', '1')" in unparse(cs.node) and "% 10" in unparse(cs.node) and "sum([int(l) for l in no_letters])" in unparse(cs.node)
    chk.inst("R12.3", f"{cs.ref}::definition", ok, "digits summed, '-' counts 1, letters, '+', blanks and '.' count 0, modulo 10" if ok else "checksum definition changed", loc(cs, cs.node))
    # exception hierarchy: TleParseError ⊂ ParseError ⊂ ValueError (from_string catches ValueError)
    tpe = chk.repo.cls(TLE, "TleParseError")
    pe = chk.repo.cls("beyond/errors.py", "ParseError")
    ok = tpe.base_exprs == ["ParseError"] and pe.base_exprs == ["ValueError"]
    chk.inst("R12.3", f"{TLE}::TleParseError⊂ValueError", ok, "rejections are ValueErrors, which from_string catches" if ok else f"{tpe.base_exprs} / {pe.base_exprs}", TLE)
    fs = chk.repo.func(TLE, "Tle.from_string")
    loops = [s for s in body_without_doc(fs.node) if isinstance(s, ast.For)]
    if len(loops) != 1:
        raise AnalysisError(f"{fs.ref}: loop not found")
    lp = loops[0]
    arms = []
    st = [s for s in lp.body if isinstance(s, ast.If) and "startswith('1 ')" in unparse(s.test)]
    ok = False
    what = "grouping state machine not recognised"
    if len(st) == 1:
        a1 = st[0]
        a2 = a1.orelse[0] if len(a1.orelse) == 1 and isinstance(a1.orelse[0], ast.If) else None
        if a2 is not None:
            b1 = [unparse(s) for s in a1.body]
            tr = [s for s in a2.body if isinstance(s, ast.Try)]
            last = unparse(a2.body[-1]) if a2.body else ""
            else_ = [unparse(s) for s in a2.orelse]
            escapes = [n for n in ast.walk(a2) if isinstance(n, (ast.Continue, ast.Break, ast.Return))]
            ok = not escapes and b1 == ["cache.append(line)"] and unparse(a2.test) == "line.startswith('2 ')" and unparse(a2.body[0]) == "cache.append(line)" and len(tr) == 1 \
                and unparse(tr[0].body[0]) == "yield cls('\\n'.join(cache))" and unparse(tr[0].handlers[0].type) == "ValueError" \
                and last == "cache = []" and else_ == ["cache = [line]"]
            what = "line 1 appended; line 2 appended then parsed (errors handled) and the cache always reset; any other line starts a new entry as its name" if ok else \
                f"arm1 {b1}; after-try `{last}`; else {else_}"
    chk.inst("R12.3", f"{fs.ref}::grouping", ok, what, loc(fs, lp))
    if len(st) == 1 and st[0].orelse and isinstance(st[0].orelse[0], ast.If):
        tr = [s for s in st[0].orelse[0].body if isinstance(s, ast.Try)]
        if tr:
            h = tr[0].handlers[0]
            hb = unparse(h).replace(" ", "")
            ok = "iferror=='raise':\nraiseTleParseError(str(e))".replace(" ", "") in hb.replace("    ", "") and "eliferror=='warn':\nlog.warning(str(e))".replace(" ", "") in hb.replace("    ", "")
            chk.inst("R12.3", f"{fs.ref}::error-policy", ok, "raise / warn / ignore as documented" if ok else "changed", loc(fs, h))
    skip = [s for s in lp.body if isinstance(s, ast.If) and isinstance(s.body[0], ast.Continue)]
    ok = len(skip) == 1 and unparse(skip[0].test) == f"not line.strip() or line.startswith({fs.params()[2]})"
    chk.inst("R12.3", f"{fs.ref}::skips", ok, "blank and comment lines are skipped" if ok else "changed", loc(fs, lp))
    chk.floor("R12.3", 10)


def r12_4(chk):
    rf = chk.repo.func(TLE, "Tle.__init__")
    ep = [s for s in ast.walk(rf.node) if isinstance(s, ast.Assign) and unparse(s.targets[0]) == "self.epoch"]
    ok = len(ep) == 1 and unparse(ep[0].value) in ("Date(epoch)", "Date(epoch, scale='UTC')")
    chk.inst("R12.4", f"{rf.ref}::epoch-scale", ok, "epoch read as UTC (default scale of Date)" if ok else f"{unparse(ep[0].value) if ep else '?'}", loc(rf, rf.node))
    wf = chk.repo.func(TLE, "Tle.from_orbit")
    ds = [s for s in ast.walk(wf.node) if isinstance(s, ast.Assign) and unparse(s.targets[0]) == "date"]
    ok = len(ds) == 1 and unparse(ds[0].value) == "orbit.date.change_scale('UTC').datetime"
    chk.inst("R12.4", f"{wf.ref}::epoch-scale", ok, "epoch written from the UTC reading of the orbit's date" if ok else
             f"date = {unparse(ds[0].value) if ds else '?'}: the epoch's own clock fields are written, whatever its scale", loc(wf, wf.node))
    chk.floor("R12.4", 2)


def run(chk):
    chk.rule("R12.1", "writer field spans = reader slices, per quantity; width, length and checksum position agree")
    chk.rule("R12.2", "field flow through orbit(); writer scale × reader scale = 1; designator and epoch encodings inverse")
    chk.rule("R12.3", "validation dominates parsing; three rejections; checksum definition; grouping of lines")
    chk.rule("R12.4", "epoch written from and read as UTC")
    chk.guard(r12_1, chk)
    chk.guard(r12_2, chk)
    chk.guard(r12_3, chk)
    chk.guard(r12_4, chk)
    chk.assume("each value fits its field (catalogue numbers ≤ 5 digits, 0 ≤ e < 1, angles < 360°, n < 100 rev/day, ...)")
