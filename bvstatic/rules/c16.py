"""C16 — Clohessy-Wiltshire propagation solves Hill's equations.

R16.1 the closed-form matrices of ClohessyWiltshire._propagate satisfy Phi(0)=I, Phi'=A Phi, Psi(0)=0,
      Psi'=A Psi + [0;I] with A the matrix of Hill's equations (108 entry-wise obligations, term algebra).
R16.2 QSW2TNW is the signed permutation (q,s,w)->(s,-q,w), det +1; the TNW arm is a similarity transform
      by _mat6/_mat3; _mat3 is the identity exactly in the arm where _propagate does not rotate.
R16.3 maneuver sequencing in propagate(): impulse = free flight to man.date then velocity += dv; continuous =
      free flight to start, thrust to min(date, stop); the applicability test bounds the maneuver date on
      BOTH sides (epoch and target date).
"""
import ast

from ..model import AnalysisError, body_without_doc, call_name, cmp_triples, loc, unparse
from .. import terms as T
from ..terms import Poly, Extract, Unsupported, F

CW = "beyond/propagators/cw.py"


def hill_matrix(n):
    Z, O = Poly(), Poly.const(1)
    n2 = n * n
    return [
        [Z, Z, Z, O, Z, Z],
        [Z, Z, Z, Z, O, Z],
        [Z, Z, Z, Z, Z, O],
        [3 * n2, Z, Z, Z, 2 * n, Z],
        [Z, Z, Z, -2 * n, Z, Z],
        [Z, Z, -n2, Z, Z, Z],
    ]


def r16_1(chk):
    f = chk.repo.func(CW, "ClohessyWiltshire._propagate")
    ex = Extract()
    ex.run(body_without_doc(f.node))
    env = ex.env
    for name in ("evol_mat", "accel_mat"):
        if name not in env or not T.is_mat(env[name]):
            raise AnalysisError(f"{f.ref}: matrix literal `{name}` not found in straight-line code")
    Phi, Psi = env["evol_mat"], env["accel_mat"]
    if (len(Phi), len(Phi[0])) != (6, 6) or (len(Psi), len(Psi[0])) != (6, 3):
        raise AnalysisError(f"{f.ref}: unexpected matrix shapes")
    n = env.get("n")
    t = env.get("t")
    if not isinstance(n, Poly) or not isinstance(t, Poly) or len(n.atoms()) != 1 or len(t.atoms()) != 1:
        raise AnalysisError(f"{f.ref}: cannot identify the mean motion `n` and elapsed time `t`")
    t_atom = next(iter(t.atoms()))
    table = {t_atom: Poly.const(1)}
    A = hill_matrix(n)
    zero = {t_atom: Poly()}
    where = loc(f, f.node)
    APhi = T.matmul(A, Phi)
    APsi = T.matmul(A, Psi)
    for i in range(6):
        for j in range(6):
            lhs = T.deriv(Phi[i][j], table)
            ok = T.equal(lhs, APhi[i][j])
            chk.obl("R16.1", f"{f.ref}::Phi'[{i}][{j}]==(A Phi)[{i}][{j}]", ok,
                    "state-transition entry satisfies Hill's equations" if ok else
                    f"d/dt evol_mat[{i}][{j}] = {T.fmt(lhs)} but (A·evol_mat)[{i}][{j}] = {T.fmt(APhi[i][j])}", where)
            v0 = T.subs(Phi[i][j], zero)
            ok = T.equal(v0, Poly.const(1 if i == j else 0))
            chk.obl("R16.1", f"{f.ref}::Phi(0)[{i}][{j}]", ok,
                    "Phi(0) = I" if ok else f"evol_mat[{i}][{j}] at t=0 is {T.fmt(v0)}", where)
        for j in range(3):
            lhs = T.deriv(Psi[i][j], table)
            rhs = APsi[i][j] + Poly.const(1 if i == j + 3 else 0)
            ok = T.equal(lhs, rhs)
            chk.obl("R16.1", f"{f.ref}::Psi'[{i}][{j}]==(A Psi + B)[{i}][{j}]", ok,
                    "thrust-matrix entry satisfies the forced Hill equations" if ok else
                    f"d/dt accel_mat[{i}][{j}] = {T.fmt(lhs)} but (A·accel_mat + B)[{i}][{j}] = {T.fmt(rhs)}", where)
            v0 = T.subs(Psi[i][j], zero)
            ok = T.equal(v0, Poly())
            chk.obl("R16.1", f"{f.ref}::Psi(0)[{i}][{j}]", ok,
                    "Psi(0) = 0" if ok else f"accel_mat[{i}][{j}] at t=0 is {T.fmt(v0)}", where)
    # n is the mean motion sqrt(mu / sma^3) and t the elapsed seconds of an invariant Date difference
    nprop = chk.repo.func(CW, "ClohessyWiltshire.n")
    found = False
    for st in ast.walk(nprop.node):
        if isinstance(st, ast.Assign) and unparse(st.targets[0]) == "self._n":
            e = Extract()
            val = e.ev(st.value)
            mu = [a for a in val.atoms() if "B" not in a[:1]]
            ok = any(T.equal(val, T.power(Poly.atom(f"self.frame.center.body.{mu}") / T.power(Poly.atom("self.sma"), 3), T.F(1, 2)))
                     for mu in ("\u03bc", "mu"))  # identifiers are NFKC-normalised by the parser: µ (U+00B5) -> μ (U+03BC)
            chk.obl("R16.1", f"{nprop.ref}::n==sqrt(mu/sma^3)", ok,
                    "mean motion of the target" if ok else f"n = {T.fmt(val)}", loc(nprop, st))
            found = True
    if not found:
        raise AnalysisError(f"{nprop.ref}: assignment to self._n not found")
    tdef = None
    for st in body_without_doc(f.node):
        if isinstance(st, ast.Assign) and unparse(st.targets[0]) == "t":
            tdef = st
    ok = tdef is not None and unparse(tdef.value) == "dt.total_seconds()"
    dtdef = next((st for st in body_without_doc(f.node) if isinstance(st, ast.Assign) and unparse(st.targets[0]) == "dt"), None)
    ok = ok and dtdef is not None and unparse(dtdef.value) in ("date - orb.date",)
    chk.inst("R16.1", f"{f.ref}::t==(date-orb.date).total_seconds()", ok,
             "elapsed time is measured from the state being propagated" if ok else
             f"t = {unparse(tdef.value) if tdef else '?'}; dt = {unparse(dtdef.value) if dtdef else '?'}", loc(f, tdef or f.node))
    # result wiring: new = evol_mat @ orb + accel_mat @ accel ; new.date = orb.date + dt
    rets = [st for st in body_without_doc(f.node) if isinstance(st, ast.Assign) and unparse(st.targets[0]) == "new"]
    val = rets[0].value if len(rets) == 1 else None
    if isinstance(val, ast.Call) and isinstance(val.func, ast.Attribute) and val.func.attr == "copy" and not val.args:
        val = val.func.value          # a defensive copy of the result does not change its value
    ok = val is not None and unparse(val).replace(" ", "") in ("evol_mat@orb+accel_mat@accel", "accel_mat@accel+evol_mat@orb")
    chk.inst("R16.1", f"{f.ref}::new==evol_mat@orb+accel_mat@accel", ok,
             "result is Phi·x + Psi·a" if ok else f"new = {unparse(rets[0].value) if rets else '?'}", loc(f, rets[0] if rets else f.node))
    dts = [st for st in body_without_doc(f.node) if isinstance(st, ast.Assign) and unparse(st.targets[0]) == "new.date"]
    ok = len(dts) == 1 and unparse(dts[0].value).replace(" ", "") in ("orb.date+dt", "date")
    chk.inst("R16.1", f"{f.ref}::new.date", ok, "result is dated at the target date" if ok else
             f"new.date = {unparse(dts[0].value) if dts else '?'}", loc(f, dts[0] if dts else f.node))
    chk.floor("R16.1", 110)


def r16_2(chk):
    c = chk.repo.cls(CW, "ClohessyWiltshire")
    node = c.attrs.get("QSW2TNW")
    if node is None:
        raise AnalysisError("ClohessyWiltshire.QSW2TNW not found")
    M = Extract().ev(node)
    where = loc(c.module, node)
    expect = [[0, 1, 0], [-1, 0, 0], [0, 0, 1]]
    for i in range(3):
        for j in range(3):
            ok = T.equal(M[i][j], Poly.const(expect[i][j]))
            chk.obl("R16.2", f"{c.ref}.QSW2TNW[{i}][{j}]", ok,
                    "(q,s,w) -> (s,-q,w)" if ok else f"entry is {T.fmt(M[i][j])}, expected {expect[i][j]}", where)
    ok = T.equal(T.det3(M), Poly.const(1))
    chk.obl("R16.2", f"{c.ref}.QSW2TNW.det", ok, "det = +1" if ok else f"det = {T.fmt(T.det3(M))}", where)
    # default orientation literal
    hf = chk.repo.cls("beyond/frames/frames.py", "HillFrame")
    d = hf.attrs.get("DEFAULT_ORIENTATION")
    ok = isinstance(d, ast.Constant) and d.value == "QSW"
    chk.inst("R16.2", "beyond/frames/frames.py::HillFrame.DEFAULT_ORIENTATION", ok,
             "the computational frame QSW is the default orientation" if ok else f"DEFAULT_ORIENTATION = {unparse(d) if d is not None else None}",
             loc(hf.module, d) if d is not None else "")
    # _mat3: identity when orientation == DEFAULT else QSW2TNW
    m3 = chk.repo.func(CW, "ClohessyWiltshire._mat3")
    ifs = [s for s in body_without_doc(m3.node) if isinstance(s, ast.If)]
    ok = False
    what = "unrecognised shape of _mat3"
    if len(ifs) == 1:
        tr = cmp_triples(ifs[0].test)
        if len(tr) == 1:
            l, op, r = tr[0]
            subj = {unparse(l), unparse(r)}
            if subj == {"self.frame.orientation", "HillFrame.DEFAULT_ORIENTATION"} and op in ("==", "!="):
                body_eq, body_ne = (ifs[0].body, ifs[0].orelse) if op == "==" else (ifs[0].orelse, ifs[0].body)
                r_eq = unparse(body_eq[0].value) if body_eq and isinstance(body_eq[0], ast.Return) else ""
                r_ne = unparse(body_ne[0].value) if body_ne and isinstance(body_ne[0], ast.Return) else ""
                ok = r_eq.replace("numpy", "np") in ("np.identity(3)", "np.eye(3)") and r_ne == "self.QSW2TNW"
                what = f"default arm returns {r_eq}, other arm returns {r_ne}"
    chk.inst("R16.2", f"{m3.ref}::arms", ok, what, loc(m3, m3.node))
    m6 = chk.repo.func(CW, "ClohessyWiltshire._mat6")
    rets = [s for s in body_without_doc(m6.node) if isinstance(s, ast.Return)]
    ok = len(rets) == 1 and unparse(rets[0].value) == "expand(self._mat3)"
    chk.inst("R16.2", f"{m6.ref}::expand(_mat3)", ok, "6x6 is the block-diagonal expansion without rate" if ok else
             f"returns {unparse(rets[0].value) if rets else '?'}", loc(m6, m6.node))
    # TNW arm of _propagate
    f = chk.repo.func(CW, "ClohessyWiltshire._propagate")
    ifs = [s for s in body_without_doc(f.node) if isinstance(s, ast.If) and "orientation" in unparse(s.test)]
    if len(ifs) != 1:
        raise AnalysisError(f"{f.ref}: orientation test not found")
    tr = cmp_triples(ifs[0].test)
    ok = len(tr) == 1 and {unparse(tr[0][0]), unparse(tr[0][2])} == {"self.frame.orientation", "HillFrame.DEFAULT_ORIENTATION"} and tr[0][1] == "!="
    chk.inst("R16.2", f"{f.ref}::orientation-test", ok,
             "rotation applied exactly when the orientation is not the computational one" if ok else f"test is `{unparse(ifs[0].test)}`",
             loc(f, ifs[0]))
    want = {"evol_mat": "self._mat6 @ evol_mat @ self._mat6.T",
            "accel_mat[:3, :]": "self._mat3 @ accel_mat[:3, :] @ self._mat3.T",
            "accel_mat[3:, :]": "self._mat3 @ accel_mat[3:, :] @ self._mat3.T"}
    got = {unparse(s.targets[0]): unparse(s.value) for s in ifs[0].body if isinstance(s, ast.Assign)}
    for k, v in want.items():
        ok = got.get(k) == v
        chk.inst("R16.2", f"{f.ref}::similarity::{k}", ok, "M X Mᵀ with the same M on both sides" if ok else
                 f"{k} = {got.get(k)}", loc(f, ifs[0]))
    chk.floor("R16.2", 17)


def _window_bounds(test, subject):
    """Collect comparisons bounding `subject` (text) in a BoolOp(And)/Compare: returns set of ('lower'|'upper', other, strict)."""
    out = set()
    comps = []
    for n in ast.walk(test):
        if isinstance(n, ast.Compare):
            comps.extend(cmp_triples(n))
    for l, op, r in comps:
        lt, rt = unparse(l), unparse(r)
        if op not in ("<", "<=", ">", ">="):
            continue
        if lt == subject:
            side = "upper" if op in ("<", "<=") else "lower"
            out.add((side, rt, op in ("<", ">")))
        elif rt == subject:
            side = "lower" if op in ("<", "<=") else "upper"
            out.add((side, lt, op in ("<", ">")))
    return out


def r16_3(chk):
    f = chk.repo.func(CW, "ClohessyWiltshire.propagate")
    body0 = body_without_doc(f.node)
    loops = [s for s in body0 if isinstance(s, ast.For)]
    if len(loops) != 1 or unparse(loops[0].iter) != "self.orbit.maneuvers":
        raise AnalysisError(f"{f.ref}: loop over self.orbit.maneuvers not found")
    loop = loops[0]
    man = unparse(loop.target)
    # the running state: the local initialised from self.orbit
    starts = [s for s in body0 if isinstance(s, ast.Assign) and unparse(s.value) == "self.orbit" and isinstance(s.targets[0], ast.Name)]
    ok = len(starts) == 1
    chk.inst("R16.3", f"{f.ref}::start-state", ok, "starts from the initial orbit" if ok else "no local initialised from self.orbit", loc(f, f.node))
    if not ok:
        return
    orb = starts[0].targets[0].id
    # the target date: the parameter
    date = f.params()[1]
    arms = []
    st = loop.body[0] if loop.body and isinstance(loop.body[0], ast.If) else None
    while st is not None:
        arms.append(st)
        st = st.orelse[0] if len(st.orelse) == 1 and isinstance(st.orelse[0], ast.If) else None
    kinds = {}
    for a in arms:
        t = unparse(a.test)
        if f"isinstance({man}, ImpulsiveMan)" in t:
            kinds["impulsive"] = a
        elif f"isinstance({man}, ContinuousMan)" in t:
            kinds["continuous"] = a
    if set(kinds) != {"impulsive", "continuous"} or len(loop.body) != 1:
        raise AnalysisError(f"{f.ref}: impulsive/continuous arms not found")
    epoch_names = {"self.orbit.date", f"{orb}.date"}

    def is_prop(stmt, target_dates, extra_args=()):
        """`orb = self._propagate(<date>, orb[, accel])`"""
        if not (isinstance(stmt, ast.Assign) and unparse(stmt.targets[0]) == orb and isinstance(stmt.value, ast.Call)):
            return False
        return _is_prop_call(stmt.value, target_dates, extra_args)

    def _is_prop_call(c, target_dates, extra_args):
        if unparse(c.func) != "self._propagate" or c.keywords and any(k.arg != "accel" for k in c.keywords):
            return False
        args = [unparse(x) for x in c.args] + [unparse(k.value) for k in c.keywords]
        if len(args) != 2 + len(extra_args):
            return False
        return args[0].replace(" ", "") in {t.replace(" ", "") for t in target_dates} and args[1] == orb and tuple(args[2:]) == tuple(extra_args)

    # --- impulsive arm
    a = kinds["impulsive"]
    ok = len(a.body) == 2 and is_prop(a.body[0], {f"{man}.date"}) and isinstance(a.body[1], ast.AugAssign) \
        and isinstance(a.body[1].op, ast.Add) and unparse(a.body[1].target) == f"{orb}[3:]" and unparse(a.body[1].value) == f"{man}.dv({orb})"
    chk.inst("R16.3", f"{f.ref}::impulse-sequence", ok,
             "free flight to the impulse date, then dv added to the velocity only, once" if ok else
             f"arm body: {[unparse(s) for s in a.body]}", loc(f, a))
    b = _window_bounds(a.test, f"{man}.date")
    uppers = {o for s, o, strict in b if s == "upper"}
    lowers = {o for s, o, strict in b if s == "lower"}
    ok_u = date in uppers
    ok_l = bool(lowers & epoch_names)
    chk.inst("R16.3", f"{f.ref}::impulse-window-upper", ok_u, "impulse applied only if dated at or before the target date" if ok_u
             else f"no upper bound `{man}.date <= {date}` in `{unparse(a.test)}`", loc(f, a))
    # H3: the window is half-open -- a state propagated to the very date of an impulse contains its dv and keeps the maneuver
    # list, so the lower bound must be strict (epoch < man.date <= date), as in ImpulsiveMan.check of the integrator
    strict_l = {strict for s_, o, strict in b if s_ == "lower" and o in epoch_names}
    strict_u = {strict for s_, o, strict in b if s_ == "upper" and o == date}
    ok_h3 = strict_l == {True} and strict_u == {False}
    chk.inst("R16.3", f"{f.ref}::impulse-window-half-open", ok_h3, "epoch < man.date <= date: an impulse dated exactly at the epoch of a state is already in it" if ok_h3
             else f"`{unparse(a.test)}`: the window must be open at the epoch and closed at the target date, else a state that stops on the maneuver date gets the impulse twice (t1 then t2 != t1+t2)", loc(f, a))
    chk.inst("R16.3", f"{f.ref}::impulse-window-lower", ok_l, "impulse applied only if dated after the epoch of the state" if ok_l
             else f"test `{unparse(a.test)}` does not bound {man}.date from below: a burn dated before the epoch is applied "
                  f"(back to its date, dv, forward again) and, since results keep the maneuvers, t1 then t2 != t1+t2", loc(f, a))
    # --- continuous arm
    a = kinds["continuous"]
    b = _window_bounds(a.test, f"{man}.start")
    ok_u = date in {o for s, o, strict in b if s == "upper"}
    chk.inst("R16.3", f"{f.ref}::continuous-window-upper", ok_u, "burn considered only if started at or before the target date" if ok_u
             else f"test `{unparse(a.test)}`", loc(f, a))
    bl = _window_bounds(a.test, f"{man}.start") | _window_bounds(a.test, f"{man}.stop")
    ok_l = bool({o for s, o, strict in bl if s == "lower"} & epoch_names)
    chk.inst("R16.3", f"{f.ref}::continuous-window-lower", ok_l, "burn considered only if it is not over before the epoch" if ok_l
             else f"test `{unparse(a.test)}` does not bound the burn from below (a burn that ended before the epoch is replayed)", loc(f, a))
    body = a.body
    starts_ok = {f"{man}.start", f"max({man}.start, {orb}.date)", f"max({orb}.date, {man}.start)",
                 f"max({man}.start, self.orbit.date)", f"max(self.orbit.date, {man}.start)"}
    ok = len(body) == 2 and is_prop(body[0], starts_ok) and isinstance(body[1], ast.If) \
        and unparse(body[1].test) == f"{man}.check({date})" \
        and len(body[1].body) == 1 and isinstance(body[1].body[0], ast.Return) and isinstance(body[1].body[0].value, ast.Call) \
        and _is_prop_call(body[1].body[0].value, {date}, (f"{man}.accel({orb})",)) \
        and len(body[1].orelse) == 1 and is_prop(body[1].orelse[0], {f"{man}.stop"}, (f"{man}.accel({orb})",))
    chk.inst("R16.3", f"{f.ref}::continuous-sequence", ok,
             "free flight to start; thrust to the target date if inside the burn, else thrust to stop" if ok else
             f"arm body: {[unparse(s) for s in body]}", loc(f, a))
    rets = [s for s in body0 if isinstance(s, ast.Return)]
    ok = len(rets) == 1 and isinstance(rets[0].value, ast.Call) and _is_prop_call(rets[0].value, {date}, ())
    chk.inst("R16.3", f"{f.ref}::final-free-flight", ok, "free flight from the last event to the target date" if ok else
             f"{[unparse(r) for r in rets]}", loc(f, rets[0] if rets else f.node))
    # ContinuousMan.check is half-open [start, stop)
    mc = chk.repo.func("beyond/orbits/man.py", "ContinuousMan.check")
    rets = [s for s in body_without_doc(mc.node) if isinstance(s, ast.Return)]
    d = mc.params()[1]
    bounds = _window_bounds(rets[0].value, d) if len(rets) == 1 else set()
    ok = bounds == {("lower", "self.start", False), ("upper", "self.stop", True)}
    chk.inst("R16.3", f"{mc.ref}::half-open", ok, "thrust window is [start, stop)" if ok else
             f"returns {unparse(rets[0].value) if rets else '?'}", loc(mc, mc.node))
    chk.floor("R16.3", 10)


HELPER = "beyond/utils/cwhelper.py"


def _phi_psi(chk):
    f = chk.repo.func(CW, "ClohessyWiltshire._propagate")
    ex = Extract()
    ex.run(body_without_doc(f.node))
    Phi, Psi = ex.env.get("evol_mat"), ex.env.get("accel_mat")
    n, t = ex.env.get("n"), ex.env.get("t")
    if not (T.is_mat(Phi) and T.is_mat(Psi) and isinstance(n, Poly) and isinstance(t, Poly)):
        raise AnalysisError("CW matrices not extractable")
    return Phi, Psi, n, next(iter(t.atoms())), next(iter(n.atoms()))


def r16_4(chk):
    """CWHelper: each helper's maneuvers, pushed through the matrices read from cw.py, move the chaser by the distances the
    helper announces and leave it where it says (QSW orientation; TNW is the similarity transform of R16.2)."""
    Phi, Psi, n, t_atom, n_atom = _phi_psi(chk)
    pi = Poly.atom(T.PI)

    def at(angle):
        """Φ and Ψ at n·t = angle."""
        sub = {t_atom: angle / n}
        return T.mat_map(lambda p: T.subs(p, sub), Phi), T.mat_map(lambda p: T.subs(p, sub), Psi)

    cls = chk.repo.cls(HELPER, "CWHelper")
    env = {"self.n": n, "self._mat3": T.identity(3), "self._mat6": T.identity(6)}
    where = lambda f: loc(f, f.node)
    r, d = Poly.atom("radial"), Poly.atom("tangential")
    Z = Poly()
    # period
    f = cls.methods["period"]
    ok = "timedelta(seconds=np.pi * 2 / self.n)" in unparse(f.node)
    chk.inst("R16.4", f"{f.ref}", ok, "period = 2π/n" if ok else "changed", where(f))
    # coelliptic: x stays, no radial velocity, drift −3/2 n x
    f = cls.methods["coelliptic_velocity"]
    cv = Extract(env=dict(env)).run(body_without_doc(f.node)).get("return")
    ok = isinstance(cv, Poly) and T.equal(cv, F(3, 2) * n * r)
    chk.obl("R16.4", f"{f.ref}", ok, "3/2 n x" if ok else "changed", where(f))
    f = cls.methods["coelliptic"]
    call = [c for c in ast.walk(f.node) if isinstance(c, ast.Call) and unparse(c.func) == "Orbit"]
    ex = Extract(env=dict(env), subst={"self.coelliptic_velocity(radial)": F(3, 2) * n * r})
    s0 = ex.ev(call[0].args[0]) if call else None
    if not (isinstance(s0, list) and len(s0) == 6):
        raise AnalysisError(f"{f.ref}: initial state not extractable")
    st = T.matmul(Phi, s0)
    ok = T.equal(st[0], r) and T.equal(st[3], Z) and T.equal(st[4], -F(3, 2) * n * r) and T.equal(st[2], Z)
    chk.obl("R16.4", f"{f.ref}::stays-coelliptic", ok, "under Φ(t) the radial offset is constant, the radial rate zero and the drift −3/2 n x for all t" if ok else
            f"x(t) = {T.fmt(st[0])}, ẋ = {T.fmt(st[3])}, ẏ = {T.fmt(st[4])}", where(f))
    # helpers returning maneuvers: extract the dv vector
    def dv_of(name, extra=None):
        f = cls.methods[name]
        ex = Extract(env=dict(env, **(extra or {})))
        for s_ in body_without_doc(f.node):
            if isinstance(s_, ast.Assign) and unparse(s_.targets[0]) == "dv":
                return f, ex.ev(s_.value)
        raise AnalysisError(f"{f.ref}: dv not found")
    # Hohmann: two tangential impulses half a period apart
    f, dv = dv_of("hohmann")
    P1, _ = at(pi)
    s1 = T.matmul(P1, [Z, Z, Z] + dv)
    fd = cls.methods["hohmann_distance"]
    hd = Extract(env=dict(env)).run([x for x in body_without_doc(fd.node) if isinstance(x, ast.Assign)]).get("res")
    ok = T.equal(s1[0], r)
    chk.obl("R16.4", f"{f.ref}::radial-distance", ok, "after half a period the chaser has moved radially by exactly `radial`" if ok else f"x(π) = {T.fmt(s1[0])}", where(f))
    ok = isinstance(hd, Poly) and T.equal(s1[1] * s1[1], hd * hd)
    chk.obl("R16.4", f"{fd.ref}::along-track", ok, "the along-track travel of the transfer is hohmann_distance(radial) = 3π/4 · radial" if ok else f"y(π) = {T.fmt(s1[1])}, announced {T.fmt(hd) if isinstance(hd, Poly) else '?'}", where(fd))
    after = [s1[3] + dv[0], s1[4] + dv[1]]
    ok = T.equal(after[0], Z) and T.equal(after[1], -F(3, 2) * n * r)
    chk.obl("R16.4", f"{f.ref}::arrival", ok, "the second impulse leaves the chaser on the coelliptic orbit of the new radius (ẋ = 0, ẏ = −3/2 n radial)" if ok else f"after: ẋ = {T.fmt(after[0])}, ẏ = {T.fmt(after[1])}", where(f))
    t_ = unparse(f.node)
    ok = "ImpulsiveMan(date, dv), ImpulsiveMan(date + self.period / 2, dv)" in t_ and "ContinuousMan(date, self.period, dv=2 * dv)" in t_
    chk.inst("R16.4", f"{f.ref}::timing", ok, "impulses half a period apart; the continuous variant delivers 2·dv over one period" if ok else "changed", where(f))
    ok = "return res * 2 if continuous else res" in unparse(fd.node)
    chk.inst("R16.4", f"{fd.ref}::continuous-doubling", ok, "continuous transfer travels twice as far" if ok else "changed", where(fd))
    # eccentric boost: two radial impulses half a period apart
    f, dv = dv_of("eccentric_boost")
    s1 = T.matmul(P1, [Z, Z, Z] + dv)
    ok = T.equal(s1[1], d) and T.equal(s1[0], Z)
    chk.obl("R16.4", f"{f.ref}::along-track", ok, "after half a period the chaser has moved along-track by exactly `tangential`, back on the V-bar" if ok else f"x(π) = {T.fmt(s1[0])}, y(π) = {T.fmt(s1[1])}", where(f))
    ok = T.equal(s1[3] + dv[0], Z) and T.equal(s1[4] + dv[1], Z)
    chk.obl("R16.4", f"{f.ref}::arrival", ok, "the second impulse leaves it at rest relative to the target" if ok else "not at rest", where(f))
    t_ = unparse(f.node)
    ok = "ImpulsiveMan(date, dv), ImpulsiveMan(date + self.period / 2, dv)" in t_.replace("(ImpulsiveMan(date, dv), ImpulsiveMan(date + self.period / 2, dv))", "ImpulsiveMan(date, dv), ImpulsiveMan(date + self.period / 2, dv)")
    chk.inst("R16.4", f"{f.ref}::timing", ok, "impulses half a period apart" if ok else "changed", where(f))
    # tangential boost: +dv, one period, −dv
    f, dv = dv_of("tangential_boost")
    P2, _ = at(2 * pi)
    s2 = T.matmul(P2, [Z, Z, Z] + dv)
    ok = T.equal(s2[1], d) and T.equal(s2[0], Z)
    chk.obl("R16.4", f"{f.ref}::along-track", ok, "after one period the chaser has moved along-track by exactly `tangential`" if ok else f"y(2π) = {T.fmt(s2[1])}", where(f))
    ok = T.equal(s2[3] - dv[0], Z) and T.equal(s2[4] - dv[1], Z)
    chk.obl("R16.4", f"{f.ref}::arrival", ok, "the opposite impulse after one period leaves it at rest" if ok else "not at rest", where(f))
    ok = "ImpulsiveMan(date, dv), ImpulsiveMan(date + self.period, -dv)" in unparse(f.node)
    chk.inst("R16.4", f"{f.ref}::timing", ok, "+dv, one period, −dv" if ok else "changed", where(f))
    # V-bar linear approach: constant along-track speed under radial thrust −2 n dv
    f = cls.methods["vbar_linear"]
    v = Poly.atom("dv")
    ex = Extract(env=dict(env, dv=v))
    acc = dv1 = None
    for s_ in body_without_doc(f.node):
        if isinstance(s_, ast.Assign) and unparse(s_.targets[0]) == "accel":
            acc = ex.ev(s_.value)
        elif isinstance(s_, ast.Assign) and unparse(s_.targets[0]) == "dv1":
            dv1 = ex.ev(s_.value)
    if acc is None or dv1 is None:
        raise AnalysisError(f"{f.ref}: accel / dv1 not found")
    y0 = Poly.atom("y0")
    st = [a + b for a, b in zip(T.matmul(Phi, [Z, y0, Z] + dv1), T.matmul(Psi, acc))]
    tt = Poly.atom(t_atom)
    ok = T.equal(st[0], Z) and T.equal(st[1], y0 + v * tt) and T.equal(st[3], Z) and T.equal(st[4], v)
    chk.obl("R16.4", f"{f.ref}::straight-line", ok, "under the thrust the chaser stays on the V-bar and advances at exactly dv: y(t) = y0 + dv·t for all t" if ok else
            f"x(t) = {T.fmt(st[0])}, y(t) = {T.fmt(st[1])}", where(f))
    t_ = unparse(f.node)
    ok = "duration = timedelta(seconds=abs(tangential / dv))" in t_ and "dv = np.sign(tangential) * dv" in t_ \
        and "(ImpulsiveMan(date, dv1), ContinuousMan(date, duration, accel=accel), ImpulsiveMan(date + duration, -dv1))" in t_
    chk.inst("R16.4", f"{f.ref}::sequence", ok, "start impulse, thrust for |tangential/dv|, opposite stop impulse (at rest at arrival)" if ok else "changed", where(f))
    chk.floor("R16.4", 16)


def r16_5(chk):
    """An impulse changes the velocity exactly once: the `+=` lands on a state built in this call (never on the propagator's
    stored orbit), and what propagate() returns shares nothing with the stored orbit (so a second call starts from the same
    initial state)."""
    from ..ownership import Fresh, stores_through
    repo = chk.repo
    for q in ("ClohessyWiltshire.propagate", "ClohessyWiltshire._propagate"):
        f = repo.func(CW, q)
        fr = Fresh(f, repo)
        for text, root, node in stores_through(f, fr.flow):
            if isinstance(root, ast.Name) and root.id == "self":
                continue
            vals = fr.classify(root)
            aliased = [v for v in vals if v != "fresh" and (v[0] == "alias" or (v[0] == "view" and text.endswith("]"))) and v[1] != "self"]
            chk.inst("R16.5", f"{f.ref}::{text}", not aliased, "store on a state built in this call" if not aliased else
                     f"`{text}` writes through {aliased}: the maneuver's delta-v is added to the propagator's stored initial orbit, "
                     f"so it is applied again at every later call", loc(f, node))
    f = repo.func(CW, "ClohessyWiltshire.propagate")
    fr = Fresh(f, repo)
    bad = set()
    for r in [n for n in ast.walk(f.node) if isinstance(n, ast.Return) and n.value is not None]:
        bad |= {v for v in fr.classify(r.value) if v != "fresh"}
    chk.inst("R16.5", f"{f.ref}::fresh-result", not bad, "every returned state is built in the call" if not bad else f"result {sorted(bad)}", loc(f, f.node))
    s_ = repo.func(CW, "ClohessyWiltshire.orbit", setter=True)
    ok = "self._orbit = orb.copy(form='cartesian')".replace("orb", s_.params()[1]) in unparse(s_.node)
    chk.inst("R16.5", f"{s_.ref}::snapshot", ok, "the propagator keeps its own cartesian copy of the initial state" if ok else "changed", loc(s_, s_.node))
    chk.floor("R16.5", 4)


def run(chk):
    chk.rule("R16.1", "closed-form CW matrices satisfy Hill's ODE and initial values entry by entry (term algebra)")
    chk.rule("R16.2", "QSW<->TNW is the fixed signed permutation; TNW arm is a similarity transform")
    chk.rule("R16.3", "maneuver sequencing and two-sided applicability window in propagate()")
    chk.guard(r16_1, chk)
    chk.guard(r16_2, chk)
    chk.guard(r16_3, chk)
    chk.rule("R16.4", "CWHelper maneuvers realise their announced distances under the matrices of cw.py (term algebra)")
    chk.guard(r16_4, chk)
    chk.rule("R16.5", "impulses are added to states built in the call; results share nothing with the stored initial orbit")
    chk.guard(r16_5, chk)
    chk.assume("Hill's equations: x''=3n²x+2ny'+ax, y''=-2nx'+ay, z''=-n²z+az with x radial, y along-track, z cross-track")
