"""C10 — event detection is sound, complete w.r.t. sampling, ordered and sharp (protocol clauses).

R10.1 clean start: every iter() of a Speaker clears the listeners on all paths before the first listen()
R10.2 listen protocol: per listener check(orb) precedes `listener.prev = orb`, which is unconditional; _bisect gets
      (listener.prev, orb, listener); orb.event reset first; events sorted by date; in both iter()s events precede the sample
R10.3 bisection: continues while |step| >= eps; halves; moves `begin` on equal sign else `end`; labels and returns `end`
R10.4 every override of check() returns False or `… and super().check(orb)` (conjoins, never replaces, the sign test)
R10.5 per-listener table: info() returns (a subclass of) the class attribute `event`; label/watch agreement where it has that shape
R10.6 the caller's arguments are not mutated (visibility must not grow the caller's listener list)
"""
import ast

from ..flow import reaching
from ..model import AnalysisError, body_without_doc, call_name, cmp_triples, loc, unparse, walk_no_nested
from ..ownership import MUTATORS
from .common import abs_compare

LIS = "beyond/propagators/listeners.py"
BASE = "beyond/propagators/base.py"
EPH = "beyond/orbits/ephem.py"
STA = "beyond/frames/stations.py"


def _meth(repo, k, name):
    """The implementation `k` instances use: own or inherited (a listener that drops its override gets its parent's)."""
    f = repo.lookup_method(k, name)
    if f is None:
        from ..model import AnalysisError
        raise AnalysisError(f"{k.ref} has no method {name}")
    return f


def _order_index(fnode, pred):
    for i, n in enumerate(ast.walk(fnode)):
        pass
    return None


def r10_1(chk):
    repo = chk.repo
    for rel, q in ((BASE, "AnalyticalPropagator.iter"), (EPH, "Ephem.iter")):
        f = repo.func(rel, q)
        body = body_without_doc(f.node)
        idx_clear = [i for i, s in enumerate(body) if isinstance(s, ast.Expr) and unparse(s.value) == "self.clear_listeners(listeners)"]
        idx_listen = [i for i, s in enumerate(body) if any(isinstance(n, ast.Call) and unparse(n.func) == "self.listen" for n in ast.walk(s))]
        ok = len(idx_clear) == 1 and idx_listen and idx_clear[0] < min(idx_listen)
        chk.inst("R10.1", f"{f.ref}::clear-before-listen", ok, "listeners are cleared unconditionally (top level of the generator) before any listen()" if ok else
                 "clear_listeners no longer dominates the first listen(): state left by an earlier iteration produces a spurious event between unrelated samples", loc(f, f.node))
        src = [s for s in body if isinstance(s, ast.Assign) and unparse(s.targets[0]) == "listeners"]
        ok = len(src) == 1 and unparse(src[0].value) in ("kwargs.pop('listeners', [])", "kwargs.get('listeners', [])")
        chk.inst("R10.1", f"{f.ref}::same-list", ok, "the list that is cleared is the list that is listened with" if ok else "changed", loc(f, f.node))
    cl = repo.func(LIS, "Speaker.clear_listeners")
    t = unparse(cl.node).replace(" ", "")
    p = cl.params()[1]
    ok = f"forlistenerin{p}:\nlistener.clear()".replace(" ", "") in t.replace("    ", "") and f"ifisinstance({p},Listener):\n{p}=[{p}]".replace(" ", "") in t.replace("    ", "")
    chk.inst("R10.1", f"{cl.ref}", ok, "every listener (or the single one) is cleared" if ok else "changed", loc(cl, cl.node))
    c = repo.func(LIS, "Listener.clear")
    ok = [unparse(s).replace(" ", "") for s in body_without_doc(c.node)] == ["self.prev=None"]
    chk.inst("R10.1", f"{c.ref}", ok, "clear() forgets the previous sample" if ok else "changed", loc(c, c.node))
    for k in repo.subclasses(repo.cls(LIS, "Listener"), strict=True):
        if "clear" in k.methods:
            t = unparse(k.methods["clear"].node)
            ok = "super().clear()" in t or "self.prev = None" in t
            chk.inst("R10.1", f"{k.ref}.clear", ok, "override still forgets the previous sample" if ok else "override of clear() keeps prev", loc(k.methods["clear"], k.methods["clear"].node))
    chk.floor("R10.1", 6)


def r10_2(chk):
    repo = chk.repo
    f = repo.func(LIS, "Speaker.listen")
    orb, lst = f.params()[1], f.params()[2]
    body = body_without_doc(f.node)
    loops = [s for s in body if isinstance(s, ast.For)]
    if len(loops) != 1:
        raise AnalysisError(f"{f.ref}: listener loop not found")
    lp = loops[0]
    L = unparse(lp.target)
    b = lp.body
    ok = len(b) == 2 and isinstance(b[0], ast.If) and unparse(b[0].test) == f"{L}.check({orb})" and not b[0].orelse \
        and [unparse(s).replace(" ", "") for s in b[0].body] == [f"results.append(self._bisect({L}.prev,{orb},{L}))"] \
        and unparse(b[1]).replace(" ", "") == f"{L}.prev={orb}"
    chk.inst("R10.2", f"{f.ref}::check-then-remember", ok,
             "check(orb) is evaluated against the previous sample, a hit is bisected between (prev, orb), then prev ← orb unconditionally" if ok else
             f"{[unparse(s) for s in b]}", loc(f, lp))
    reset = [i for i, s in enumerate(body) if unparse(s).replace(" ", "") == f"{orb}.event=None"]
    ok = len(reset) == 1 and reset[0] < body.index(lp)
    chk.inst("R10.2", f"{f.ref}::event-reset", ok, "the sample's event label is reset before listening" if ok else "changed", loc(f, f.node))
    rets = [s for s in body if isinstance(s, ast.Return)]
    ok = len(rets) == 1 and unparse(rets[0].value).replace(" ", "") == "sorted(results,key=lambdax:x.date)"
    chk.inst("R10.2", f"{f.ref}::sorted-by-date", ok, "events of one interval are returned in chronological order" if ok else f"returns {unparse(rets[0].value) if rets else '?'}", loc(f, f.node))
    # events precede the sample in both iter()s
    for rel, q in ((BASE, "AnalyticalPropagator.iter"), (EPH, "Ephem.iter")):
        g = repo.func(rel, q)
        n_ok = n = 0
        for loop in [x for x in ast.walk(g.node) if isinstance(x, (ast.For, ast.While))]:
            ys = [i for i, s in enumerate(loop.body) if isinstance(s, ast.Expr) and isinstance(s.value, ast.Yield) and unparse(s.value.value) in ("orb", "orb.copy()")]
            ls = [i for i, s in enumerate(loop.body) if isinstance(s, ast.For) and "self.listen(orb, listeners)" in unparse(s.iter)]
            if ys and ls:
                n += 1
                n_ok += max(ls) < min(ys)
            elif ys and not ls and isinstance(loop, (ast.For, ast.While)) and "listen" not in unparse(loop) and loop is not None:
                if any("self.propagate" in unparse(s) or "in self" in unparse(loop) for s in loop.body):
                    n += 1       # a sampling loop without listeners
        ok = n > 0 and n_ok == n
        chk.inst("R10.2", f"{g.ref}::events-before-sample", ok, f"in all {n} sampling loops the events of (prev, orb] are yielded before orb" if ok else
                 f"{n_ok} of {n} sampling loops yield the events before the sample", loc(g, g.node))
    chk.floor("R10.2", 5)


def r10_3(chk):
    f = chk.repo.func(LIS, "Speaker._bisect")
    begin, end, lst = f.params()[1:4]
    body = body_without_doc(f.node)
    loops = [s for s in body if isinstance(s, ast.While)]
    if len(loops) != 1:
        raise AnalysisError(f"{f.ref}: loop not found")
    w = loops[0]
    ac = abs_compare(w.test)
    ok = ac is not None and ac[1] in (">=", ">") and unparse(ac[2]) == "self._eps_bisect" and unparse(ac[0].args[0]) == "step"
    chk.inst("R10.3", f"{f.ref}::polarity", ok, "refines while the half-interval is not below the resolution" if ok else f"`while {unparse(w.test)}`", loc(f, w))
    half = f"step=({end}.date-{begin}.date)/2"
    b = [unparse(s).replace(" ", "") for s in w.body]
    ok = any(unparse(s).replace(" ", "") == half for s in body) and b[-1] == half and b[0] == f"date={begin}.date+step" and b[1] == "orb=self.propagate(date)"
    chk.inst("R10.3", f"{f.ref}::halving", ok, "midpoint of [begin, end] is propagated; the interval is halved each turn" if ok else f"{b}", loc(f, w))
    ifs = [s for s in w.body if isinstance(s, ast.If)]
    ok = len(ifs) == 1 and unparse(ifs[0].test).replace(" ", "") == f"{lst}({begin})*{lst}(orb)>0" \
        and [unparse(s).replace(" ", "") for s in ifs[0].body] == [f"{begin}=orb"] and [unparse(s).replace(" ", "") for s in ifs[0].orelse] == [f"{end}=orb"]
    chk.inst("R10.3", f"{f.ref}::side-selection", ok, "same sign as begin → move begin, else move end (the crossing stays inside)" if ok else "changed", loc(f, w))
    ok = [unparse(s).replace(" ", "") for s in w.orelse] == [f"{end}.event={lst}.info({end})", f"return{end}"]
    chk.inst("R10.3", f"{f.ref}::labels-and-returns-end", ok, "the state just after the crossing is labelled and returned" if ok else "changed", loc(f, w))
    sp = chk.repo.cls(LIS, "Speaker")
    ok = unparse(sp.attrs.get("_eps_bisect")) == "timedelta.resolution" if sp.attrs.get("_eps_bisect") is not None else False
    chk.inst("R10.3", f"{LIS}::Speaker._eps_bisect", ok, "resolution = 1 µs" if ok else "changed", LIS)
    bc = chk.repo.func(LIS, "Listener.check")
    rets = [s for s in body_without_doc(bc.node) if isinstance(s, ast.Return)]
    o = bc.params()[1]
    ok = len(rets) == 1 and unparse(rets[0].value).replace(" ", "") == f"self.previsnotNoneandnp.sign(self({o}))!=np.sign(self(self.prev))"
    chk.inst("R10.3", f"{bc.ref}::sign-test", ok, "an event iff there is a previous sample and the watched quantity changes sign" if ok else "changed", loc(bc, bc.node))
    chk.floor("R10.3", 6)


def r10_4(chk):
    repo = chk.repo
    base = repo.cls(LIS, "Listener")
    n = 0
    for k in repo.subclasses(base, strict=True):
        f = k.methods.get("check")
        if f is None:
            continue
        n += 1
        o = f.params()[1]
        rets = [s for s in ast.walk(f.node) if isinstance(s, ast.Return)]
        ok = bool(rets)
        for r in rets:
            v = r.value
            if isinstance(v, ast.Constant) and v.value is False:
                continue
            t = unparse(v).replace(" ", "")
            if t == f"super().check({o})" or t.endswith(f"andsuper().check({o})"):
                continue
            ok = False
        chk.inst("R10.4", f"{f.ref}::conjoins", ok, "returns False or `… and super().check(orb)`" if ok else
                 f"an override of check() returns {[unparse(r.value) for r in rets]}: the sign-change test of the base class is bypassed", loc(f, f.node))
    chk.floor("R10.4", 4)


# A5: label/watch agreement where it has that shape (others are tabled exceptions with reasons)
WATCH_LABEL = {
    "NodeListener": ("phi", "phi_dot"),
    "StationSignalListener": ("phi", "phi_dot"),
}
PREV_LABEL = ("ApsideListener", "StationMaskListener")
LABEL_EXCEPTIONS = {
    "LightListener": "labels by the sign of its own ±1 function",
    "TerminatorListener": "labels by r_dot in the Sun frame",
    "AnomalyListener": "labels by the value of the anomaly",
    "StationMaxListener": "constant label",
    "RadialVelocityListener": "constant label",
}


def r10_5(chk):
    repo = chk.repo
    base = repo.cls(LIS, "Listener")
    ev_base = repo.cls(LIS, "Event")
    seen = 0
    for k in repo.subclasses(base, strict=True):
        seen += 1
        evn = repo.lookup_attr(k, "event")
        ok = evn is not None
        evname = unparse(evn[1]) if ok else None
        evcls = repo.module(LIS).classes.get(evname) if ok else None
        ok = evcls is not None and repo.is_subclass(evcls, ev_base)
        chk.inst("R10.5", f"{k.ref}::event-class", ok, f"event = {evname}" if ok else "no Event subclass as `event`", loc(k.module, k.node))
        info = repo.lookup_method(k, "info")
        rets = [s for s in ast.walk(info.node) if isinstance(s, ast.Return)] if info else []
        good = bool(rets)
        for r in rets:
            c = r.value
            cn = unparse(c.func) if isinstance(c, ast.Call) else None
            if cn == "self.event":
                continue
            cc = repo.module(LIS).classes.get(cn)
            if cc is None or evcls is None or not repo.is_subclass(cc, evcls):
                good = False
        chk.inst("R10.5", f"{k.ref}::info-returns-event", good, "info() returns the listener's own event class (what visibility() filters on)" if good else
                 f"info() returns {[unparse(r.value.func) if isinstance(r.value, ast.Call) else unparse(r.value) for r in rets]}, not {evname}", loc(info, info.node) if info else "")
        if k.name in WATCH_LABEL:
            watch, label = WATCH_LABEL[k.name]
            call = _meth(repo, k, "__call__")
            inf = _meth(repo, k, "info")

            def copy_args(f):
                for n in ast.walk(f.node):
                    if isinstance(n, ast.Call) and call_name(n) == "copy":
                        return sorted((kw.arg, unparse(kw.value)) for kw in n.keywords)
                return None
            ok = copy_args(call) == copy_args(inf) and f".{watch}" in unparse(call.node) and f".{label} " in unparse(inf.node) + " "
            chk.inst("R10.5", f"{k.ref}::watch-label", ok, f"watches {watch}, labels by {label}, both in the same frame and form" if ok else
                     f"__call__ converts with {copy_args(call)}, info with {copy_args(inf)}", loc(inf, inf.node))
        elif k.name in PREV_LABEL:
            inf = _meth(repo, k, "info")
            ok = "self(orb) > self(self.prev)" in unparse(inf.node)
            chk.inst("R10.5", f"{k.ref}::watch-label", ok, "labels by the trend of its own watched quantity between prev and the event" if ok else "changed", loc(inf, inf.node))
        else:
            ok = k.name in LABEL_EXCEPTIONS
            chk.inst("R10.5", f"{k.ref}::watch-label", ok, f"tabled: {LABEL_EXCEPTIONS.get(k.name)}" if ok else "listener not in table A5 (read it, then table it)", loc(k.module, k.node), nontrivial=False)
    # labels of the direction-sensitive listeners
    labels = {"NodeListener": "'Desc Node' if orb.phi_dot < 0 else 'Asc Node'", "StationSignalListener": "'AOS' if orb.phi_dot > 0 else 'LOS'",
              "ApsideListener": "'Periapsis' if self(orb) > self(self.prev) else 'Apoapsis'", "StationMaskListener": "'AOS' if self(orb) > self(self.prev) else 'LOS'",
              "TerminatorListener": None}
    for name, expr in labels.items():
        if expr is None:
            continue
        k = repo.cls(LIS, name)
        ok = expr in unparse(_meth(repo, k, "info").node)
        chk.inst("R10.5", f"{k.ref}::label-direction", ok, expr if ok else "label expression changed (direction of the crossing)", loc(_meth(repo, k, "info"), _meth(repo, k, "info").node))
    # watched quantities
    watched = {"NodeListener": "return orb.phi", "ApsideListener": "return orb.r_dot", "StationSignalListener": "return orb.phi - self.elev",
               "StationMaskListener": "return orb.phi - self.station.get_mask(orb.theta)", "StationMaxListener": "return orb.phi_dot",
               "RadialVelocityListener": "return orb.copy(frame=self.frame, form='spherical').r_dot", "AnomalyListener": "return self._diff(orb)"}
    for name, expr in watched.items():
        k = repo.cls(LIS, name)
        ok = expr in unparse(_meth(repo, k, "__call__").node)
        chk.inst("R10.5", f"{k.ref}::watched-quantity", ok, expr if ok else "watched quantity changed", loc(_meth(repo, k, "__call__"), _meth(repo, k, "__call__").node))
    an = repo.cls(LIS, "AnomalyListener")
    ok = "return (self._convert(orb) - self.value + np.pi) % (2 * np.pi) - np.pi" in unparse(_meth(repo, an, "_diff").node)
    chk.inst("R10.5", f"{an.ref}._diff", ok, "difference wrapped to [−π, π)" if ok else "changed", loc(_meth(repo, an, "_diff"), _meth(repo, an, "_diff").node))
    chk.floor("R10.5", 9 * 3 + 4 + 7)
    if seen < 9:
        raise AnalysisError(f"only {seen} listener classes found (9 confirmed by reading)")


def r10_6(chk):
    repo = chk.repo
    f = repo.func(STA, "TopocentricFrame.visibility")
    flow = reaching(f.node)
    # origin of every list that is mutated in place
    n = 0
    for node in ast.walk(f.node):
        if isinstance(node, ast.Call) and isinstance(node.func, ast.Attribute) and node.func.attr in MUTATORS and isinstance(node.func.value, ast.Name):
            name = node.func.value
            if name.id == "kwargs":
                continue
            n += 1
            defs = flow.defs_of(name)
            shared = []
            for d in defs:
                if d[0] == "param":
                    shared.append(f"parameter {d[1]}")
                elif d[0] == "assign":
                    v = d[1]
                    t = unparse(v)
                    if isinstance(v, ast.Call) and isinstance(v.func, ast.Attribute) and unparse(v.func.value) == "kwargs" and v.func.attr in ("setdefault", "get", "pop"):
                        shared.append(f"the caller's `{unparse(v.args[0])}` keyword argument ({t})")
                    elif isinstance(v, ast.Subscript) and unparse(v.value) == "kwargs":
                        shared.append(f"the caller's keyword argument {t}")
            ok = not shared
            chk.inst("R10.6", f"{f.ref}::{unparse(node.func)}", ok, "mutates a list built in this call" if ok else
                     f"`{unparse(node)[:60]}` mutates {shared[0]}: each re-use of the same list by the caller adds the station listeners again (events doubled)", loc(f, node))
    # filter: below-horizon points are dropped unless they carry one of the station's own events
    t = unparse(f.node)
    ok = "if point.phi < 0 and (not isinstance(point.event, event_classes)):\n                continue" in t or "if point.phi < 0 and (not isinstance(point.event, event_classes)):" in t
    chk.inst("R10.6", f"{f.ref}::filter", ok, "above-horizon samples plus the station's AOS/LOS/MAX events" if ok else "filter changed", loc(f, f.node))
    ok = "event_classes = tuple((listener.event for listener in sta_list))" in t and "sta_list = stations_listeners(self)" in t
    chk.inst("R10.6", f"{f.ref}::event-classes", ok, "the filter lets through exactly the event classes of the station's own listeners" if ok else "changed", loc(f, f.node))
    conv = "point = point.copy(frame=self, form='spherical')"
    ok = conv in t and t.index(conv) < t.index("point.phi < 0")
    chk.inst("R10.6", f"{f.ref}::topocentric-spherical", ok, "each point is expressed in the station frame, spherical, before the elevation test" if ok else "changed", loc(f, f.node))
    sl = repo.func(LIS, "stations_listeners")
    t = unparse(sl.node)
    ok = "listeners.append(StationSignalListener(sta))" in t and "listeners.append(StationMaxListener(sta))" in t and "if sta.mask is not None:\n            listeners.append(StationMaskListener(sta))" in t
    chk.inst("R10.6", f"{sl.ref}", ok, "signal (AOS/LOS), max and — with a mask — mask listeners per station" if ok else "changed", loc(sl, sl.node))
    chk.floor("R10.6", 6)


def r10_7(chk):
    """Shadow and terminator geometry: every named intermediate of LightListener.__call__ / TerminatorListener.__call__
    equals its conical-shadow expression (term algebra: algebraic rearrangements are accepted, changed formulas are not),
    and the branch structure is the documented one."""
    from .. import terms as T
    from ..terms import Extract, Poly, Unsupported
    repo = chk.repo
    f = repo.cls(LIS, "LightListener").methods["__call__"]
    Rs, Rb, ds, dsat = Poly.atom("sun.r"), Poly.atom("orb.frame.center.body.r"), Poly.atom("norm_x_sun"), Poly.atom("norm_x_sat")
    zeta, au, ap, sh, sv = Poly.atom("zeta"), Poly.atom("alpha_umb"), Poly.atom("alpha_pen"), Poly.atom("sat_horiz"), Poly.atom("sat_vert")
    want = {
        "alpha_umb": T.func("arcsin", (Rs - Rb) / ds),
        "alpha_pen": T.func("arcsin", (Rs - Rb) / ds),
        "sat_horiz": dsat * T.trig("cos", zeta),
        "sat_vert": dsat * T.trig("sin", zeta),
        "x": Rb / T.trig("sin", ap),
        "pen_vert": T.func("tan", ap) * (Poly.atom("x") + sh),
        "y": Rb / T.trig("sin", au),
        "umb_vert": T.func("tan", au) * (Poly.atom("y") - sh),
    }
    found = {}
    for n in ast.walk(f.node):
        if isinstance(n, ast.Assign) and isinstance(n.targets[0], ast.Name) and n.targets[0].id in want:
            found[n.targets[0].id] = n
    for name, w in want.items():
        n = found.get(name)
        if n is None:
            chk.inst("R10.7", f"{f.ref}::{name}", False, "intermediate not found", loc(f, f.node))
            continue
        try:
            got = Extract().ev(n.value)
            ok = T.equal(got, w)
            msg = "conical-shadow geometry" if ok else f"{name} = {T.fmt(got)}, expected {T.fmt(w)}"
        except Unsupported as e:
            ok, msg = False, f"not extractable: {e}"
        chk.obl("R10.7", f"{f.ref}::{name}", ok, msg, loc(f, n))
    t = unparse(f.node)
    frags = [("anti-sun-side", "if x_sun @ x_sat < 0:", "shadow only on the anti-Sun side (r_sun · r_sat < 0)"),
             ("zeta", "zeta = np.arccos(-x_sun @ x_sat / (norm_x_sun * norm_x_sat))", "angle from the anti-Sun axis"),
             ("inside-penumbra", "if sat_vert <= pen_vert:", "inside the penumbra cone"),
             ("inside-umbra", "if sat_vert <= umb_vert:", "inside the umbra cone"),
             ("penumbra-type", "if self.type == self.PENUMBRA:", "penumbra listener reports the penumbra cone, umbra listener the umbra cone"),
             ("same-frame", "orb = orb.copy(form='cartesian', frame=sun_orb.frame)", "satellite and Sun compared in one frame"),
             ("sun-at-date", "sun_orb = sun.propagate(orb.date).copy(frame=self.frame)", "Sun taken at the sample's date"),
             ("lit-default", "return 1", "lit unless inside a cone")]
    for key, frag, what in frags:
        ok = frag in t
        chk.inst("R10.7", f"{f.ref}::{key}", ok, what if ok else f"`{frag}` not found", loc(f, f.node))
    ok = t.count("return -1") == 2
    chk.inst("R10.7", f"{f.ref}::shadow-values", ok, "−1 inside the selected cone", loc(f, f.node), nontrivial=False)
    info = repo.cls(LIS, "LightListener").methods["info"]
    ti = unparse(info.node)
    ok = "'Umbra entry' if self(orb) <= 0 else 'Umbra exit'" in ti and "'Penumbra entry' if self(orb) <= 0 else 'Penumbra exit'" in ti
    chk.inst("R10.7", f"{info.ref}::labels", ok, "entry when the state just after the crossing is in shadow" if ok else "labels changed", loc(info, info.node))
    # Terminator
    g = repo.cls(LIS, "TerminatorListener").methods["__call__"]
    tg = unparse(g.node)
    ok = "sun_pos = self.sun.propagate(orb.date).copy(frame=orb.frame, form='cartesian')[:3]" in tg and "sat_pos = orb.copy(form='cartesian')[:3]" in tg \
        and "return sat_pos @ sun_pos / (sun_norm * sat_norm)" in tg
    chk.inst("R10.7", f"{g.ref}", ok, "cosine of the Sun–satellite angle: zero at the terminator" if ok else "changed", loc(g, g.node))
    gi = repo.cls(LIS, "TerminatorListener").methods["info"]
    ok = "if orb2.r_dot > 0:\n        msg = 'Night Terminator'\n    else:\n        msg = 'Day Terminator'" in unparse(gi.node)
    chk.inst("R10.7", f"{gi.ref}", ok, "moving away from the Sun → night terminator" if ok else "changed", loc(gi, gi.node))
    an = repo.cls(LIS, "AnomalyListener")
    ok = "return abs(self._diff(orb)) < 2 and super().check(orb)" in unparse(an.methods["check"].node)
    chk.inst("R10.7", f"{an.ref}.check", ok, "the wrap discontinuity at ±π is not an event (|diff| < 2)" if ok else "changed", loc(an.methods["check"], an.methods["check"].node))
    tab = an.attrs.get("ANOMALIES")
    ok = tab is not None and unparse(tab).replace(" ", "") == "{'true':('keplerian','ν'),'mean':('keplerian_mean','M'),'eccentric':('keplerian_eccentric','E'),'aol':('keplerian_circular','u')}"
    chk.inst("R10.7", f"{an.ref}.ANOMALIES", ok, "anomaly → (form, element)" if ok else "table changed", loc(an.module, an.node))
    chk.floor("R10.7", 22)



def r10_8(chk):
    """The sample a listener keeps as `prev` is never changed behind its back: `Speaker.listen` stores the yielded object
    itself (`listener.prev = orb`), so a consumer of `iter()` inside the package must not write to the points it receives.
    (`TopocentricFrame.visibility` set `point.frame` / `point.form` in place: a listener without an explicit frame then compared
    its next sample with a previous one expressed in the station frame -- 27 spurious periapsis events in 24 h.)"""
    from ..ownership import stores_through
    repo = chk.repo
    n = 0
    for f in repo.all_funcs():
        loops = [l for l in ast.walk(f.node) if isinstance(l, ast.For) and isinstance(l.iter, ast.Call) and isinstance(l.iter.func, ast.Attribute)
                 and l.iter.func.attr in ("iter", "_iter") and isinstance(l.target, ast.Name)]
        for l in loops:
            n += 1
            var = l.target.id
            bad = []
            rebound = False
            for st in l.body:
                for sub in ast.walk(st):
                    if isinstance(sub, ast.Assign) and any(isinstance(t, ast.Name) and t.id == var for t in sub.targets):
                        rebound = True          # `point = point.copy(...)`: what follows works on another object
                    if rebound:
                        continue
                    tg = []
                    if isinstance(sub, ast.Assign):
                        tg = [t for t in sub.targets if isinstance(t, (ast.Attribute, ast.Subscript))]
                    elif isinstance(sub, ast.AugAssign) and isinstance(sub.target, (ast.Attribute, ast.Subscript)):
                        tg = [sub.target]
                    for t in tg:
                        root = t
                        while isinstance(root, (ast.Attribute, ast.Subscript)):
                            root = root.value
                        if isinstance(root, ast.Name) and root.id == var:
                            bad.append(unparse(t))
            ok = not bad
            chk.inst("R10.8", f"{f.ref}::for {var} in {unparse(l.iter.func)}", ok, "the yielded samples are read, or converted on a copy" if ok else
                     f"writes {bad} on the yielded sample, which the listeners keep as their previous sample", loc(f, l))
    chk.floor("R10.8", 3)


def run(chk):
    chk.rule("R10.1", "listeners cleared before the first listen of every iteration")
    chk.rule("R10.2", "listen(): check, bisect(prev, orb), remember; events sorted and yielded before the sample")
    chk.rule("R10.3", "bisection keeps the crossing inside and stops below the resolution")
    chk.rule("R10.4", "check() overrides conjoin the base sign test")
    chk.rule("R10.5", "listener table: event classes, labels, watched quantities")
    chk.rule("R10.6", "caller's arguments not mutated; visibility filter")
    chk.guard(r10_1, chk)
    chk.guard(r10_2, chk)
    chk.guard(r10_3, chk)
    chk.guard(r10_4, chk)
    chk.guard(r10_5, chk)
    chk.guard(r10_6, chk)
    chk.rule("R10.7", "shadow / terminator / anomaly geometry: named intermediates equal their expressions; branch structure")
    chk.guard(r10_7, chk)
    chk.rule("R10.8", "consumers of iter() inside the package do not write to the yielded samples (the listeners keep them as `prev`)")
    chk.guard(r10_8, chk)
    chk.assume("watched quantities are continuous between samples (detection is complete w.r.t. sampling only)")
