"""C07 — SGP4 propagation equals the reference theory (wiring clauses only; coefficients frozen).

R07.1 wrapper: the reference library is initialised with (line1, line2, wgs72) of the TLE regenerated from the orbit; the
      date handed over is the UTC reading; all six components × 1000; result cartesian, dated at the argument date
R07.2 native model: MODEL = WGS72; constants equal the published WGS-72 set by value; minutes / km conversions; the
      Kepler iteration is Newton on its own equation with the right exit polarity; elapsed time from the instants
R07.3 native model: the numeric literals of the initialisation and of the secular/periodic terms equal the frozen reference
"""
import ast
from fractions import Fraction

from .. import terms as T
from ..consts import NotConstant, fold
from ..frozen import compare, compare_formulas
from ..model import AnalysisError, body_without_doc, const_value, loc, unparse
from ..terms import Extract, Poly
from .common import Origins, abs_compare, date_reads_in

SGP4 = "beyond/propagators/sgp4.py"
BETA = "beyond/propagators/sgp4beta.py"

# published constants (Hoots & Roehrich, Spacetrack Report #3 / Vallado 2006)
WGS72 = {"µ_e": 398600.8, "r_e": 6378.135, "j2": 0.001082616, "j3": -0.00000253881, "j4": -0.00000165597}


def r07_1(chk):
    repo = chk.repo
    m = repo.module(SGP4)
    imports = [unparse(s) for s in m.tree.body if isinstance(s, ast.ImportFrom)]
    ok = "from sgp4.earth_gravity import wgs72" in imports and "from sgp4.io import twoline2rv" in imports
    chk.inst("R07.1", f"{SGP4}::imports", ok, "reference implementation and its WGS-72 constants" if ok else f"{imports}", SGP4)
    s = repo.func(SGP4, "Sgp4.orbit", setter=True)
    t = unparse(s.node)
    o = s.params()[1]
    ok = f"tle = Tle.from_orbit({o})" in t and "lines = tle.text.splitlines()" in t and "self.tle = twoline2rv(line1, line2, wgs72)" in t \
        and "if len(lines) == 3:\n        _, line1, line2 = lines\n    else:\n        line1, line2 = lines" in t
    chk.inst("R07.1", f"{s.ref}::initialisation", ok, "TLE text regenerated from the orbit, name line skipped, library record built with wgs72" if ok else "changed", loc(s, s.node))
    f = repo.func(SGP4, "Sgp4.propagate")
    d = f.params()[1]
    reads, flow = date_reads_in(repo, f)
    org = Origins(flow)
    ok = len(reads) == 1 and org.of(reads[0].receiver) == {("norm", "UTC")}
    chk.inst("R07.1", f"{f.ref}::utc-calendar", ok, "calendar fields of the UTC reading are handed to the library" if ok else "the date is formatted in its own scale", loc(f, f.node))
    t = unparse(f.node)
    ok = "%Y %m %d %H %M %S.%f" in t and ".split()]" in t and "float(x)" in t and "p, v = self.tle.propagate(*_date)" in t
    chk.inst("R07.1", f"{f.ref}::calendar-tuple", ok, "(year, month, day, hour, minute, second.fraction) as floats" if ok else "changed", loc(f, f.node))
    ok = "result = [x * 1000 for x in p + v]" in t
    chk.inst("R07.1", f"{f.ref}::km-to-m", ok, "all six components km → m" if ok else "changed", loc(f, f.node))
    ok = f"res_dict['date'] = {d}" in t and "res_dict['form'] = 'cartesian'" in t and "res_dict.pop('propagator')" in t and "return StateVector(result, **res_dict)" in t
    chk.inst("R07.1", f"{f.ref}::result", ok, "cartesian state dated at the requested date, frame of the orbit (TEME), metadata kept" if ok else "changed", loc(f, f.node))
    ok = f"if type({d}) is timedelta:\n        {d} = self.orbit.date + {d}" in t
    chk.inst("R07.1", f"{f.ref}::timedelta", ok, "a timedelta is relative to the epoch" if ok else "changed", loc(f, f.node))
    tl = repo.func("beyond/io/tle.py", "Tle.orbit")
    ok = "Orbit(self.to_list(), self.epoch, 'TLE', 'TEME', 'Sgp4', **data)" in unparse(tl.node)
    chk.inst("R07.1", f"{tl.ref}", ok, "TLE orbits are TLE-form, TEME, propagated by Sgp4" if ok else "changed", loc(tl, tl.node))
    chk.floor("R07.1", 8)


def r07_2(chk):
    repo = chk.repo
    c = repo.cls(BETA, "Sgp4Beta")
    ok = unparse(c.attrs.get("MODEL")) == "WGS72" if c.attrs.get("MODEL") is not None else False
    chk.inst("R07.2", f"{c.ref}.MODEL", ok, "native model uses WGS-72" if ok else "changed", loc(c.module, c.node))
    import unicodedata
    g = repo.cls(BETA, "WGS72")
    env = {}
    for name in ("µ_e", "r_e", "j2", "j3", "j4"):
        key = unicodedata.normalize("NFKC", name)
        node = g.attrs.get(key)
        try:
            val = float(fold(node)) if node is not None else None
        except NotConstant:
            val = None
        env[key] = fold(node) if val is not None else None
        ok = val is not None and abs(val - WGS72[name]) <= 1e-12 * abs(WGS72[name])
        chk.inst("R07.2", f"{g.ref}.{name}", ok, f"= {WGS72[name]} (published WGS-72)" if ok else f"= {val}", loc(g.module, g.node))
    ke = g.attrs.get("k_e")
    # k_e = 60 / sqrt(r_e³/µ_e), as formula or number
    want = 60.0 / ((WGS72["r_e"] ** 3 / WGS72["µ_e"]) ** 0.5)
    ok = False
    if ke is not None:
        if isinstance(ke, ast.Constant):
            ok = abs(ke.value - want) < 1e-9
        else:
            ex = Extract(env={unicodedata.normalize("NFKC", "µ_e"): Poly.atom("mu"), "r_e": Poly.atom("re")})
            try:
                v = ex.ev(ke)
                ok = T.equal(v * v * Poly.atom("re") ** 3, 3600 * Poly.atom("mu"))
            except T.Unsupported:
                ok = False
    chk.inst("R07.2", f"{g.ref}.k_e", ok, "k_e = 60/√(r_e³/µ_e) (per minute)" if ok else f"k_e = {unparse(ke) if ke is not None else None}", loc(g.module, g.node))
    f = repo.func(BETA, "Sgp4Beta.propagate")
    t = unparse(f.node)
    d = f.params()[1]
    ok = "n0 *= 60" in t and f"tdiff = ({d} - self.tle.date).total_seconds() / 60.0" in t and f"tdiff = {d}.total_seconds() / 60.0" in t
    chk.inst("R07.2", f"{f.ref}::minutes", ok, "mean motion per minute; elapsed minutes from the instants" if ok else "changed", loc(f, f.node))
    ok = "vector = np.concatenate((vR, vRdot)) * 1000" in t and "vR = rk * vU * r_e" in t and "vRdot = (rdotk * vU + rfdotk * vV) * (r_e * k_e / 60.0)" in t
    chk.inst("R07.2", f"{f.ref}::units", ok, "Earth radii → km → m; per-minute → per-second" if ok else "changed", loc(f, f.node))
    # Kepler iteration
    loops = [n for n in ast.walk(f.node) if isinstance(n, ast.For) and "range(10)" in unparse(n.iter)]
    ok = False
    what = "Kepler loop not found"
    if len(loops) == 1:
        lp = loops[0]
        E = Poly.atom("E")
        sub = {"Epω": E}
        nk = unicodedata.normalize("NFKC", "Epω")
        dn = unicodedata.normalize("NFKC", "delta_Epω")
        ex = Extract(env={nk: E, "U": Poly.atom("U"), "ayN": Poly.atom("ay"), "axN": Poly.atom("ax")})
        ex.run([s for s in lp.body if isinstance(s, ast.Assign)])
        delta = ex.env.get(dn)
        # f(E) = E + ay cos E − ax sin E − U ;  Newton: delta = −f/f′
        fE = E + Poly.atom("ay") * T.trig("cos", E) - Poly.atom("ax") * T.trig("sin", E) - Poly.atom("U")
        fp = T.deriv(fE, {"E": Poly.const(1)})
        newton = isinstance(delta, Poly) and T.equal(delta * fp + fE, Poly())
        ifs = [s for s in lp.body if isinstance(s, ast.If)]
        pol = len(ifs) == 1 and abs_compare(ifs[0].test) is not None and abs_compare(ifs[0].test)[1] in ("<", "<=") and isinstance(ifs[0].body[0], ast.Break)
        upd = unparse(lp.body[-1]).replace(" ", "") == f"{nk}={nk}+{dn}"
        ok = newton and pol and upd
        what = "Newton step on E + ay cos E − ax sin E = U, leaving below the tolerance" if ok else f"newton={newton}, polarity={pol}, update={upd}"
    chk.obl("R07.2", f"{f.ref}::kepler-iteration", ok, what, loc(f, loops[0]) if loops else loc(f, f.node))
    s = repo.func(BETA, "Sgp4Beta.orbit", setter=True)
    t = unparse(s.node)
    ok = "if orbit.form != TLE:\n        raise TypeError('Not TLE')".replace("orbit", s.params()[1]) in t and "self.gravity = self.MODEL" in t and "n0 *= 60" in t
    chk.inst("R07.2", f"{s.ref}::initialisation", ok, "TLE-form input required; model constants bound; mean motion per minute" if ok else "changed", loc(s, s.node))
    from ..ownership import shared_class_state
    shared_class_state(chk, "R07.2", only_modules={BETA})
    chk.floor("R07.2", 12)


def r07_3(chk):
    repo = chk.repo
    s = repo.func(BETA, "Sgp4Beta.orbit", setter=True)
    compare(chk, "R07.3", f"{BETA}::Sgp4Beta.orbit:setter", s.node, loc(s, s.node), "SGP4 initialisation, Spacetrack Report #3")
    f = repo.func(BETA, "Sgp4Beta.propagate")
    compare(chk, "R07.3", f"{BETA}::Sgp4Beta.propagate", f.node, loc(f, f.node), "SGP4 secular and periodic terms, Spacetrack Report #3")
    compare_formulas(chk, "R07.3", f"{BETA}::Sgp4Beta.orbit:setter", s.node, loc(s, s.node), "SGP4 initialisation")
    compare_formulas(chk, "R07.3", f"{BETA}::Sgp4Beta.propagate", f.node, loc(f, f.node), "SGP4 secular and periodic terms")
    for cls in ("WGS72Old", "WGS72", "WGS84"):
        c = repo.cls(BETA, cls)
        compare(chk, "R07.3", f"{BETA}::{cls}", c.node, loc(c.module, c.node), "gravity model constants")
    chk.floor("R07.3", 7)


def run(chk):
    chk.rule("R07.1", "wrapper wiring around the reference sgp4 library")
    chk.rule("R07.2", "native model: WGS-72 constants by value, unit conversions, Newton Kepler iteration")
    chk.rule("R07.3", "native model: numeric literals and the algebraic normal form of every formula equal the frozen reference")
    chk.guard(r07_1, chk)
    chk.guard(r07_2, chk)
    chk.guard(r07_3, chk)
    chk.assume("python-sgp4's twoline2rv/propagate is the reference implementation (Vallado); its API takes a UTC calendar tuple and returns km, km/s in TEME")
    chk.assume("R07.3 reference = literals of the pinned tree (test_sgp4beta agrees with the reference states to the suite's tolerance)")
