"""C05 — analytical Kepler and J2 propagation obey Kepler's laws (structural + symbolic clauses).

R05.1 write set: the setters snapshot the orbit in keplerian_mean form; Kepler.propagate writes only M and the
      date; J2's increment has literal zeros for (a, e, i) and the three rates in the order of the form
R05.2 rates (term algebra): ΔM = n·Δt; J2 secular rates equal the first-order formulas; no node drift on a
      polar orbit; no perigee drift at the critical inclination; rates contain no angle atom (additivity in Δt)
R05.3 the initial orbit is never written; result is a fresh cartesian copy; elapsed time from the instants
"""
import ast

from .. import terms as T
from ..model import AnalysisError, body_without_doc, loc, unparse
from ..terms import Extract, F, Poly
from .c01 import FormTable, nf

KEP = "beyond/propagators/kepler.py"
J2 = "beyond/propagators/j2.py"


def _setter_snapshot(chk, rel, cls):
    f = chk.repo.func(rel, f"{cls}.orbit", setter=True)
    body = [unparse(s).replace(" ", "") for s in body_without_doc(f.node)]
    p = f.params()[1]
    ok = body == [f"self._orbit={p}.copy(form='keplerian_mean')"]
    chk.inst("R05.1", f"{f.ref}::snapshot", ok, "keeps a private copy in keplerian_mean form (any input form; caller's object untouched)" if ok else f"{body}", loc(f, f.node))


def _writes(fnode):
    """(target text, node) for every store in the function."""
    out = []
    for n in ast.walk(fnode):
        if isinstance(n, ast.Assign):
            for t in n.targets:
                out.append((t, n))
        elif isinstance(n, ast.AugAssign):
            out.append((n.target, n))
    return out


def r05_1(chk, ft):
    _setter_snapshot(chk, KEP, "Kepler")
    _setter_snapshot(chk, J2, "J2")
    km = ft.by_name["keplerian_mean"][1]
    idx_M = km.index("M")
    # Kepler.propagate
    f = chk.repo.func(KEP, "Kepler.propagate")
    stores = [(unparse(t), n) for t, n in _writes(f.node) if isinstance(t, (ast.Subscript, ast.Attribute))]
    want = {f"new[{idx_M}]", "new.date"}
    got = {t for t, _ in stores}
    ok = got == want
    chk.inst("R05.1", f"{f.ref}::write-set", ok, f"writes only element {idx_M} (= M of keplerian_mean) and the date" if ok else f"stores: {sorted(got)}", loc(f, f.node))
    src = [n for t, n in stores if t == f"new[{idx_M}]"]
    ok = len(src) == 1 and unparse(src[0].value).replace(" ", "") in (f"self.orbit[{idx_M}]+delta", f"delta+self.orbit[{idx_M}]")
    chk.inst("R05.1", f"{f.ref}::M-update", ok, "M = M0 + Δ" if ok else f"{unparse(src[0]) if src else '?'}", loc(f, f.node))
    ok = any(unparse(s).replace(" ", "") == "new=self.orbit.copy()" for s in body_without_doc(f.node))
    chk.inst("R05.1", f"{f.ref}::fresh-copy", ok, "works on a copy of the snapshot" if ok else "result is not a copy of self.orbit", loc(f, f.node))
    # J2.propagate
    f = chk.repo.func(J2, "J2.propagate")
    delta = [s for s in body_without_doc(f.node) if isinstance(s, ast.Assign) and unparse(s.targets[0]) == "delta"]
    good = False
    what = "increment vector not recognised"
    if len(delta) == 1 and isinstance(delta[0].value, ast.BinOp) and isinstance(delta[0].value.op, ast.Mult):
        arr, fac = delta[0].value.left, delta[0].value.right
        if isinstance(arr, ast.Call) and isinstance(arr.args[0], ast.List) and len(arr.args[0].elts) == 6:
            el = arr.args[0].elts
            zeros = all(isinstance(e, ast.Constant) and e.value == 0 for e in el[:3])
            names = [nf(unparse(e)).replace(" ", "") for e in el[3:]]
            want_names = [f"d{km[3]}", f"d{km[4]}", f"d{km[5]}+n"]
            alt = [f"d{km[3]}", f"d{km[4]}", f"n+d{km[5]}"]
            good = zeros and names in (want_names, alt) and unparse(fac) == "delta_t"
            what = f"(0, 0, 0, d{km[3]}, d{km[4]}, d{km[5]} + n)·Δt in the order of keplerian_mean" if good else f"zeros={zeros}, rates={names}, factor={unparse(fac)}"
    chk.inst("R05.1", f"{f.ref}::increment", good, what, loc(f, delta[0] if delta else f.node))
    txt = [unparse(s).replace(" ", "") for s in body_without_doc(f.node)]
    ok = "new=self.orbit[:]+delta" in txt
    chk.inst("R05.1", f"{f.ref}::fresh-copy", ok, "new = copy of the snapshot + increment" if ok else "changed", loc(f, f.node))
    ok = "new[3:]=new[3:]%(2*np.pi)" in txt
    chk.inst("R05.1", f"{f.ref}::wrap", ok, "only the three angles are wrapped to [0, 2π)" if ok else "wrap changed", loc(f, f.node))
    a_e_i = [s for s in body_without_doc(f.node) if isinstance(s, ast.Assign) and unparse(s.targets[0]).strip("()") == "a, e, i"]
    ok = len(a_e_i) == 1 and unparse(a_e_i[0].value) == "self.orbit[:3]" and km[:3] == ["a", "e", "i"]
    chk.inst("R05.1", f"{f.ref}::a-e-i", ok, "a, e, i are the first three mean elements" if ok else "changed", loc(f, f.node))
    stores = {unparse(t) for t, n in _writes(f.node) if isinstance(t, (ast.Subscript, ast.Attribute))}
    ok = stores == {"new[3:]", "new.date"}
    chk.inst("R05.1", f"{f.ref}::write-set", ok, "besides the increment only the wrap and the date are written" if ok else f"{sorted(stores)}", loc(f, f.node))
    chk.floor("R05.1", 10)


def r05_2(chk):
    # Kepler
    f = chk.repo.func(KEP, "Kepler.propagate")
    ex = Extract()
    ex.run(body_without_doc(f.node))
    d = ex.env.get("delta")
    ok = isinstance(d, Poly) and T.equal(d, Poly.atom("self.orbit.infos.n") * Poly.atom("delta_t"))
    chk.obl("R05.2", f"{f.ref}::ΔM==n·Δt", ok, "mean anomaly advances by n·Δt with n = Infos.n (= sqrt(µ/|a|³) by R01.12)" if ok else f"delta = {T.fmt(d) if isinstance(d, Poly) else d}", loc(f, f.node))
    dt = [s for s in body_without_doc(f.node) if isinstance(s, ast.Assign) and unparse(s.targets[0]) == "delta_t"]
    date = f.params()[1]
    ok = len(dt) == 1 and unparse(dt[0].value).replace(" ", "") == f"({date}-self.orbit.date).total_seconds()"
    chk.inst("R05.2", f"{f.ref}::Δt", ok, "Δt = (date − epoch) in seconds (signed: backwards is the inverse)" if ok else "changed", loc(f, f.node))
    # J2
    f = chk.repo.func(J2, "J2.propagate")
    ex = Extract()
    ex.run(body_without_doc(f.node))
    env = ex.env
    n, a, e, i = Poly.atom("self.orbit.infos.n"), Poly.atom("a"), Poly.atom("e"), Poly.atom("i")
    J, re = Poly.atom("Earth.J2"), Poly.atom("Earth.r")
    p = a * (1 - e * e)
    c = n * J * re * re / (p * p)
    si, ci = T.trig("sin", i), T.trig("cos", i)
    want = {nf("dΩ"): F(-3, 2) * c * ci,
            nf("dω"): F(3, 4) * c * (4 - 5 * si * si),
            "dM": F(3, 4) * c * T.power(1 - e * e, F(1, 2)) * (2 - 3 * si * si)}
    where = loc(f, f.node)
    for name, w in want.items():
        got = env.get(name)
        if not isinstance(got, Poly):
            raise AnalysisError(f"{f.ref}: rate {name} not extractable")
        ok = T.equal(got, w)
        chk.obl("R05.2", f"{f.ref}::{name}", ok, "first-order secular J2 rate" if ok else f"{T.fmt(got)} != {T.fmt(w)}", where)
    dO, dw = env[nf("dΩ")], env[nf("dω")]
    # polar orbit: every monomial of dΩ carries cos i
    cos_i = T.func_atom("cos", i)
    nz = T.normalize(dO)
    ok = bool(nz.d) and all(any(at == cos_i and ex_ >= 1 for at, ex_ in k) for k in nz.d)
    chk.obl("R05.2", f"{f.ref}::polar-orbit", ok, "dΩ ∝ cos i: no node drift on a polar orbit" if ok else f"dΩ = {T.fmt(dO)} has a term without cos i", where)
    # critical inclination: sin²i = 4/5, i.e. cos²i = 1/5
    def crit(pp):
        out = Poly()
        for k, v in pp.d.items():
            m = dict(k)
            e2 = m.get(cos_i, 0)
            if e2 and F(e2).denominator == 1 and e2 % 2 == 0:
                m.pop(cos_i)
                out = out + Poly({tuple(sorted(m.items())): v * F(1, 5) ** int(e2 // 2)})
            else:
                out = out + Poly({k: v})
        return out
    ok = T.is_zero(dw, crit)
    chk.obl("R05.2", f"{f.ref}::critical-inclination", ok, "dω vanishes when sin²i = 4/5" if ok else "dω does not vanish at the critical inclination", where)
    for name in (nf("dΩ"), nf("dω"), "dM"):
        atoms = env[name].atoms()
        bad = [x for x in atoms if any(t in x for t in ("Ω", "ω", "M^", "ν")) and not x.startswith("B")]
        chk.inst("R05.2", f"{f.ref}::{name}::no-angle-atom", not bad, "rate depends on (a, e, i) only: the update is additive in Δt" if not bad else f"rate depends on {bad}", where)
    dt = [s for s in body_without_doc(f.node) if isinstance(s, ast.Assign) and unparse(s.targets[0]) == "delta_t"]
    date = f.params()[1]
    ok = len(dt) == 1 and unparse(dt[0].value).replace(" ", "") == f"({date}-self.orbit.date).total_seconds()"
    chk.inst("R05.2", f"{f.ref}::Δt", ok, "Δt = (date − epoch) in seconds" if ok else "changed", where)
    nsrc = [s for s in body_without_doc(f.node) if isinstance(s, ast.Assign) and unparse(s.targets[0]) == "n"]
    ok = len(nsrc) == 1 and unparse(nsrc[0].value) == "self.orbit.infos.n"
    chk.inst("R05.2", f"{f.ref}::n", ok, "n = Infos.n of the snapshot" if ok else "changed", where)
    chk.floor("R05.2", 12)


def r05_3(chk):
    for rel, q in ((KEP, "Kepler.propagate"), (J2, "J2.propagate")):
        f = chk.repo.func(rel, q)
        bad = []
        for t, n in _writes(f.node):
            root = t
            while isinstance(root, (ast.Subscript, ast.Attribute)) and not (isinstance(root, ast.Attribute) and unparse(root) in ("self.orbit", "self._orbit")):
                root = root.value
            if isinstance(root, ast.Attribute) and unparse(root) in ("self.orbit", "self._orbit"):
                bad.append(unparse(t))
        from ..ownership import Fresh, stores_through
        fr = Fresh(f, chk.repo)
        for text, root_, node in stores_through(f, fr.flow):
            if isinstance(root_, ast.Name) and root_.id == "self":
                continue
            vals = fr.classify(root_)
            if any(v != "fresh" and (v[0] == "alias" or (v[0] == "view" and text.endswith("]"))) for v in vals):
                bad.append(f"{text} (through {sorted(v for v in vals if v != 'fresh')})")
        chk.inst("R05.3", f"{f.ref}::initial-orbit-untouched", not bad, "no store reaches the snapshot (directly, through an alias, or through a view of its buffer)" if not bad else f"writes {bad}", loc(f, f.node))
        rets = [s for s in ast.walk(f.node) if isinstance(s, ast.Return)]
        ok = len(rets) == 1 and unparse(rets[0].value) == "new.copy(form='cartesian')"
        chk.inst("R05.3", f"{f.ref}::returns", ok, "returns a fresh cartesian copy" if ok else "changed", loc(f, f.node))
        first = body_without_doc(f.node)[0]
        date = f.params()[1]
        ok = isinstance(first, ast.If) and unparse(first.test).replace(" ", "") in (f"type({date})istimedelta", f"isinstance({date},timedelta)") \
            and unparse(first.body[0]).replace(" ", "") == f"{date}=self.orbit.date+{date}"
        chk.inst("R05.3", f"{f.ref}::timedelta-argument", ok, "a timedelta is relative to the epoch" if ok else "changed", loc(f, f.node))
    chk.floor("R05.3", 6)


def r05_4(chk):
    """n is Infos.n of the snapshot's CURRENT elements: `.infos` is rebuilt per access and Infos' own memos are per object."""
    from ..ownership import fresh_infos, memo_census
    fresh_infos(chk, "R05.4")
    memo_census(chk, "R05.4", only={"beyond/orbits/statevector.py::Infos.kep", "beyond/orbits/statevector.py::Infos.sphe", "beyond/orbits/statevector.py::StateVector.infos"})
    chk.floor("R05.4", 3)


def run(chk):
    chk.rule("R05.4", "the mean motion is derived from the snapshot's current elements (no stale cache of derived quantities)")
    chk.rule("R05.1", "write set of the analytical propagators")
    chk.rule("R05.2", "ΔM = n·Δt and the first-order secular J2 rates (term algebra)")
    chk.rule("R05.3", "initial orbit never written; fresh cartesian result; timedelta relative to the epoch")
    ft = FormTable(chk)
    chk.guard(r05_1, chk, ft)
    chk.guard(r05_2, chk)
    chk.guard(r05_3, chk)
    chk.guard(r05_4, chk)
    # forms.py is an anchor of C05: the propagators work in keplerian_mean form and return cartesian states, so the clauses of
    # C01 on the chain cartesian <-> keplerian <-> eccentric <-> mean are part of this check
    from . import c01
    for rid, text in (("R01.6", "(dependency) M2E is Newton on the sibling's Kepler equation"), ("R01.8", "(dependency) true <-> eccentric anomaly pairs mutually inverse; sign carried by sin ν"),
                      ("R01.11", "(dependency) keplerian → cartesian textbook terms"), ("R01.13", "(dependency) cartesian → keplerian inverts it"), ("R01.2", "(dependency) element order")):
        chk.rule(rid, text)
    chk.guard(c01.r01_2, chk, ft)
    chk.guard(c01.r01_6, chk, ft)
    chk.guard(c01.r01_8, chk, ft)
    chk.guard(c01.r01_8b, chk, ft)
    chk.rule("R01.10", "(dependency) polar-pair decoders (circular, mean-circular, equinoctial) invert their encoders: a state given in those forms is converted to mean elements before it is propagated")
    chk.guard(c01.r01_10, chk, ft)
    chk.guard(c01.r01_11, chk, ft)
    chk.guard(c01.r01_13, chk, ft)
    chk.assume("first-order secular J2 rates: dΩ = −3/2 n J2 (Re/p)² cos i, dω = 3/4 n J2 (Re/p)² (4 − 5 sin²i), "
               "dM − n = 3/4 n J2 (Re/p)² √(1−e²) (2 − 3 sin²i)")
    chk.assume("C01 (R01.1, R01.12) for the element order of keplerian_mean and Infos.n")
