"""C14 — covariance frame changes are pure, path-independent rotations.

R14.1 fixed reference for the local axes: (I) `_orb_frame` is assigned only at attachment; (II) the state handed
      to to_local inside Cov is the snapshot `self.orb` and nothing inside Cov changes the frame of that snapshot
R14.2 congruence: cov = M C Mᵀ with one M = m2 @ m1; m1 maps current → reference (transpose on the local arm),
      m2 maps reference → target (no transpose); identity arms when the frames coincide
R14.3 following the state: the state's frame setter moves the covariance iff it was in the state's old frame,
      after the state's own frame is committed
"""
import ast

from ..model import AnalysisError, body_without_doc, cmp_triples, loc, unparse

COV = "beyond/orbits/cov.py"
SV = "beyond/orbits/statevector.py"


def r14_1(chk):
    repo = chk.repo
    cov = repo.cls(COV, "Cov")
    writers = []
    for f in list(cov.methods.values()) + list(cov.setters.values()):
        for n in ast.walk(f.node):
            if isinstance(n, ast.Assign) and any(unparse(t).endswith("._orb_frame") for t in n.targets):
                writers.append((f, n))
    # `__setstate__` restores what `__reduce__` saved (unpickling): the value is the pickled one, not a new choice
    restorers = [(f, n) for f, n in writers if f.name == "__setstate__" and unparse(n.value) == f"{f.params()[1]}['orb_frame']"]
    writers = [w for w in writers if w not in restorers]
    ok = len(writers) == 1 and writers[0][0].name == "__new__" and unparse(writers[0][1].value) == f"{writers[0][0].params()[1]}.frame"
    chk.inst("R14.1", f"{COV}::Cov::_orb_frame-assigned-at-attachment", ok, "the reference frame is the state's frame at attachment and never changes" if ok else
             f"writers: {[w[0].ref for w in writers]}", COV)
    fs = cov.setters["frame"]
    calls = [n for n in ast.walk(fs.node) if isinstance(n, ast.Call) and unparse(n.func) == "to_local"]
    for c in calls:
        arg = unparse(c.args[1]) if len(c.args) > 1 else "?"
        ok = arg in ("self.orb", "self.orb.copy(frame=self._orb_frame)", "self.orb.copy(form='cartesian', frame=self._orb_frame)")
        chk.inst("R14.1", f"{fs.ref}::to_local({unparse(c.args[0])}, {arg})", ok, "local axes built from the attached snapshot" if ok else f"local axes built from `{arg}`", loc(fs, c))
    # nothing in Cov changes the frame (or anything else) of the snapshot
    bad = []
    for f in list(cov.methods.values()) + list(cov.setters.values()):
        for n in ast.walk(f.node):
            tg = n.targets if isinstance(n, ast.Assign) else [n.target] if isinstance(n, ast.AugAssign) else []
            for t in tg:
                if unparse(t).startswith("self.orb.") or unparse(t).startswith("self.orb["):
                    explicit = any(unparse(c.args[1]) != "self.orb" for c in calls if len(c.args) > 1)
                    if not explicit:
                        bad.append((f, n, unparse(t)))
    chk.inst("R14.1", f"{COV}::Cov::snapshot-never-moved", not bad,
             "the snapshot stays in the reference frame, so QSW/TNW are always the axes of the original inertial position and velocity" if not bad else
             f"`{bad[0][2]} = …` in {bad[0][0].qualname}: after one hop to a non-local frame the snapshot is expressed in that frame while `_orb_frame` still names "
             f"the original one; the next hop to QSW/TNW builds the axes from coordinates in the wrong frame (EME2000→ITRF→TNW ≠ EME2000→TNW)",
             loc(bad[0][0], bad[0][1]) if bad else COV)
    chk.floor("R14.1", 4)


def r14_2(chk):
    fs = chk.repo.cls(COV, "Cov").setters["frame"]
    p = fs.params()[1]
    body = body_without_doc(fs.node)
    txt = [unparse(s).replace(" ", "") for s in body]
    ok = "M=m2@m1" in txt and "cov=M@self.base@M.T" in txt
    chk.inst("R14.2", f"{fs.ref}::congruence", ok, "cov = M C Mᵀ with the same M on both sides, M = m2 @ m1 (m1 applied first)" if ok else f"{[t for t in txt if t.startswith(('M=', 'cov='))]}", loc(fs, fs.node))
    ok = txt[-3:-1] == ["self.base.setfield(cov,dtype=float)", f"self._data['frame']={p}"] or ("self.base.setfield(cov,dtype=float)" in txt and f"self._data['frame']={p}" in txt
                                                                                                and txt.index(f"self._data['frame']={p}") == txt.index("self.base.setfield(cov,dtype=float)") + 1)
    chk.inst("R14.2", f"{fs.ref}::commit", ok, "values and frame label written back to back after everything that can raise" if ok else "commit order changed", loc(fs, fs.node))
    # arms of m1 and m2
    def arms(var):
        for s in body:
            if isinstance(s, ast.If) and any(isinstance(x, ast.Assign) and unparse(x.targets[0]) == var for x in s.body):
                out = []
                x = s
                while isinstance(x, ast.If):
                    out.append((unparse(x.test).replace(" ", ""), [unparse(y).replace(" ", "") for y in x.body]))
                    if len(x.orelse) == 1 and isinstance(x.orelse[0], ast.If):
                        x = x.orelse[0]
                    else:
                        out.append(("else", [unparse(y).replace(" ", "") for y in x.orelse]))
                        x = None
                return out
        return []
    a1, a2 = arms("m1"), arms("m2")
    want1 = [("self.framein('TNW','QSW')", ["m1=to_local(self.frame,self.orb).T"]),
             ("self.frame!=self._orb_frame", ["m1=self.frame.orientation.convert_to(self.orb.date,self._orb_frame.orientation)"]),
             ("else", ["m1=np.identity(6)"])]
    want2 = [(f"{p}in('TNW','QSW')", [f"m2=to_local({p},self.orb)"]),
             (f"self._orb_frame!={p}", [f"m2=self._orb_frame.orientation.convert_to(self.orb.date,{p}.orientation)"]),
             ("else", ["m2=np.identity(6)"])]
    labels = ["local", "frame", "identity"]
    for i, lab in enumerate(labels):
        ok = len(a1) == 3 and a1[i] == want1[i]
        chk.inst("R14.2", f"{fs.ref}::m1::{lab}", ok, {"local": "local → reference: transpose of to_local", "frame": "current frame → reference frame at the state's date",
                                                        "identity": "already in the reference frame"}[lab] if ok else f"{a1[i] if len(a1) > i else '?'}", loc(fs, fs.node))
        ok = len(a2) == 3 and a2[i] == want2[i]
        chk.inst("R14.2", f"{fs.ref}::m2::{lab}", ok, {"local": "reference → local: to_local, no transpose", "frame": "reference frame → target frame at the state's date",
                                                        "identity": "target is the reference frame"}[lab] if ok else f"{a2[i] if len(a2) > i else '?'}", loc(fs, fs.node))
    t = unparse(fs.node).replace(" ", "")
    ok = f"ifisinstance({p},str)and{p}notin_local:\n{p}=get_frame({p})".replace(" ", "") in t.replace("    ", "") and f"if{p}==self.frame:\nreturn".replace(" ", "") in t.replace("    ", "")
    chk.inst("R14.2", f"{fs.ref}::prologue", ok, "frame names resolved; same frame is a no-op" if ok else "changed", loc(fs, fs.node))
    tl = chk.repo.func("beyond/frames/local.py", "to_local")
    t = unparse(tl.node).replace(" ", "")
    ok = "iff.upper()=='QSW':\nm=to_qsw(o)\neliff.upper()=='TNW':\nm=to_tnw(o)".replace("f.", tl.params()[0] + ".").replace("(o)", f"({tl.params()[1]})").replace(" ", "") in t.replace("    ", "") \
        and "ifexpanded:\nm=expand(m)".replace(" ", "") in t.replace("    ", "")
    chk.inst("R14.2", f"{tl.ref}", ok, "QSW→to_qsw, TNW→to_tnw, expanded to 6×6 block-diagonal (no rate)" if ok else "changed", loc(tl, tl.node))
    chk.floor("R14.2", 10)


def r14_3(chk):
    f = chk.repo.func(SV, "StateVector.frame", setter=True)
    p = f.params()[1]
    body = body_without_doc(f.node)
    last = body[-1]
    ok = isinstance(last, ast.If) and unparse(last.test).replace(" ", "") == "self.covisnotNoneandself.cov.frame==old_frame" \
        and [unparse(s).replace(" ", "") for s in last.body] == [f"self.cov.frame={p}"]
    chk.inst("R14.3", f"{f.ref}::drags-covariance", ok, "a covariance expressed in the state's old frame follows the state; others are left alone" if ok else
             f"`{unparse(last)[:120]}`", loc(f, last))
    idx_try = [i for i, s in enumerate(body) if isinstance(s, ast.If) and any(isinstance(x, ast.Try) for x in s.body)]
    ok = bool(idx_try) and idx_try[0] < len(body) - 1
    chk.inst("R14.3", f"{f.ref}::after-commit", ok, "the covariance moves after the state's own frame is committed" if ok else "order changed", loc(f, f.node))
    ok = any(unparse(s).replace(" ", "") == "old_frame=self.frame" for s in body)
    chk.inst("R14.3", f"{f.ref}::old-frame-saved", ok, "compared against the frame the state had before the change" if ok else "changed", loc(f, f.node))
    cs = chk.repo.cls(SV, "StateVector").setters["cov"]
    t = unparse(cs.node).replace(" ", "")
    ok = "self._data['cov']=value" in t and "self._data['cov'].orb=self" in t and "ifnotisinstance(value,Cov):" in t
    chk.inst("R14.3", f"{cs.ref}::attachment", ok, "attaching a covariance snapshots this state into it" if ok else "changed", loc(cs, cs.node))
    chk.floor("R14.3", 4)


def run(chk):
    chk.rule("R14.1", "QSW/TNW axes always come from the snapshot in the reference frame")
    chk.rule("R14.2", "congruence M C Mᵀ, M = m2 @ m1 with the transposition on the local→reference arm only")
    chk.rule("R14.3", "a covariance in its state's frame follows the state")
    chk.guard(r14_1, chk)
    chk.guard(r14_2, chk)
    chk.guard(r14_3, chk)
    chk.assume("to_qsw / to_tnw are proper rotations built from the given state (C17)")
