"""C06 — numerical propagation converges (the hypotheses of the convergence theorem, visible in the source).

R06.1 Butcher tableaux: shapes, row sums c_i = Σ a_ij, all rooted-tree order conditions up to the claimed order
      (exact rationals): euler 1, rk4 4, rkf54 b:5 b*:4, dopri54 b:5 b*:4
R06.2 stage wiring in _make_step; acceptance polarity; for/else raising; marching loops advance by the returned step
R06.3 right-hand side: x' = v, v' = Σ µ_b (r_b − r)/|r_b − r|³, thrust only inside a continuous maneuver's window
R06.4 copy completeness of the numerical propagator
"""
import ast
from fractions import Fraction as F

from ..consts import NotConstant, fold
from ..model import AnalysisError, body_without_doc, cmp_triples, loc, unparse
from .common import abs_compare

KN = "beyond/propagators/keplernum.py"
CLAIMED = {"euler": {"b": 1}, "rk4": {"b": 4}, "rkf54": {"b": 5, "b_star": 4}, "dopri54": {"b": 5, "b_star": 4}}


def order_conditions(A, b, c):
    """[(order, name, lhs, rhs)] for all 17 rooted trees up to order 5."""
    s = len(b)

    def dot(u, v):
        return sum((x * y for x, y in zip(u, v)), F(0))

    def mv(v):
        return [sum((A[i][j] * v[j] for j in range(len(A[i]))), F(0)) for i in range(s)]

    def had(u, v):
        return [x * y for x, y in zip(u, v)]
    one = [F(1)] * s
    c2, c3, c4 = had(c, c), had(had(c, c), c), had(had(c, c), had(c, c))
    Ac, Ac2, Ac3 = mv(c), mv(c2), mv(c3)
    AAc, AAc2 = mv(Ac), mv(Ac2)
    AAAc = mv(AAc)
    return [
        (1, "Σb", dot(b, one), F(1)),
        (2, "b·c", dot(b, c), F(1, 2)),
        (3, "b·c²", dot(b, c2), F(1, 3)),
        (3, "b·Ac", dot(b, Ac), F(1, 6)),
        (4, "b·c³", dot(b, c3), F(1, 4)),
        (4, "b·(c⊙Ac)", dot(b, had(c, Ac)), F(1, 8)),
        (4, "b·Ac²", dot(b, Ac2), F(1, 12)),
        (4, "b·AAc", dot(b, AAc), F(1, 24)),
        (5, "b·c⁴", dot(b, c4), F(1, 5)),
        (5, "b·(c²⊙Ac)", dot(b, had(c2, Ac)), F(1, 10)),
        (5, "b·(c⊙Ac²)", dot(b, had(c, Ac2)), F(1, 15)),
        (5, "b·(c⊙AAc)", dot(b, had(c, AAc)), F(1, 30)),
        (5, "b·(Ac⊙Ac)", dot(b, had(Ac, Ac)), F(1, 20)),
        (5, "b·Ac³", dot(b, Ac3), F(1, 20)),
        (5, "b·A(c⊙Ac)", dot(b, mv(had(c, Ac))), F(1, 40)),
        (5, "b·AAc²", dot(b, AAc2), F(1, 60)),
        (5, "b·AAAc", dot(b, AAAc), F(1, 120)),
    ]


def r06_1(chk):
    c = chk.repo.cls(KN, "KeplerNum")
    node = c.attrs.get("BUTCHER")
    if node is None:
        raise AnalysisError("KeplerNum.BUTCHER not found")
    env = {}
    for k, v in c.attrs.items():
        if isinstance(v, ast.Constant) and isinstance(v.value, str):
            env[k] = v.value
    try:
        tabs = fold(node, env)
    except NotConstant as e:
        raise AnalysisError(f"BUTCHER is not a literal table ({e})")
    where = loc(c.module, node)
    for method, claimed in CLAIMED.items():
        t = tabs.get(method)
        if t is None:
            chk.inst("R06.1", f"{c.ref}.BUTCHER[{method}]", False, "tableau missing", where)
            continue
        b, cc = t["b"], t["c"]
        A = t["a"] if t["a"] else [[]]
        s = len(b)
        A = [list(r) for r in A] + [[] for _ in range(s - len(A))]
        ok = len(cc) == s and all(len(A[i]) == i for i in range(s))
        chk.inst("R06.1", f"{c.ref}.BUTCHER[{method}]::shape", ok, f"{s} stages, strictly lower-triangular a" if ok else
                 f"len(b)={s}, len(c)={len(cc)}, row lengths {[len(r) for r in A]}", where)
        if not ok:
            continue
        for i in range(s):
            ok = sum(A[i], F(0)) == cc[i]
            chk.obl("R06.1", f"{c.ref}.BUTCHER[{method}]::row-sum[{i}]", ok, f"c[{i}] = Σ a[{i}][j]" if ok else f"c[{i}] = {cc[i]} but Σ a[{i}] = {sum(A[i], F(0))}", where)
        for wname, order in claimed.items():
            w = t.get(wname)
            if w is None or len(w) != s:
                chk.inst("R06.1", f"{c.ref}.BUTCHER[{method}][{wname}]", False, "weights missing or of the wrong length", where)
                continue
            for o, name, lhs, rhs in order_conditions(A, w, cc):
                if o > order:
                    continue
                ok = lhs == rhs
                chk.obl("R06.1", f"{c.ref}.BUTCHER[{method}][{wname}]::order{o}::{name}", ok, f"{name} = {rhs}" if ok else f"{name} = {lhs}, order condition requires {rhs}", where)
    # default method and names
    ok = all(isinstance(c.attrs.get(k), ast.Constant) and c.attrs[k].value == v for k, v in (("RK4", "rk4"), ("RKF54", "rkf54"), ("EULER", "euler"), ("DOPRI54", "dopri54")))
    chk.inst("R06.1", f"{c.ref}::method-names", ok, "method names map to their tableaux" if ok else "method names changed", KN)
    chk.floor("R06.1", 4 + 18 + 1 + 8 + 17 + 8 + 17 + 8 + 1)


def r06_2(chk):
    f = chk.repo.func(KN, "KeplerNum._make_step")
    orb, step = f.params()[1], f.params()[2]
    body = body_without_doc(f.node)
    txt = unparse(f.node).replace(" ", "")
    where = loc(f, f.node)
    ok = "aa,bb,cc=(self.butcher['a'],self.butcher['b'],self.butcher['c'])" in txt
    chk.inst("R06.2", f"{f.ref}::tableau-binding", ok, "a, b, c taken from the selected tableau" if ok else "changed", where)
    loops = [s for s in body if isinstance(s, ast.For)]
    if len(loops) < 1:
        raise AnalysisError(f"{f.ref}: iteration loop not found")
    it = loops[0]
    inner = [s for s in it.body if isinstance(s, ast.For)]
    good = False
    what = "stage loop not recognised"
    if len(inner) == 1:
        st = inner[0]
        ok1 = unparse(st.iter).replace(" ", "") == "zip(aa[1:],cc[1:])" and unparse(st.target).strip("()").replace(" ", "") == "a,c"
        b = [unparse(s).replace(" ", "") for s in st.body]
        ok2 = b == [f"y_n_prime=y_n+a@ks*{step}.total_seconds()", f"y_n_prime.date+={step}*c", "ks.append(self._accel(y_n_prime))"]
        good = ok1 and ok2
        what = "stage k: state y_n + h·(a[k]·ks), date t_n + h·c[k], a[k] paired with c[k]" if good else f"iter ok={ok1}; body {b}"
    chk.inst("R06.2", f"{f.ref}::stage", good, what, loc(f, inner[0]) if inner else where)
    b = [unparse(s).replace(" ", "") for s in it.body]
    ok = "ks=[self._accel(y_n)]" in b
    chk.inst("R06.2", f"{f.ref}::first-stage", ok, "k1 evaluated at (t_n, y_n)" if ok else "changed", where)
    ok = f"y_n_1=y_n+{step}.total_seconds()*bb@ks" in b and f"y_n_1.date=y_n.date+{step}" in b
    chk.inst("R06.2", f"{f.ref}::new-state", ok, "y_{n+1} = y_n + h·(b·ks), dated t_n + h" if ok else "changed", where)
    ok = f"error={step}.total_seconds()*(bb-self.butcher['b_star'])@ks" in b and "p_error=linalg.norm(error[:3])" in b
    chk.inst("R06.2", f"{f.ref}::error-estimate", ok, "error = h·((b − b*)·ks), position part" if ok else "changed", where)
    # the accepted quantity is a norm: non-negative whatever the sign of the step (backward propagation uses negative steps)
    pe = [x for x in it.body if isinstance(x, ast.Assign) and unparse(x.targets[0]) == "p_error"]
    ok = len(pe) == 1 and isinstance(pe[0].value, ast.Call) and unparse(pe[0].value.func).split(".")[-1] == "norm"
    chk.inst("R06.2", f"{f.ref}::error-is-a-norm", ok, "p_error = ‖·‖ ≥ 0 for forward and backward steps alike" if ok else
             f"p_error = {unparse(pe[0].value) if pe else '?'} is not a norm at top level: with a negative step (backward propagation) it is negative and every step is accepted", loc(f, pe[0]) if pe else where)
    # acceptance polarity (H1)
    acc = [s for s in it.body if isinstance(s, ast.If) and "p_error" in unparse(s.test)]
    ok = False
    what = "acceptance test not found"
    if len(acc) == 1:
        tr = cmp_triples(acc[0].test)
        if len(tr) == 1:
            l, op, r = tr[0]
            lt, rt = unparse(l), unparse(r)
            if rt == "p_error":
                lt, rt, op = rt, lt, {"<": ">", ">": "<", "<=": ">=", ">=": "<="}[op]
            ok = lt == "p_error" and op in ("<=", "<") and rt == "self.tol" and isinstance(acc[0].body[-1], ast.Break)
            what = f"step accepted when error {op} tol" if ok else f"`{unparse(acc[0].test)}`"
    chk.inst("R06.2", f"{f.ref}::acceptance-polarity", ok, what, loc(f, acc[0]) if acc else where)
    fixed = [s for s in it.body if isinstance(s, ast.If) and unparse(s.test).replace(" ", "") == "b_starisNone"]
    ok = len(fixed) == 1 and isinstance(fixed[0].body[-1], ast.Break)
    chk.inst("R06.2", f"{f.ref}::fixed-step-exit", ok, "fixed-step methods take exactly one pass" if ok else "changed", where)
    ok = bool(it.orelse) and isinstance(it.orelse[0], ast.Raise)
    chk.inst("R06.2", f"{f.ref}::no-convergence-raises", ok, "exhausting the iterations raises instead of returning an unaccepted step" if ok else "for/else raise missing", where)
    ok = f"{step}=min(self.step,{step}*(self.tol/(2*p_error))**(1/(len(bb)-1)))" in b
    chk.inst("R06.2", f"{f.ref}::step-adaptation", ok, "h ← min(h_max, h·(tol/(2·err))^(1/(s−1))) — shrinks when err > tol/2" if ok else "changed", where)
    # impulses with the adapted step; return value
    mans = [s for s in body if isinstance(s, ast.For) and unparse(s.iter) == "self.orbit.maneuvers"]
    ok = len(mans) == 1 and unparse(mans[0].body[0]).replace(" ", "") == f"ifisinstance(man,ImpulsiveMan)andman.check({orb}.date,{step}):\n    y_n_1[3:]+=man.dv(y_n_1,step={step})".replace(" ", "").replace("\n", "\n    ").replace(" ", "")
    if len(mans) == 1 and isinstance(mans[0].body[0], ast.If):
        t = unparse(mans[0].body[0].test).replace(" ", "")
        bb_ = [unparse(s).replace(" ", "") for s in mans[0].body[0].body]
        ok = t == f"isinstance(man,ImpulsiveMan)andman.check({orb}.date,{step})" and bb_ == [f"y_n_1[3:]+=man.dv(y_n_1,step={step})"]
    chk.inst("R06.2", f"{f.ref}::impulses", ok, "impulse window tested on [t_n, t_n + accepted step]; dv added to the velocity of the new state" if ok else "changed", where)
    rets = [s for s in body if isinstance(s, ast.Return)]
    ok = len(rets) == 1 and unparse(rets[0].value).replace(" ", "") == f"({step},y_n_1)"
    chk.inst("R06.2", f"{f.ref}::returns-accepted-step", ok, "returns the step actually taken" if ok else "changed", where)
    ok = "y_n=orb.copy()".replace("orb", orb) in [unparse(s).replace(" ", "") for s in body]
    chk.inst("R06.2", f"{f.ref}::works-on-copy", ok, "integrates a copy of the incoming state" if ok else "changed", where)
    # marching loops advance by the returned step
    g = chk.repo.func(KN, "KeplerNum._iter")
    n_ok = 0
    for w in [s for s in ast.walk(g.node) if isinstance(s, ast.While)]:
        b = [unparse(s).replace(" ", "") for s in w.body]
        ok = len(b) == 3 and b[0].startswith("real_step,orb=self._make_step(orb,") and b[1] == "ephem.append(orb)" and b[2] == "date+=real_step"
        n_ok += ok
        chk.inst("R06.2", f"{g.ref}::march::{unparse(w.test)}", ok, "date advances by the step actually taken" if ok else f"{b}", loc(g, w))
    chk.floor("R06.2", 15)


def r06_3(chk):
    f = chk.repo.func(KN, "KeplerNum._accel")
    orb = f.params()[1]
    body = body_without_doc(f.node)
    b = [unparse(s).replace(" ", "") for s in body]
    where = loc(f, f.node)
    ok = "new_body=zeros(6)" in b and f"new_body[:3]={orb}[3:]" in b
    chk.inst("R06.3", f"{f.ref}::kinematics", ok, "x' = v" if ok else "changed", where)
    loops = [s for s in body if isinstance(s, ast.For)]
    grav = [l for l in loops if unparse(l.iter) == "self.bodies"]
    ok = False
    what = "gravity loop not found"
    if len(grav) == 1:
        bd = unparse(grav[0].target)
        gb = [unparse(s).replace(" ", "") for s in grav[0].body]
        ok = gb == [f"orb_body={bd}.propagate({orb}.date)", f"orb_body.frame={orb}.frame", f"diff=orb_body[:3]-{orb}[:3]", "norm=linalg.norm(diff)**3", f"new_body[3:]+={bd}.μ*diff/norm"]
        what = "v' += µ_b (r_b − r)/|r_b − r|³ with the body at the state's date, in the state's frame" if ok else f"{gb}"
    chk.inst("R06.3", f"{f.ref}::gravity", ok, what, where)
    thr = [l for l in loops if unparse(l.iter) == "self.orbit.maneuvers"]
    ok = False
    what = "thrust loop not found"
    if len(thr) == 1 and isinstance(thr[0].body[0], ast.If):
        t = unparse(thr[0].body[0].test).replace(" ", "")
        tb = [unparse(s).replace(" ", "") for s in thr[0].body[0].body]
        ok = t == f"isinstance(man,ContinuousMan)andman.check({orb}.date)" and tb == [f"new_body[3:]+=man.accel({orb})"]
        what = "thrust added only while the stage date lies in the burn's window" if ok else f"{t}: {tb}"
    chk.inst("R06.3", f"{f.ref}::thrust", ok, what, where)
    rets = [s for s in body if isinstance(s, ast.Return)]
    ok = len(rets) == 1 and unparse(rets[0].value) == "new_body"
    chk.inst("R06.3", f"{f.ref}::returns", ok, "returns the derivative vector", where, nontrivial=False)
    chk.floor("R06.3", 4)


def copy_completeness(chk, rule, cls, skip=()):
    """D8: a copy() that calls self.__class__(…) passes every __init__ parameter."""
    cp = cls.methods.get("copy")
    init = chk.repo.lookup_method(cls, "__init__")
    if cp is None or init is None:
        return
    calls = [n for n in ast.walk(cp.node) if isinstance(n, ast.Call) and unparse(n.func) in ("self.__class__", "type(self)", cls.name)]
    if not calls:
        return
    call = calls[0]
    a = init.node.args
    params = [x.arg for x in a.posonlyargs + a.args][1:] + [x.arg for x in a.kwonlyargs]
    passed = set()
    pos = [x.arg for x in a.posonlyargs + a.args][1:]
    for i, _ in enumerate(call.args):
        if i < len(pos):
            passed.add(pos[i])
    for k in call.keywords:
        if k.arg:
            passed.add(k.arg)
        else:
            passed |= set(params)
    for p in params:
        if p in skip:
            continue
        ok = p in passed
        chk.inst(rule, f"{cp.ref}::passes::{p}", ok, f"copy() forwards `{p}`" if ok else
                 f"copy() rebuilds the object without `{p}`: the copy silently falls back to the default", loc(cp, cp.node))
        if ok:
            # the forwarded value is the object's own attribute
            val = None
            if p in pos and pos.index(p) < len(call.args):
                val = call.args[pos.index(p)]
            for k in call.keywords:
                if k.arg == p:
                    val = k.value
            if val is not None:
                ok2 = unparse(val).startswith("self.")
                chk.inst(rule, f"{cp.ref}::value::{p}", ok2, f"`{p}` ← {unparse(val)}" if ok2 else f"`{p}` is not taken from the object: {unparse(val)}", loc(cp, cp.node), nontrivial=False)


def r06_4(chk):
    c = chk.repo.cls(KN, "KeplerNum")
    copy_completeness(chk, "R06.4", c)
    init = c.methods["__init__"]
    b = [unparse(s).replace(" ", "") for s in body_without_doc(init.node)]
    ok = all(x in b for x in ("self.step=step", "self.method=method.lower()", "self.frame=frame", "self.tol=tol"))
    chk.inst("R06.4", f"{init.ref}::stores", ok, "constructor stores step, method, frame and tol" if ok else "changed", loc(init, init.node))
    chk.floor("R06.4", 5)


def run(chk):
    chk.rule("R06.1", "Butcher tableaux satisfy shapes, row sums and all order conditions up to the claimed order (exact)")
    chk.rule("R06.2", "stage wiring, acceptance polarity, raising on non-convergence, marching by the accepted step")
    chk.rule("R06.3", "right-hand side is Newtonian attraction of each body plus thrust inside burn windows")
    chk.rule("R06.4", "copy() of the numerical propagator forwards every constructor parameter")
    chk.guard(r06_1, chk)
    chk.guard(r06_2, chk)
    chk.guard(r06_3, chk)
    chk.guard(r06_4, chk)
    # the integrator reads its orbit raw (cartesian, in its own frame): the setter must keep a private converted copy
    from .c08 import orbit_setters
    chk.rule("D4", "(C06 dependency) the integrator's orbit is a private cartesian snapshot in the propagation frame")
    chk.guard(orbit_setters, chk, "D4", {"KeplerNum"})
    chk.assume("theorem: a Runge-Kutta tableau of order p applied to a smooth ODE converges with order p; its hypotheses "
               "(order conditions, correct stage wiring, smooth right-hand side) are what is checked")
