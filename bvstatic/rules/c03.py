"""C03 — time scales: one instant, exact offsets, lawful date arithmetic.

R03.1 scale graph is a tree; one offset provider per edge; exact constants; add/subtract orientation in offset()
R03.2 one key for order, equality and hash; no label-relative member in comparisons
R03.3 direction symmetry of DateRange (H2)
R03.4 exhaustive missing-data policy in EopDb.get
R03.5 immutability of Date and scale-preserving arithmetic
R03.6 constructor normalisation and _convert_to_scale are inverse (floor/mod algebra)
R03.7 the EOP record is chosen by the instant, not by the label
R03.8 IERS readers: day key, leap-second table lookup
"""
import ast

from ..graphs import edges_of, link_chains, node_ctors, tree_report
from ..model import AnalysisError, body_without_doc, cmp_triples, const_value, loc, unparse, walk_no_nested
from .common import LABEL_RELATIVE

DATE = "beyond/dates/date.py"
EOP = "beyond/dates/eop.py"


def r03_1(chk):
    repo = chk.repo
    m = repo.module(DATE)
    ctors = node_ctors(m, {"Timescale"})
    scales = {}
    for var, call in ctors.items():
        if len(call.args) != 1 or not isinstance(call.args[0], ast.Constant):
            raise AnalysisError(f"{DATE}: Timescale constructor of {var} has an unexpected shape")
        scales[var] = call.args[0].value
    chains = link_chains(m)
    edges = edges_of(chains)
    ok, why = tree_report(set(scales), edges)
    chk.inst("R03.1", f"{DATE}::scale-graph", ok, f"{len(scales)} scales, {len(edges)} links: {why}", DATE, detail={"chains": chains})
    ok = all(v == n for v, n in scales.items())
    chk.inst("R03.1", f"{DATE}::scale-names", ok, f"variables name their scale: {scales}", DATE)
    ts = repo.cls(DATE, "Timescale")
    providers = {}
    for name, f in ts.methods.items():
        if name.startswith("_scale_") and "_minus_" in name:
            a, b = name[len("_scale_"):].split("_minus_")
            providers[(a, b)] = f
    for a, b in edges:
        if a in scales and b in scales:
            x, y = scales[a].lower(), scales[b].lower()
            n = ((x, y) in providers) + ((y, x) in providers)
            chk.inst("R03.1", f"{DATE}::provider({'-'.join(sorted((x, y)))})", n == 1,
                     "exactly one offset provider for this link" if n == 1 else f"{n} providers for the link {a}+{b}", DATE)
    linked = {frozenset((scales[a].lower(), scales[b].lower())) for a, b in edges if a in scales and b in scales}
    for (x, y), f in sorted(providers.items()):
        if frozenset((x, y)) not in linked:
            chk.note(f"{f.ref} has no link in the scale graph: dead provider (never dispatched), harmless")
    # exact constants
    want = {("tt", "tai"): ("const", 32.184), ("tai", "gps"): ("const", 19.0),
            ("tai", "utc"): ("eop", "tai_utc"), ("ut1", "utc"): ("eop", "ut1_utc")}
    for key, (kind, val) in want.items():
        f = providers.get(key)
        if f is None:
            chk.inst("R03.1", f"{DATE}::Timescale._scale_{key[0]}_minus_{key[1]}::value", False, "provider missing (or reversed: sign of the offset flips)", DATE)
            continue
        rets = [s for s in body_without_doc(f.node) if isinstance(s, ast.Return)]
        if kind == "const":
            ok = len(rets) == 1 and const_value(rets[0].value) == val and len(body_without_doc(f.node)) == 1
            what = f"returns exactly {val}"
        else:
            eopname = f.params()[2] if len(f.params()) > 2 else "eop"
            ok = len(rets) == 1 and unparse(rets[0].value) == f"{eopname}.{val}" and len(body_without_doc(f.node)) == 1
            what = f"returns the tabulated {val} of the day"
        chk.inst("R03.1", f"{f.ref}::value", ok, what if ok else f"returns {unparse(rets[0].value) if rets else '?'}", loc(f, f.node))
    # TDB-TT periodic term: published constants
    f = providers.get(("tdb", "tt"))
    if f is None:
        raise AnalysisError("Timescale._scale_tdb_minus_tt not found")
    consts = sorted({abs(float(n.value)) for n in ast.walk(f.node) if isinstance(n, ast.Constant) and isinstance(n.value, (int, float)) and not isinstance(n.value, bool)})
    want_consts = sorted([0.001657, 0.000022, 357.5277233, 35999.05034, 246.11, 0.90251792])
    ok = consts == want_consts
    chk.inst("R03.1", f"{f.ref}::constants", ok, "amplitudes 1.657 ms, 22 µs and arguments of the Almanac series" if ok else
             f"constants {consts} != {want_consts}", loc(f, f.node))
    rets = [s for s in body_without_doc(f.node) if isinstance(s, ast.Return)]
    shape = unparse(rets[0].value).replace(" ", "") if rets else ""
    ok = shape in ("0.001657*sin(m)+2.2e-05*sin(delta_lambda)", "0.001657*sin(m)+0.000022*sin(delta_lambda)")
    chk.inst("R03.1", f"{f.ref}::series-shape", ok, "0.001657 sin(M) + 0.000022 sin(Δλ)" if ok else f"returns {shape}", loc(f, f.node))
    # argument wiring of the series: m from jj (julian centuries of jd), delta_lambda from (jd - J2000)
    assigns = {unparse(s.targets[0]): unparse(s.value).replace(" ", "") for s in body_without_doc(f.node) if isinstance(s, ast.Assign)}
    mjd = f.params()[1]
    ok = assigns.get("jd") == f"{mjd}+Date.JD_MJD" and assigns.get("jj") == "Date._julian_century(jd)" \
        and assigns.get("m") == "radians(357.5277233+35999.05034*jj)" and assigns.get("delta_lambda") == "radians(246.11+0.90251792*(jd-Date.J2000))"
    from ..frozen import compare_formulas
    compare_formulas(chk, "R03.1", f"{DATE}::Timescale._scale_tdb_minus_tt", f.node, loc(f, f.node), "TDB−TT two-term series")
    chk.inst("R03.1", f"{f.ref}::arguments", ok, "M in centuries, Δλ in days from J2000, both converted to radians" if ok else f"{assigns}", loc(f, f.node))
    # Date constants
    d = repo.cls(DATE, "Date")
    for name, val in (("JD_MJD", 2400000.5), ("J2000", 2451545.0), ("REF_SCALE", "TAI"), ("DEFAULT_SCALE", "UTC")):
        node = d.attrs.get(name)
        ok = node is not None and const_value(node) == val
        chk.inst("R03.1", f"{DATE}::Date.{name}", ok, f"= {val}" if ok else f"= {unparse(node) if node is not None else None}", DATE)
    jc = repo.func(DATE, "Date._julian_century")
    rets = [s for s in body_without_doc(jc.node) if isinstance(s, ast.Return)]
    ok = len(rets) == 1 and unparse(rets[0].value).replace(" ", "") == f"({jc.params()[1]}-cls.J2000)/36525.0"
    chk.inst("R03.1", f"{jc.ref}", ok, "(jd − J2000)/36525" if ok else f"{unparse(rets[0].value) if rets else '?'}", loc(jc, jc.node))
    node = d.attrs.get("MJD_T0")
    ok = node is not None and unparse(node).replace(" ", "") == "datetime(1858,11,17)"
    chk.inst("R03.1", f"{DATE}::Date.MJD_T0", ok, "origin of MJD 1858-11-17" if ok else f"{unparse(node) if node is not None else None}", DATE)
    # orientation in offset(): step (one -> two): + two_minus_one, - one_minus_two
    off = repo.func(DATE, "Timescale.offset")
    loops = [s for s in body_without_doc(off.node) if isinstance(s, ast.For)]
    good = False
    what = "offset(): loop over self.steps(new_scale) not recognised"
    if len(loops) == 1 and isinstance(loops[0].target, ast.Tuple) and unparse(loops[0].iter) == f"self.steps({off.params()[2]})":
        one, two = [unparse(e) for e in loops[0].target.elts]
        fdefs = {}
        for s in loops[0].body:
            if isinstance(s, ast.Assign) and isinstance(s.value, ast.JoinedStr):
                parts = [p.value if isinstance(p, ast.Constant) else "{" + unparse(p.value) + "}" for p in s.value.values]
                fdefs[unparse(s.targets[0])] = "".join(parts)
        ifs = [s for s in loops[0].body if isinstance(s, ast.If)]
        if len(ifs) == 1:
            arm1 = ifs[0]
            arm2 = arm1.orelse[0] if len(arm1.orelse) == 1 and isinstance(arm1.orelse[0], ast.If) else None

            def arm_info(arm):
                t = arm.test
                if not (isinstance(t, ast.Call) and unparse(t.func) == "hasattr" and unparse(t.args[0]) == "self"):
                    return None
                var = unparse(t.args[1])
                if len(arm.body) != 1 or not isinstance(arm.body[0], ast.AugAssign):
                    return None
                aug = arm.body[0]
                if unparse(aug.value) != f"getattr(self, {var})({off.params()[1]}, {off.params()[3]})":
                    return None
                return fdefs.get(var), type(aug.op).__name__, unparse(aug.target)
            i1 = arm_info(arm1)
            i2 = arm_info(arm2) if arm2 is not None else None
            fwd = f"_scale_{{{two}}}_minus_{{{one}}}"
            rev = f"_scale_{{{one}}}_minus_{{{two}}}"
            got = {i1, i2}
            good = got == {(fwd, "Add", "delta"), (rev, "Sub", "delta")}
            what = "going one→two adds (two − one), or subtracts (one − two)" if good else f"arms: {i1}, {i2}; expected +{fwd} / -{rev}"
            # the lowered names
            lows = {unparse(s.targets[0]): unparse(s.value) for s in loops[0].body if isinstance(s, ast.Assign) and not isinstance(s.value, ast.JoinedStr)}
            good = good and lows.get(one) == f"{one}.name.lower()" and lows.get(two) == f"{two}.name.lower()"
            else_raise = arm2 is not None and arm2.orelse and isinstance(arm2.orelse[0], ast.Raise)
            good = good and bool(else_raise)
    chk.inst("R03.1", f"{off.ref}::orientation", good, what, loc(off, off.node))
    init = [s for s in body_without_doc(off.node) if isinstance(s, ast.Assign) and unparse(s.targets[0]) == "delta"]
    rets = [s for s in body_without_doc(off.node) if isinstance(s, ast.Return)]
    ok = len(init) == 1 and const_value(init[0].value) == 0 and len(rets) == 1 and unparse(rets[0].value) == "delta"
    chk.inst("R03.1", f"{off.ref}::accumulator", ok, "sum starts at 0 and is returned" if ok else "accumulator shape changed", loc(off, off.node))
    chk.floor("R03.1", 22)


def _inline_props(cls, node, depth=0):
    """Text of `node` with `self.<property>` replaced by the property's single returned expression."""
    class Tr(ast.NodeTransformer):
        def visit_Attribute(self, n):
            n = self.generic_visit(n)
            if isinstance(n.value, ast.Name) and n.value.id in ("self", "other") and n.attr in cls.methods and cls.methods[n.attr].is_property and depth < 4:
                f = cls.methods[n.attr]
                body = body_without_doc(f.node)
                if len(body) == 1 and isinstance(body[0], ast.Return):
                    sub = ast.parse(unparse(body[0].value).replace("self.", n.value.id + "."), mode="eval").body
                    return sub
            return n
    import copy
    return Tr().visit(copy.deepcopy(node))


def r03_2(chk):
    d = chk.repo.cls(DATE, "Date")
    ops = {"__gt__": ">", "__ge__": ">=", "__lt__": "<", "__le__": "<=", "__eq__": "=="}
    keys = {}
    for name, op in ops.items():
        f = d.methods.get(name)
        if f is None:
            raise AnalysisError(f"Date.{name} not found")
        body = body_without_doc(f.node)
        ok = False
        what = "not a single comparison"
        if len(body) == 1 and isinstance(body[0], ast.Return):
            tr = cmp_triples(body[0].value)
            if len(tr) == 1:
                l, o, r = tr[0]
                other = f.params()[1]
                lt, rt = unparse(l), unparse(r)
                same_key = lt.startswith("self.") and rt == other + lt[4:]
                ok = same_key and o == op
                what = f"self.K {o} other.K with K = {lt[5:]}" if ok else f"`{lt} {o} {rt}` for {name}"
                keys[name] = unparse(_inline_props(d, l))
        chk.inst("R03.2", f"{f.ref}::operator-and-key", ok, what, loc(f, f.node))
        bad = [n.attr for n in ast.walk(f.node) if isinstance(n, ast.Attribute) and n.attr in LABEL_RELATIVE | {"scale", "_offset"}]
        chk.inst("R03.2", f"{f.ref}::invariant-members-only", not bad, "reads invariant members only" if not bad else f"reads label-relative {bad}", loc(f, f.node))
    ok = len(set(keys.values())) == 1
    chk.inst("R03.2", f"{DATE}::Date::one-key-for-all-comparisons", ok, f"all five comparisons use {set(keys.values())}", DATE)
    h = d.methods.get("__hash__")
    if h is None:
        raise AnalysisError("Date.__hash__ not found")
    body = body_without_doc(h.node)
    hashed = None
    if len(body) == 1 and isinstance(body[0], ast.Return) and isinstance(body[0].value, ast.Call) and unparse(body[0].value.func) == "hash":
        hashed = unparse(_inline_props(d, body[0].value.args[0]))
    eqk = keys.get("__eq__")
    ok = hashed is not None and eqk is not None and hashed == eqk
    chk.inst("R03.2", f"{h.ref}::hash-key==eq-key", ok, f"hash and == use the same key {eqk}" if ok else
             f"== compares `{eqk}` (a float, not injective on its parts) but hash uses `{hashed}`: equal dates may hash differently", loc(h, h.node))
    bad = [n.attr for n in ast.walk(h.node) if isinstance(n, ast.Attribute) and n.attr in LABEL_RELATIVE | {"scale", "_offset"}]
    chk.inst("R03.2", f"{h.ref}::invariant-members-only", not bad, "hash reads invariant members only" if not bad else f"reads {bad}", loc(h, h.node))
    # _mjd itself
    f = d.methods["_mjd"]
    rets = [s for s in body_without_doc(f.node) if isinstance(s, ast.Return)]
    ok = len(rets) == 1 and unparse(rets[0].value).replace(" ", "") == "self._d+self._s/86400.0"
    chk.inst("R03.2", f"{f.ref}::definition", ok, "_mjd = _d + _s/86400 (reference scale)" if ok else f"{unparse(rets[0].value) if rets else '?'}", loc(f, f.node))
    chk.floor("R03.2", 14)


def r03_3(chk):
    """H2: ordering a date against self.start/self.stop with a fixed-direction operator must be decided under a test of
    the sign of self.step (as __iter__ does); sign-symmetric arithmetic on dur/step is accepted."""
    c = chk.repo.cls(DATE, "DateRange")
    for name, f in sorted(c.methods.items()):
        if name in ("__init__",):
            continue
        # collect ordering comparisons involving self.start / self.stop
        sites = []
        parents = {}
        for p in ast.walk(f.node):
            for ch in ast.iter_child_nodes(p):
                parents[ch] = p
        for n in ast.walk(f.node):
            if isinstance(n, ast.Compare):
                for l, op, r in cmp_triples(n):
                    if op in ("<", "<=", ">", ">=") and {unparse(l), unparse(r)} & {"self.start", "self.stop"}:
                        sites.append((n, "fixed", f"{unparse(l)} {op} {unparse(r)}"))
            elif isinstance(n, ast.Call) and isinstance(n.func, ast.Call) and unparse(n.func.func) == "getattr" \
                    and n.args and unparse(n.args[0]) in ("self.start", "self.stop"):
                sites.append((n, "dynamic", unparse(n)))
        for node, kind, text in sites:
            guarded = False
            if kind == "dynamic":
                # operator chosen through a local: all its definitions must sit under a test of self.step
                opvar = unparse(node.func.args[1])
                defs = [s for s in ast.walk(f.node) if isinstance(s, ast.Assign) and unparse(s.targets[0]) == opvar]
                guarded = bool(defs) and all(_under_step_test(s, parents) for s in defs)
            else:
                guarded = _under_step_test(node, parents)
            chk.inst("R03.3", f"{f.ref}::{text}", guarded,
                     "direction chosen from the sign of the step" if guarded else
                     f"`{text}` orders against start/stop in a fixed direction without testing the sign of self.step: "
                     f"wrong for a range with a negative step", loc(f, node))
    # __contains__: the four windows (forward/backward × inclusive/exclusive) are the ranges that __iter__ spans
    f = c.methods["__contains__"]
    d = f.params()[1]

    def bounds(expr):
        out = set()
        for l, op, r in cmp_triples(expr):
            lt, rt = unparse(l), unparse(r)
            if lt == d:
                out.add(("upper" if op in ("<", "<=") else "lower", rt, op in ("<", ">")))
            elif rt == d:
                out.add(("lower" if op in ("<", "<=") else "upper", lt, op in ("<", ">")))
        return out
    want = {(True, True): {("lower", "self.start", False), ("upper", "self.stop", False)},
            (True, False): {("lower", "self.start", False), ("upper", "self.stop", True)},
            (False, True): {("upper", "self.start", False), ("lower", "self.stop", False)},
            (False, False): {("upper", "self.start", False), ("lower", "self.stop", True)}}
    top = [s for s in body_without_doc(f.node) if isinstance(s, ast.If)]
    got = {}
    if len(top) == 1:
        tr = cmp_triples(top[0].test)
        fwd_first = len(tr) == 1 and unparse(tr[0][0]) == "self.step.total_seconds()" and tr[0][1] == ">" and unparse(tr[0][2]) == "0"
        if fwd_first:
            for forward, arm in ((True, top[0].body), (False, top[0].orelse)):
                if len(arm) == 1 and isinstance(arm[0], ast.If) and unparse(arm[0].test) == "self.inclusive":
                    for inclusive, sub in ((True, arm[0].body), (False, arm[0].orelse)):
                        if len(sub) == 1 and isinstance(sub[0], ast.Return):
                            got[(forward, inclusive)] = bounds(sub[0].value)
    for key, w in want.items():
        ok = got.get(key) == w
        chk.inst("R03.3", f"{f.ref}::window::{'forward' if key[0] else 'backward'}-{'inclusive' if key[1] else 'exclusive'}", ok,
                 "membership window equals the span iterated" if ok else f"window is {sorted(got.get(key, []))}, iteration spans {sorted(w)}", loc(f, f.node))
    # __len__ uses sign-symmetric arithmetic only
    f = c.methods["__len__"]
    txt = unparse(f.node)
    ok = "self.dur / self.step" in txt and "self.dur % self.step" in txt and "ceil" in txt
    chk.inst("R03.3", f"{f.ref}::sign-symmetric", ok, "length = ceil(dur/step) (+1 when inclusive and step divides dur)" if ok else "shape changed", loc(f, f.node))
    ifs = [s for s in body_without_doc(f.node) if isinstance(s, ast.If)]
    ok = len(ifs) == 1 and unparse(ifs[0].test).replace(" ", "") == "self.inclusiveandself.dur%self.step==timedelta(0)" \
        and unparse(ifs[0].body[0]) == "plus = 1" and unparse(ifs[0].orelse[0]) == "plus = 0"
    chk.inst("R03.3", f"{f.ref}::inclusive-endpoint", ok, "the endpoint counts once, only when inclusive and on the grid" if ok else "shape changed", loc(f, f.node))
    # __iter__: operator table
    f = c.methods["__iter__"]
    ifs = [s for s in body_without_doc(f.node) if isinstance(s, ast.If)]
    ok = False
    if len(ifs) == 1:
        tr = cmp_triples(ifs[0].test)
        if len(tr) == 1 and unparse(tr[0][0]) == "self.step.total_seconds()" and tr[0][1] == ">" and unparse(tr[0][2]) == "0":
            pos = unparse(ifs[0].body[0].value) if isinstance(ifs[0].body[0], ast.Assign) else ""
            neg = unparse(ifs[0].orelse[0].value) if ifs[0].orelse and isinstance(ifs[0].orelse[0], ast.Assign) else ""
            ok = pos == "'__le__' if self.inclusive else '__lt__'" and neg == "'__ge__' if self.inclusive else '__gt__'"
    chk.inst("R03.3", f"{f.ref}::operator-table", ok, "forward: <=/<, backward: >=/> (inclusive/exclusive)" if ok else "operator table changed", loc(f, f.node))
    loops = [s for s in body_without_doc(f.node) if isinstance(s, ast.While)]
    ok = len(loops) == 1 and [unparse(s) for s in loops[0].body] == ["yield date", "date += self.step"] and \
        unparse(loops[0].test) == "getattr(date, oper)(self.stop)"
    chk.inst("R03.3", f"{f.ref}::march", ok, "yield then advance by the step while inside" if ok else "loop shape changed", loc(f, f.node))
    start = [s for s in body_without_doc(f.node) if isinstance(s, ast.Assign) and unparse(s.targets[0]) == "date"]
    ok = len(start) == 1 and unparse(start[0].value) == "self.start"
    chk.inst("R03.3", f"{f.ref}::first", ok, "first date yielded is start" if ok else "start changed", loc(f, f.node))
    # __init__: coherence test is sign-symmetric and null step refused
    f = c.methods["__init__"]
    txt = [unparse(s) for s in body_without_doc(f.node)]
    ok = any(t.startswith("if self._sign(stop - start) != self._sign(step):") for t in txt) and any(t.startswith("if not step:") for t in txt) \
        and any(t.startswith("if isinstance(stop, timedelta):\n    stop = start + stop") for t in txt)
    chk.inst("R03.3", f"{f.ref}::validation", ok, "timedelta stop is relative to start; null step and incoherent direction refused" if ok else "validation changed", loc(f, f.node))
    sg = c.methods["_sign"]
    rets = [s for s in body_without_doc(sg.node) if isinstance(s, ast.Return)]
    ok = len(rets) == 1 and unparse(rets[0].value).replace(" ", "") == f"(-1,1)[{sg.params()[1]}.total_seconds()>=0]"
    chk.inst("R03.3", f"{sg.ref}", ok, "sign of a timedelta" if ok else "changed", loc(sg, sg.node))
    chk.floor("R03.3", 8)


def _under_step_test(node, parents):
    n = node
    while n in parents:
        p = parents[n]
        if isinstance(p, (ast.If, ast.IfExp, ast.While)) and n is not p.test and "self.step" in unparse(p.test):
            return True
        n = p
    return False


def r03_4(chk):
    repo = chk.repo
    c = repo.cls(EOP, "EopDb")
    consts = {k: const_value(v) for k, v in c.attrs.items() if k in ("PASS", "WARN", "ERROR")}
    ok = consts == {"PASS": "pass", "WARN": "warning", "ERROR": "error"}
    chk.inst("R03.4", f"{EOP}::EopDb::policy-names", ok, f"{consts}", EOP)
    md = c.attrs.get("MIS_DEFAULT")
    ok = md is not None and unparse(md) == "PASS"
    chk.inst("R03.4", f"{EOP}::EopDb.MIS_DEFAULT", ok, "default policy is pass" if ok else f"{unparse(md) if md is not None else None}", EOP)
    pol = repo.func(EOP, "EopDb.policy")
    txt = unparse(pol.node)
    ok = "config.get('eop', 'missing_policy', fallback=cls.MIS_DEFAULT)" in txt and "not in (cls.PASS, cls.WARN, cls.ERROR)" in txt and "raise ConfigError" in txt
    chk.inst("R03.4", f"{pol.ref}::validated", ok, "value read from configuration and validated against the three names" if ok else "policy() changed", loc(pol, pol.node))
    get = repo.func(EOP, "EopDb.get")
    tries = [s for s in body_without_doc(get.node) if isinstance(s, ast.Try)]
    if len(tries) != 1 or len(tries[0].handlers) != 1:
        raise AnalysisError(f"{get.ref}: try/except shape not recognised")
    t = tries[0]
    h = t.handlers[0]
    caught = unparse(h.type)
    ok = caught.replace(" ", "") in ("(EopError,KeyError)", "(KeyError,EopError)")
    chk.inst("R03.4", f"{get.ref}::caught", ok, "missing day (KeyError) and missing database (EopError) are the covered faults" if ok else f"catches {caught}", loc(get, h))
    ok = len(t.body) == 1 and unparse(t.body[0]) == f"value = cls.db({get.params()[2]})[{get.params()[1]}]"
    chk.inst("R03.4", f"{get.ref}::lookup", ok, "lookup by the given mjd in the configured database" if ok else f"{[unparse(s) for s in t.body]}", loc(get, t))
    # policy dispatch
    ifs = [s for s in h.body if isinstance(s, ast.If) and "policy()" in unparse(s.test)]
    good = False
    what = "policy dispatch not recognised"
    if len(ifs) == 1:
        a1 = ifs[0]
        a2 = a1.orelse[0] if len(a1.orelse) == 1 and isinstance(a1.orelse[0], ast.If) else None
        arms = {}
        for a in (a1, a2):
            if a is None:
                continue
            tr = cmp_triples(a.test)
            if len(tr) == 1 and unparse(tr[0][0]) == "cls.policy()" and tr[0][1] == "==":
                arms[unparse(tr[0][2])] = a.body
        warn, err = arms.get("cls.WARN"), arms.get("cls.ERROR")
        w_ok = warn is not None and len(warn) == 1 and unparse(warn[0]).startswith("log.warning(") and not any(isinstance(x, ast.Raise) for x in ast.walk(warn[0]))
        e_ok = err is not None and len(err) == 1 and isinstance(err[0], ast.Raise) and err[0].exc is None
        no_else = a2 is not None and not a2.orelse
        good = w_ok and e_ok and no_else
        what = "warning logs and continues; error re-raises; pass falls through silently" if good else f"warn arm ok={w_ok}, error arm ok={e_ok}, silent pass={no_else}"
    chk.inst("R03.4", f"{get.ref}::policy-dispatch", good, what, loc(get, h))
    # nothing is logged outside the WARN arm
    logs = [n for n in ast.walk(get.node) if isinstance(n, ast.Call) and unparse(n.func).startswith("log.")]
    chk.inst("R03.4", f"{get.ref}::silent-pass", len(logs) == 1, "exactly one logging call (in the warning arm)" if len(logs) == 1 else f"{len(logs)} logging calls", loc(get, get.node))
    # fall-through builds an all-zero Eop with the nine fields
    fields = _eop_fields(chk)
    zero = [s for s in h.body if isinstance(s, ast.Assign) and unparse(s.targets[0]) == "value"]
    ok = False
    what = "fallback Eop not found"
    if len(zero) == 1 and isinstance(zero[0].value, ast.Call) and unparse(zero[0].value.func) == "Eop":
        kws = {k.arg: const_value(k.value) for k in zero[0].value.keywords}
        ok = set(kws) == set(fields) and all(v == 0 for v in kws.values()) and h.body[-1] is zero[0]
        what = "fallback supplies all nine fields as zero" if ok else f"fallback fields {kws} vs Eop fields {sorted(fields)}"
    chk.inst("R03.4", f"{get.ref}::zero-fallback", ok, what, loc(get, h))
    rets = [s for s in body_without_doc(get.node) if isinstance(s, ast.Return)]
    ok = len(rets) == 1 and unparse(rets[0].value) == "value"
    chk.inst("R03.4", f"{get.ref}::returns-value", ok, "returns the looked-up or fallback record", loc(get, get.node), nontrivial=False)
    chk.floor("R03.4", 9)


def _eop_fields(chk):
    init = chk.repo.func(EOP, "Eop.__init__")
    fields = {}
    for s in body_without_doc(init.node):
        if isinstance(s, ast.Assign) and unparse(s.targets[0]).startswith("self."):
            fields[unparse(s.targets[0])[5:]] = unparse(s.value)
    return fields


def r03_5(chk):
    d = chk.repo.cls(DATE, "Date")
    slots = d.attrs.get("__slots__")
    ok = slots is not None and sorted(e.value for e in slots.elts) == sorted(["_d", "_s", "_offset", "scale", "_cache", "eop"])
    chk.inst("R03.5", f"{DATE}::Date.__slots__", ok, "fixed set of slots" if ok else "slots changed", DATE)
    for name in ("__setattr__", "__delattr__"):
        f = d.methods.get(name)
        body = body_without_doc(f.node) if f else []
        ok = len(body) == 1 and isinstance(body[0], ast.Raise)
        chk.inst("R03.5", f"{DATE}::Date.{name}", ok, "always raises" if ok else "does not simply raise", loc(f, f.node) if f else DATE)
    for f in list(d.methods.values()) + list(d.setters.values()):
        n_super = [n for n in ast.walk(f.node) if isinstance(n, ast.Call) and unparse(n.func) in ("super().__setattr__", "object.__setattr__")]
        if n_super:
            ok = f.name in ("__init__", "__setstate__")
            chk.inst("R03.5", f"{f.ref}::writes-slots", ok, f"{len(n_super)} slot writes at construction" if ok else "slot written outside construction", loc(f, f.node))
        if d.setters:
            pass
    chk.inst("R03.5", f"{DATE}::Date::no-setters", not d.setters, "no property setters", DATE, nontrivial=False)
    # the slots written by __init__ are exactly the six
    init = d.methods["__init__"]
    written = sorted(n.args[0].value for n in ast.walk(init.node) if isinstance(n, ast.Call) and unparse(n.func) == "super().__setattr__")
    ok = written == sorted(["_d", "_s", "_offset", "scale", "_cache", "eop"])
    chk.inst("R03.5", f"{init.ref}::all-slots", ok, "constructor sets every slot" if ok else f"writes {written}", loc(init, init.node))
    # __add__
    f = d.methods["__add__"]
    other = f.params()[1]
    rets = [s for s in ast.walk(f.node) if isinstance(s, ast.Return)]
    ok = len(rets) == 1 and unparse(rets[0].value).replace(" ", "") == "self.__class__(self.d+int(days),sec,scale=self.scale)"
    dm = [s for s in ast.walk(f.node) if isinstance(s, ast.Assign) and unparse(s.targets[0]).strip("()") == "days, sec"]
    ok = ok and len(dm) == 1 and unparse(dm[0].value).replace(" ", "") in (f"divmod({other}.total_seconds()+self.s,86400)", f"divmod(self.s+{other}.total_seconds(),86400)")
    chk.inst("R03.5", f"{f.ref}::rebuild", ok, "new Date from (d + days, sec) of the own scale, scale kept" if ok else "shape changed (scale=self.scale must accompany label-relative d, s)", loc(f, f.node))
    # __sub__
    f = d.methods["__sub__"]
    other = f.params()[1]
    arms = {}
    st = body_without_doc(f.node)[0]
    while isinstance(st, ast.If):
        arms[unparse(st.test)] = st.body
        st = st.orelse[0] if len(st.orelse) == 1 else None
    a = arms.get(f"isinstance({other}, Date)")
    ok = a is not None and len(a) == 1 and unparse(a[0]) == f"return self._datetime - {other}._datetime"
    chk.inst("R03.5", f"{f.ref}::Date-Date", ok, "difference of instants in the reference scale" if ok else "Date − Date no longer uses _datetime on both sides", loc(f, f.node))
    a = arms.get(f"isinstance({other}, timedelta)")
    ok = a is not None and len(a) == 1 and unparse(a[0]).replace(" ", "") == f"{other}=timedelta(seconds=-{other}.total_seconds())"
    tail = body_without_doc(f.node)[-1]
    ok = ok and unparse(tail) == f"return self.__add__({other})"
    chk.inst("R03.5", f"{f.ref}::Date-timedelta", ok, "d − t = d + (−t)" if ok else "shape changed", loc(f, f.node))
    # _datetime
    f = d.methods["_datetime"]
    ok = "self.MJD_T0 + timedelta(days=self._d, seconds=self._s)" in unparse(f.node)
    chk.inst("R03.5", f"{f.ref}", ok, "reference-scale datetime from (_d, _s)" if ok else "changed", loc(f, f.node))
    f = d.methods["datetime"]
    ok = "self._datetime - timedelta(seconds=self._offset)" in unparse(f.node)
    chk.inst("R03.5", f"{f.ref}", ok, "label-relative datetime = reference − offset" if ok else "changed", loc(f, f.node))
    # change_scale
    f = d.methods["change_scale"]
    new = f.params()[1]
    body = [unparse(s).replace(" ", "") for s in body_without_doc(f.node)]
    ok = body == [f"offset=self.scale.offset(self._mjd,{new},self.eop)", "result=self.datetime+timedelta(seconds=offset)", f"returnself.__class__(result,scale={new})"]
    chk.inst("R03.5", f"{f.ref}", ok, "own reading + offset(own→new), labelled with the new scale" if ok else f"{body}", loc(f, f.node))
    # now()
    f = d.methods["now"]
    rets = [s for s in body_without_doc(f.node) if isinstance(s, ast.Return)]
    ok = len(rets) == 1 and unparse(rets[0].value) == f"cls(datetime.utcnow()).change_scale({f.params()[1]})"
    chk.inst("R03.5", f"{f.ref}", ok, "UTC clock reading converted to the requested scale" if ok else "changed", loc(f, f.node))
    # _convert_dt
    f = d.methods["_convert_dt"]
    rets = [s for s in body_without_doc(f.node) if isinstance(s, ast.Return)]
    ok = len(rets) == 1 and unparse(rets[0].value).replace(" ", "") == "(delta.days,delta.seconds+delta.microseconds*1e-06)"
    chk.inst("R03.5", f"{f.ref}", ok, "days and seconds (with microseconds) since MJD origin" if ok else f"{unparse(rets[0].value) if rets else '?'}", loc(f, f.node))
    # accessors mjd / jd / julian_century
    for name, want in (("mjd", "self.d+self.s/86400.0"), ("jd", "self.mjd+self.JD_MJD"), ("julian_century", "self._julian_century(self.jd)"),
                       ("d", "self._convert_to_scale()[0]"), ("s", "self._convert_to_scale()[1]")):
        f = d.methods[name]
        rets = [s for s in body_without_doc(f.node) if isinstance(s, ast.Return)]
        ok = len(rets) == 1 and unparse(rets[0].value).replace(" ", "") == want
        chk.inst("R03.5", f"{f.ref}", ok, want if ok else f"{unparse(rets[0].value) if rets else '?'}", loc(f, f.node))
    chk.floor("R03.5", 18)


# ---- R03.6: floor/mod algebra -------------------------------------------------------------------------------------------

def r03_6(chk):
    """Constructor: d1 = d + floor((s+o)/D); s1 = (s+o) mod D.   Accessor: s' = (s1 - o) mod D; d' = d1 - floor((s'+o)/D).
    With 0 <= s < D:  s' = ((s+o) mod D - o) mod D = s mod D = s, hence d' = d.  Checked structurally: the four expressions
    have exactly these shapes over the same day length and the same offset."""
    d = chk.repo.cls(DATE, "Date")
    init = d.methods["__init__"]
    txt = [unparse(s).replace(" ", "") for s in body_without_doc(init.node)]
    ok1 = "d+=int((s+offset)//86400)" in txt
    ok2 = "s=(s+offset)%86400.0" in txt
    order = ok1 and ok2 and txt.index("d+=int((s+offset)//86400)") < txt.index("s=(s+offset)%86400.0")
    chk.inst("R03.6", f"{init.ref}::carry", ok1 and order, "day carry floor((s+offset)/86400) computed from the un-wrapped seconds" if ok1 and order else "carry changed or computed after wrapping", loc(init, init.node))
    chk.inst("R03.6", f"{init.ref}::wrap", ok2, "seconds wrapped into [0, 86400)" if ok2 else "wrap changed", loc(init, init.node))
    ok = "offset=scale.offset(mjd,self.REF_SCALE,eop)" in txt and "mjd=d+s/86400.0" in txt
    chk.inst("R03.6", f"{init.ref}::offset", ok, "offset = (reference − own scale) at this date" if ok else "offset computation changed", loc(init, init.node))
    conv = d.methods["_convert_to_scale"]
    t2 = [unparse(s).replace(" ", "") for s in body_without_doc(conv.node)]
    ok = t2 == ["d=self._d", "s=(self._s-self._offset)%86400.0", "d-=int((s+self._offset)//86400)", "return(d,s)"]
    chk.inst("R03.6", f"{conv.ref}::inverse", ok, "s' = (_s − offset) mod D; d' = _d − floor((s' + offset)/D): exact inverse of the constructor for 0 ≤ s < D" if ok else f"{t2}", loc(conv, conv.node))
    # float MJD split
    ok = "d=int(arg)" in unparse(init.node).replace(" ", "") and "s=(arg-d)*86400" in unparse(init.node).replace(" ", "")
    chk.inst("R03.6", f"{init.ref}::mjd-split", ok, "float MJD split into integer day and seconds" if ok else "changed", loc(init, init.node))
    ok = "d=arg.d" in unparse(init.node).replace(" ", "") and "s=arg.s" in unparse(init.node).replace(" ", "") and "scale=arg.scale" in unparse(init.node).replace(" ", "")
    chk.inst("R03.6", f"{init.ref}::copy-constructor", ok, "Date(date) copies the label-relative reading together with its scale" if ok else "copy constructor drops the scale", loc(init, init.node))
    chk.floor("R03.6", 6)


def r03_7(chk):
    d = chk.repo.cls(DATE, "Date")
    init = d.methods["__init__"]
    calls = [n for n in ast.walk(init.node) if isinstance(n, ast.Call) and unparse(n.func) == "EopDb.get"]
    if len(calls) != 1:
        raise AnalysisError(f"{init.ref}: EopDb.get call not found")
    arg = calls[0].args[0]
    # data dependence of the key on `scale`: transitive closure over reaching definitions
    from ..flow import reaching
    flow = reaching(init.node)
    deps = set()
    todo = [n for n in ast.walk(arg) if isinstance(n, ast.Name)]
    seen = set()
    while todo:
        n = todo.pop()
        if id(n) in seen:
            continue
        seen.add(id(n))
        deps.add(n.id)
        for df in flow.defs_of(n):
            vals = []
            if df[0] in ("assign", "unpack"):
                vals.append(df[1])
            elif df[0] == "aug":
                vals.append(df[3])
                for p in df[4]:
                    if p[0] in ("assign", "unpack"):
                        vals.append(p[1])
            for v in vals:
                todo.extend(x for x in ast.walk(v) if isinstance(x, ast.Name) and isinstance(x.ctx, ast.Load))
    ok = "scale" in deps or "offset" in deps
    chk.inst("R03.7", f"{init.ref}::EopDb.get({unparse(arg)})", ok,
             "the EOP day depends on the instant" if ok else
             f"the key `{unparse(arg)}` is the label-relative reading (depends on {sorted(deps)} only): the tables are indexed by UTC day, "
             f"so the same instant near UTC midnight gets another day's record when labelled TAI/TT/GPS", loc(init, calls[0]))


def r03_8(chk):
    repo = chk.repo
    # SimpleEopDatabase: day key int(mjd); tai_utc scans reversed table with date <= mjd and raises KeyError when before the table
    f = repo.func(EOP, "SimpleEopDatabase.finals")
    ok = unparse(body_without_doc(f.node)[0]).replace(" ", "") == f"returnself._finals[int({f.params()[1]})].copy()"
    chk.inst("R03.8", f"{f.ref}", ok, "record of the integer day, copied" if ok else "changed", loc(f, f.node))
    f = repo.func(EOP, "SimpleEopDatabase.tai_utc")
    loops = [s for s in body_without_doc(f.node) if isinstance(s, ast.For)]
    ok = len(loops) == 1 and unparse(loops[0].iter) == "reversed(self._tai_utc)" and \
        unparse(loops[0].body[0]).replace(" ", "").startswith(f"ifdate<={f.params()[1]}:") and \
        loops[0].orelse and isinstance(loops[0].orelse[0], ast.Raise)
    chk.inst("R03.8", f"{f.ref}", ok, "latest leap-second entry at or before the date; KeyError before the table" if ok else "changed", loc(f, f.node))
    f = repo.func(EOP, "SimpleEopDatabase.__getitem__")
    body = [unparse(s).replace(" ", "") for s in body_without_doc(f.node)]
    k = f.params()[1]
    ok = body == [f"data=self.finals({k})", f"data['tai_utc']=self.tai_utc({k})", "returnEop(**data)"]
    chk.inst("R03.8", f"{f.ref}", ok, "finals of the day + TAI−UTC of the day" if ok else f"{body}", loc(f, f.node))
    f = repo.func(EOP, "TaiUtc.__init__")
    txt = unparse(f.node).replace(" ", "")
    ok = "mjd=int(float(line[4])-2400000.5)" in txt and "value=float(line[6])" in txt and "self.data.append((mjd,value))" in txt
    chk.inst("R03.8", f"{f.ref}", ok, "token 4 = JD of the step, token 6 = TAI−UTC" if ok else "token indices changed", loc(f, f.node))
    f = repo.func(EOP, "TaiUtc.__getitem__")
    loops = [s for s in body_without_doc(f.node) if isinstance(s, ast.For)]
    ok = len(loops) == 1 and unparse(loops[0].iter) == "reversed(self.data)" and unparse(loops[0].body[0]).replace(" ", "").startswith(f"ifmjd<={f.params()[1]}:")
    chk.inst("R03.8", f"{f.ref}", ok, "latest entry at or before the date" if ok else "changed", loc(f, f.node))
    f = repo.func(EOP, "SimpleEopDatabase.__init__")
    txt = unparse(f.node)
    ok = "Finals(path / f'finals.{type}')" in txt and "Finals2000A(path / f'finals2000A.{type}')" in txt and "TaiUtc(path / 'tai-utc.dat')" in txt \
        and "self._finals[date].update(f2[date])" in txt
    chk.inst("R03.8", f"{f.ref}", ok, "1980 and 2000A series merged per day" if ok else "changed", loc(f, f.node))
    chk.floor("R03.8", 6)



def r03_9(chk):
    """No Date is built at import time.  The EOP database is instantiated -- and a failure to do so cached for the rest of the
    process -- by the first `Date(...)`; the documented way to choose the database, its folder and the missing-data policy is
    `config.update(...)` after the imports.  A module-level `X = Date(...)` anywhere in the package therefore freezes the
    unconfigured state (wave l: a convenience constant in beyond/dates/__init__.py -> zero corrections for every date)."""
    n = 0
    for rel, m in sorted(chk.repo.modules.items()):
        tree = ast.parse(m.source)

        def walk(stmts):
            for st in stmts:
                if isinstance(st, (ast.FunctionDef, ast.AsyncFunctionDef)):
                    # decorators and defaults are evaluated at import time
                    for d in st.decorator_list + st.args.defaults + [k for k in st.args.kw_defaults if k is not None]:
                        yield d
                    continue
                if isinstance(st, ast.ClassDef):
                    yield from walk(st.body)
                    continue
                if isinstance(st, ast.If) and "__name__" in unparse(st.test):
                    continue
                yield st
        bad = []
        for node in walk(tree.body):
            for c in ast.walk(node):
                if isinstance(c, (ast.Lambda,)):
                    continue
                if isinstance(c, ast.Call):
                    t = unparse(c.func)
                    if t == "Date" or t.startswith("Date.") or t.endswith(".Date") or ".Date." in t:
                        bad.append(unparse(c)[:60])
        n += 1
        chk.inst("R03.9", rel, not bad, "no Date built at import time" if not bad else
                 f"import-time `{bad[0]}`: the EOP database is instantiated before the program can configure it", rel, nontrivial=bool(bad))
    chk.floor("R03.9", 50)


def run(chk):
    chk.rule("R03.1", "scale graph is a tree with one provider per link; exact offsets; add/subtract orientation")
    chk.rule("R03.2", "order, equality and hash use one invariant key")
    chk.rule("R03.3", "DateRange treats forward and backward ranges symmetrically (H2)")
    chk.rule("R03.4", "missing-data policy is exhaustive and as documented")
    chk.rule("R03.5", "Date is immutable; arithmetic rebuilds with the scale; accessors as defined")
    chk.rule("R03.6", "constructor normalisation and accessor are exact inverses")
    chk.rule("R03.7", "EOP record chosen by the instant")
    chk.rule("R03.8", "IERS day lookup and leap-second table")
    chk.guard(r03_1, chk)
    chk.guard(r03_2, chk)
    chk.guard(r03_3, chk)
    chk.guard(r03_4, chk)
    chk.guard(r03_5, chk)
    chk.guard(r03_6, chk)
    chk.guard(r03_7, chk)
    chk.guard(r03_8, chk)
    chk.rule("R03.9", "no Date is built at import time (the first Date instantiates the EOP database, before any configuration)")
    chk.guard(r03_9, chk)
    # "UT1−UTC … as tabulated by IERS for that day": the column layout of the IERS readers and the unit constants at the
    # consumers are C02's clause R02.6; C03 needs it as much (a second sub-agent's C03 change was the sign column of UT1−UTC)
    from .c02 import r02_6
    chk.rule("R02.6", "(C03 dependency) EOP tables: fields, IERS column layout, unit constants at consumers")
    chk.guard(r02_6, chk)
    from .c02 import r02_6b
    chk.guard(r02_6b, chk)
    chk.assume("TT−TAI = 32.184 s, TAI−GPS = 19 s, TDB−TT series of the Astronomical Almanac (two terms)")
