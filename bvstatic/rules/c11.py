"""C11 — ground-station geometry matches independent geodesy (symbolic + wiring clauses).

R11.1 axes: the columns of rot3(−lon) @ rot2(lat − π/2) @ rot3(π) are north, west and up of the geodetic point
R11.2 geodetic formula: N = a/√(1 − e² sin²φ); ((N+h) cosφ cosλ, (N+h) cosφ sinλ, (N(1−e²)+h) sinφ, 0, 0, 0); e = √(2f − f²)
R11.3 wiring of create_station: first two entries to radians; centre linked to the parent's centre with the offset in the
      parent's orientation; orientation registered under <name>_to_<parent>
R11.4 horizon mask: modulo 2π; exact-node return; linear formula; wrap (index −1 with x0 = 0)
R11.5 measures: Range = r × (legs), Azimut = θ, Elevation = φ, Doppler = ṙ, each from the topocentric spherical state
"""
import ast

from .. import terms as T
from ..model import AnalysisError, body_without_doc, loc, unparse
from ..terms import Extract, F, Poly
from .c02 import rot_closures

ORIENT = "beyond/frames/orient.py"
STA = "beyond/frames/stations.py"
MEAS = "beyond/utils/measures.py"
CONST = "beyond/constants.py"


def r11_1(chk):
    rots = rot_closures(chk)
    init = chk.repo.func(ORIENT, "TopocentricOrientation.__init__")
    lat, lon = Poly.atom("lat"), Poly.atom("lon")
    e = Extract({**rots, "lat": lat, "lon": lon})
    M = None
    for st in body_without_doc(init.node):
        if isinstance(st, ast.Assign) and unparse(st.targets[0]) == "self._m":
            M = e.ev(st.value)
    if M is None or not T.is_mat(M):
        raise AnalysisError(f"{init.ref}: self._m not extractable")
    cl, sl = T.trig("cos", lat), T.trig("sin", lat)
    co, so = T.trig("cos", lon), T.trig("sin", lon)
    axes = {"north": [-(sl * co), -(sl * so), cl], "west": [so, -co, Poly()], "up": [cl * co, cl * so, sl]}
    where = loc(init, init.node)
    for j, (name, ref) in enumerate(axes.items()):
        for i in range(3):
            ok = T.equal(M[i][j], ref[i])
            chk.obl("R11.1", f"{init.ref}::{name}[{i}]", ok, f"column {j} is the local {name} direction" if ok else
                    f"M[{i}][{j}] = {T.fmt(M[i][j])}, local {name} has {T.fmt(ref[i])}", where)
    un = [s for s in body_without_doc(init.node) if isinstance(s, ast.Assign) and unparse(s.targets[0]).strip("()") == "lat, lon"]
    ok = len(un) == 1 and unparse(un[0].value) == "latlonalt[:-1]"
    chk.inst("R11.1", f"{init.ref}::lat-lon-order", ok, "(lat, lon) are the first two entries of latlonalt" if ok else "changed", where)
    tp = chk.repo.func(ORIENT, "TopocentricOrientation._to_parent")
    ok = "return (self._m, None)" in unparse(tp.node)
    chk.inst("R11.1", f"{tp.ref}", ok, "station axes are fixed in the parent (Earth-fixed) orientation: no rate" if ok else "changed", loc(tp, tp.node))
    chk.floor("R11.1", 11)


def r11_2(chk):
    f = chk.repo.func(STA, "TopocentricFrame._geodetic_to_cartesian")
    lat, lon, alt = (Poly.atom(n) for n in f.params()[1:4])
    ex = Extract()
    ex.run(body_without_doc(f.node))
    v = ex.env.get("return")
    if not isinstance(v, list) or len(v) != 6:
        raise AnalysisError(f"{f.ref}: returned vector not extractable")
    a, e = Poly.atom("Earth.r"), Poly.atom("Earth.e")
    sl, cl = T.trig("sin", lat), T.trig("cos", lat)
    so, co = T.trig("sin", lon), T.trig("cos", lon)
    N = a / T.power(1 - e * e * sl * sl, F(1, 2))
    want = [(N + alt) * cl * co, (N + alt) * cl * so, (N * (1 - e * e) + alt) * sl, Poly(), Poly(), Poly()]
    names = ["x", "y", "z", "vx", "vy", "vz"]
    for i in range(6):
        ok = T.equal(v[i], want[i])
        chk.obl("R11.2", f"{f.ref}::{names[i]}", ok, "WGS-84 closed form" if ok else f"{T.fmt(v[i])} != {T.fmt(want[i])}", loc(f, f.node))
    ecc = chk.repo.func(CONST, "Body.eccentricity")
    val = Extract().run(body_without_doc(ecc.node)).get("return")
    fl = Poly.atom("self.f")
    ok = isinstance(val, Poly) and T.equal(val * val, 2 * fl - fl * fl)
    chk.obl("R11.2", f"{ecc.ref}", ok, "e² = 2f − f²" if ok else f"e = {T.fmt(val) if isinstance(val, Poly) else val}", loc(ecc, ecc.node))
    body = chk.repo.func(CONST, "Body.__getattr__")
    t = unparse(body.node)
    ok = all(x in t for x in ("'r': 'equatorial_radius'", "'f': 'flattening'", "'e': 'eccentricity'", "'m': 'mass'"))
    chk.inst("R11.2", f"{body.ref}::aliases", ok, "r, f, e, m are the equatorial radius, flattening, eccentricity, mass" if ok else "alias table changed", loc(body, body.node))
    earth = chk.repo.module(CONST).assigns.get("Earth")
    t = unparse(earth) if earth is not None else ""
    ok = "equatorial_radius=6378136.3" in t and "flattening=1 / 298.257223563" in t
    chk.inst("R11.2", f"{CONST}::Earth", ok, "a = 6378136.3 m, 1/f = 298.257223563" if ok else "Earth constants changed", CONST)
    chk.floor("R11.2", 9)


def r11_3(chk):
    f = chk.repo.func(STA, "create_station")
    name, lla, parent = f.params()[0:3]
    t = unparse(f.node)
    ok = f"{lla} = list({lla})" in t and f"{lla}[:2] = np.radians({lla}[:2])" in t and f"coordinates = TopocentricFrame._geodetic_to_cartesian(*{lla})" in t
    chk.inst("R11.3", f"{f.ref}::degrees-to-radians", ok, "exactly latitude and longitude are converted to radians; altitude stays in metres" if ok else "changed", loc(f, f.node))
    ok = f"c = center.Center({name}, body={parent}.center.body)" in t and f"c.add_link({parent}.center, {parent}.orientation, coordinates)" in t
    chk.inst("R11.3", f"{f.ref}::centre", ok, "station centre linked to the parent's centre, offset expressed in the parent's orientation" if ok else "changed", loc(f, f.node))
    ok = f"o = orient.TopocentricOrientation({name}, {lla}, parent={parent}.orientation)" in t and "return TopocentricFrame(name, o, c, mask=mask)".replace("name", name) in t
    chk.inst("R11.3", f"{f.ref}::orientation", ok, "topocentric orientation under the parent's orientation; frame = (orientation, centre)" if ok else "changed", loc(f, f.node))
    ok = "parent_frame=frames.WGS84" in t.replace(parent, "parent_frame")
    chk.inst("R11.3", f"{f.ref}::default-parent", ok, "default parent is the Earth-fixed frame" if ok else "changed", loc(f, f.node))
    chk.floor("R11.3", 4)


def r11_4(chk):
    f = chk.repo.func(STA, "TopocentricFrame.get_mask")
    az = f.params()[1]
    body = body_without_doc(f.node)
    t = [unparse(s).replace(" ", "") for s in body]
    ok = f"{az}%=2*np.pi" in t
    chk.inst("R11.4", f"{f.ref}::modulo", ok, "azimuth reduced modulo 2π" if ok else "changed", loc(f, f.node))
    ok = any(isinstance(s, ast.If) and unparse(s.test).replace(" ", "") == f"{az}inself.mask[0,:]" and
             unparse(s.body[0]).replace(" ", "") == f"returnself.mask[1,np.where({az}==self.mask[0,:])[0][0]]" for s in body)
    chk.inst("R11.4", f"{f.ref}::exact-node", ok, "an azimuth of the table returns its elevation" if ok else "changed", loc(f, f.node))
    loops = [s for s in body if isinstance(s, ast.For)]
    ok = len(loops) == 1 and unparse(loops[0].iter) == "enumerate(self.mask[0, :])" and unparse(loops[0].body[0]).replace(" ", "") == f"ifmask_azim>{az}:\n    break".replace(" ", "") \
        and [unparse(s).replace(" ", "") for s in loops[0].orelse] == ["next_i=0"]
    chk.inst("R11.4", f"{f.ref}::bracket", ok, "first node strictly after the azimuth; none → wrap to the first" if ok else "changed", loc(f, f.node))
    ok = "x0,y0=self.mask[:,next_i-1]" in t and "x1,y1=self.mask[:,next_i]" in t
    chk.inst("R11.4", f"{f.ref}::nodes", ok, "previous and next nodes (index −1 wraps to the last, the value given at 2π)" if ok else "changed", loc(f, f.node))
    ok = any(isinstance(s, ast.If) and unparse(s.test).replace(" ", "") == "next_i-1==-1" and [unparse(x).replace(" ", "") for x in s.body] == ["x0=0"] for s in body)
    chk.inst("R11.4", f"{f.ref}::wrap", ok, "before the first node the previous abscissa is 0 (the 2π value serves at 0)" if ok else "changed", loc(f, f.node))
    rets = [s for s in body if isinstance(s, ast.Return)]
    val = Extract().ev(rets[-1].value) if rets else None
    x0, x1, y0, y1, X = (Poly.atom(n) for n in ("x0", "x1", "y0", "y1", az))
    ok = val is not None and T.equal(val, y0 + (y1 - y0) * (X - x0) / (x1 - x0))
    chk.obl("R11.4", f"{f.ref}::linear", ok, "y0 + (y1 − y0)(az − x0)/(x1 − x0)" if ok else f"{T.fmt(val) if val is not None else '?'}", loc(f, f.node))
    from ..ownership import Fresh, stores_through
    fr = Fresh(f, chk.repo)
    bad = []
    for text, root_, node in stores_through(f, fr.flow):
        vals = fr.classify(root_)
        if any(v != "fresh" and v[0] in ("alias", "view") and v[1] != "self" for v in vals) or unparse(root_).startswith("self.mask"):
            bad.append(text)
    chk.inst("R11.4", f"{f.ref}::table-not-written", not bad, "the mask table is only read (a query cannot change later answers)" if not bad else
             f"{bad} writes into the station's mask table (numpy slices are views): a query in the wrap segment corrupts the table for every later query", loc(f, f.node))
    chk.floor("R11.4", 7)


def r11_5(chk):
    want = {"Azimut": "theta", "Elevation": "phi", "Doppler": "r_dot"}
    for cls, attr in want.items():
        f = chk.repo.func(MEAS, f"{cls}.from_orbit")
        o = f.params()[1]
        rets = [s for s in body_without_doc(f.node) if isinstance(s, ast.Return)]
        ok = len(rets) == 1 and unparse(rets[0].value).replace(" ", "") == f"self.__class__(self.path,{o}.date,{o}.copy(frame=self.frame,form='spherical').{attr})"
        chk.inst("R11.5", f"{f.ref}", ok, f"{cls} = {attr} of the topocentric spherical state at the orbit's date" if ok else f"{unparse(rets[0].value) if rets else '?'}", loc(f, f.node))
    f = chk.repo.func(MEAS, "Range.from_orbit")
    o = f.params()[1]
    rets = [s for s in body_without_doc(f.node) if isinstance(s, ast.Return)]
    ok = len(rets) == 1 and unparse(rets[0].value).replace(" ", "") == f"self.__class__(self.path,{o}.date,{o}.copy(frame=self.frame,form='spherical').r*(len(self.path)-1))"
    chk.inst("R11.5", f"{f.ref}", ok, "Range = r × number of legs of the signal path" if ok else f"{unparse(rets[0].value) if rets else '?'}", loc(f, f.node))
    sm = chk.repo.cls(MEAS, "StationMeasure")
    ok = "return self.path[0]" in unparse(sm.methods["frame"].node) and "self.path = tuple(path)" in unparse(sm.methods["__init__"].node)
    chk.inst("R11.5", f"{sm.ref}::frame", ok, "the measuring station is the first element of the path" if ok else "changed", loc(sm.module, sm.node))
    chk.floor("R11.5", 5)


def run(chk):
    chk.rule("R11.1", "topocentric axes are north / west / up (term algebra with shift rules)")
    chk.rule("R11.2", "WGS-84 geodetic → cartesian closed form (term algebra)")
    chk.rule("R11.3", "create_station wiring")
    chk.rule("R11.4", "horizon mask interpolation and wrap")
    chk.rule("R11.5", "simulated measures are the topocentric spherical quantities")
    chk.guard(r11_1, chk)
    chk.guard(r11_2, chk)
    chk.guard(r11_3, chk)
    chk.guard(r11_4, chk)
    chk.guard(r11_5, chk)
    chk.assume("north (−sinφ cosλ, −sinφ sinλ, cosφ), west (sinλ, −cosλ, 0), up (cosφ cosλ, cosφ sinλ, sinφ) for geodetic latitude φ and longitude λ")
    chk.assume("rot1/2/3 are the proper rotations decided under C02 (R02.4)")
