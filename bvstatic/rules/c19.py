"""C19 — mission-design helpers are consistent with the dynamics they target.

R19.1 Lambert: Newton update z ← z − F/F′ leaving when |F/F′| is BELOW the tolerance (H1); Stumpff functions, y, A and the
      Lagrange coefficients as in Curtis §5.3
R19.2 algebraic inverses: ltan2raan ∘ raan2ltan = id (mod 2π) with consistent moduli; the three arms of sso() solve one
      relation, and that relation is dΩ_J2 = mean solar rate with dΩ taken from j2.py; Walker spacing and phasing
R19.3 by construction: beta = arcsin of the normalised dot product with the orbit normal; B-plane vectors
"""
import ast

from .. import terms as T
from ..model import AnalysisError, body_without_doc, cmp_triples, const_value, loc, unparse
from ..terms import Extract, F, Poly, Unsupported
from .common import abs_compare

LAM = "beyond/utils/lambert.py"
LEO = "beyond/utils/leo.py"
LTAN = "beyond/utils/ltan.py"
CONS = "beyond/utils/constellation.py"
BETA = "beyond/utils/beta.py"
INTER = "beyond/utils/interplanetary.py"
J2 = "beyond/propagators/j2.py"


def r19_1(chk):
    repo = chk.repo
    f = repo.func(LAM, "_lambert")
    loops = [s for s in body_without_doc(f.node) if isinstance(s, ast.For)]
    if len(loops) != 1:
        raise AnalysisError(f"{f.ref}: Newton loop not found")
    lp = loops[0]
    b = [unparse(s).replace(" ", "") for s in lp.body]
    ok = b[0] == "ratio=_F(nr0,nr1,A,z,duration,mu)/_dF(nr0,nr1,A,z)" and b[1] == "z-=ratio"
    chk.inst("R19.1", f"{f.ref}::newton-update", ok, "z ← z − F(z)/F′(z)" if ok else f"{b[:2]}", loc(f, lp))
    ifs = [s for s in lp.body if isinstance(s, ast.If)]
    ok = False
    what = "exit test not found"
    if len(ifs) == 1:
        ac = abs_compare(ifs[0].test)
        if ac:
            _, op, thr = ac
            ok = op in ("<", "<=") and unparse(thr) == "tol" and isinstance(ifs[0].body[0], ast.Break)
            what = f"leaves when |F/F′| {op} tol" if ok else \
                f"`if {unparse(ifs[0].test)}: break` leaves the loop while the increment is still ABOVE the tolerance, i.e. after a single Newton step: the returned velocities miss the target by 10²–10³ m in LEO"
    chk.inst("R19.1", f"{f.ref}::exit-polarity", ok, what, loc(f, ifs[0]) if ifs else loc(f, lp))
    tol = [s for s in body_without_doc(f.node) if isinstance(s, ast.Assign) and unparse(s.targets[0]) == "tol"]
    ok = len(tol) == 1 and 0 < const_value(tol[0].value) <= 1e-6 and bool(lp.orelse)
    chk.inst("R19.1", f"{f.ref}::tolerance", ok, f"tol = {unparse(tol[0].value) if tol else '?'}; exhaustion is reported" if ok else "changed", loc(f, f.node))
    t = unparse(f.node)
    ok = "while _F(nr0, nr1, A, z, duration, mu) < 0:\n        z += 0.05" in t and "z = 0" in t
    chk.inst("R19.1", f"{f.ref}::bracketing", ok, "z is advanced until F ≥ 0 before Newton starts (elliptic branch)" if ok else "changed", loc(f, f.node))
    # geometry
    ok = "dtheta = np.arccos(r0 @ r1 / (nr0 * nr1))" in t and "if prograde and cr[2] < 0:\n        dtheta = 2 * np.pi - dtheta\n    elif not prograde and cr[2] >= 0:\n        dtheta = 2 * np.pi - dtheta" in t \
        and "cr = np.cross(r0, r1)" in t
    chk.inst("R19.1", f"{f.ref}::transfer-angle", ok, "short/long way chosen from the z-component of r0 × r1 and the requested direction" if ok else "changed", loc(f, f.node))
    ex = Extract(env={"dtheta": Poly.atom("θ"), "nr0": Poly.atom("r0"), "nr1": Poly.atom("r1")})
    A = None
    for s in body_without_doc(f.node):
        if isinstance(s, ast.Assign) and unparse(s.targets[0]) == "A":
            A = ex.ev(s.value)
    th = Poly.atom("θ")
    ok = isinstance(A, Poly) and T.equal(A * A * (1 - T.trig("cos", th)), T.trig("sin", th) * T.trig("sin", th) * Poly.atom("r0") * Poly.atom("r1"))
    chk.obl("R19.1", f"{f.ref}::A", ok, "A² (1 − cos Δθ) = sin²Δθ · r0 r1" if ok else "A changed", loc(f, f.node))
    ok = "f = 1 - _y(nr0, nr1, A, z) / nr0" in t and "g = A * np.sqrt(abs(_y(nr0, nr1, A, z)) / mu)" in t and "gdot = 1 - _y(nr0, nr1, A, z) / nr1" in t \
        and "v0 = 1 / g * (r1 - f * r0)" in t and "v1 = 1 / g * (gdot * r1 - r0)" in t
    chk.inst("R19.1", f"{f.ref}::lagrange-coefficients", ok, "f = 1 − y/r0, g = A√(y/µ), ġ = 1 − y/r1; v0 = (r1 − f r0)/g, v1 = (ġ r1 − r0)/g" if ok else "changed", loc(f, f.node))
    # Stumpff functions (elliptic arms), y and F
    q = Poly.atom("q")     # q = sqrt(z), z = q²
    for name, want in (("_C", (1 - T.trig("cos", q)) / (q * q)), ("_S", (q - T.trig("sin", q)) / (q * q * q))):
        g = repo.func(LAM, name)
        arm = None
        for s in body_without_doc(g.node):
            if isinstance(s, ast.If):
                tr = cmp_triples(s.test)
                if len(tr) == 1 and unparse(tr[0][0]) == g.params()[0] and tr[0][1] == ">" and unparse(tr[0][2]) == "0":
                    arm = s.body
        if arm is None:
            raise AnalysisError(f"{g.ref}: z > 0 arm not found")
        ex = Extract(subst={f"np.sqrt({g.params()[0]})": q, g.params()[0]: q * q})
        ex.run(arm)
        val = ex.env.get("c" if name == "_C" else "s")
        ok = isinstance(val, Poly) and T.equal(val, want)
        chk.obl("R19.1", f"{g.ref}::elliptic", ok, "Stumpff function for z > 0" if ok else f"{T.fmt(val) if isinstance(val, Poly) else '?'}", loc(g, g.node))
        t2 = unparse(g.node)
        ok = ("c = 1 / 2" in t2) if name == "_C" else ("s = 1 / 6" in t2)
        chk.inst("R19.1", f"{g.ref}::limit", ok, "value at z = 0 is the limit" if ok else "changed", loc(g, g.node))
    y = repo.func(LAM, "_y")
    ok = "return nr0 + nr1 + A * (z * _S(z) - 1) / np.sqrt(_C(z))" in unparse(y.node)
    chk.inst("R19.1", f"{y.ref}", ok, "y(z) = r0 + r1 + A (z S − 1)/√C" if ok else "changed", loc(y, y.node))
    Ff = repo.func(LAM, "_F")
    ok = "return (y_z / _C(z)) ** 1.5 * _S(z) + A * np.sqrt(y_z) - np.sqrt(mu) * duration.total_seconds()" in unparse(Ff.node) and "y_z = _y(nr0, nr1, A, z)" in unparse(Ff.node)
    chk.inst("R19.1", f"{Ff.ref}", ok, "F(z) = (y/C)^{3/2} S + A√y − √µ Δt" if ok else "changed", loc(Ff, Ff.node))
    lam = repo.func(LAM, "lambert")
    t = unparse(lam.node)
    ok = "orb1 = orb1.copy(frame=orb0.frame, form='cartesian')" in t and "duration = orb1.date - orb0.date" in t and "orb0[3:] = v0" in t and "orb1[3:] = v1" in t \
        and "orb0 = orb0.copy(form='cartesian')" in t
    chk.inst("R19.1", f"{lam.ref}", ok, "both states cartesian in the first one's frame; copies are patched with the solution" if ok else "changed", loc(lam, lam.node))
    chk.floor("R19.1", 14)


class ModExtract(Extract):
    """Drops `% 86400` and `% (2π)`: seconds of day and angles are compared modulo one day / one turn."""

    def ev(self, n):
        if isinstance(n, ast.BinOp) and isinstance(n.op, ast.Mod) and const_value(n.right) == 86400:
            return self.ev(n.left)
        return super().ev(n)


def r19_2(chk):
    repo = chk.repo
    r2l = repo.func(LTAN, "raan2ltan")
    l2r = repo.func(LTAN, "ltan2raan")
    sun = Poly.atom("sun_raan")
    e1 = ModExtract(env={"sun_raan": sun})
    ltan = e1.ev([s for s in body_without_doc(r2l.node) if isinstance(s, ast.Return)][-1].value)
    e2 = ModExtract(env={"sun_raan": sun, l2r.params()[1]: ltan})
    for s in body_without_doc(l2r.node):
        if isinstance(s, ast.Assign) and unparse(s.targets[0]) == "solar_angle":
            e2.env["solar_angle"] = e2.ev(s.value)
    back = e2.ev([s for s in body_without_doc(l2r.node) if isinstance(s, ast.Return)][-1].value)
    ok = T.equal(back, Poly.atom(r2l.params()[1]))
    chk.obl("R19.2", f"{LTAN}::ltan2raan∘raan2ltan", ok, "identity modulo one turn" if ok else f"gives {T.fmt(back)}", loc(l2r, l2r.node))
    mods = [const_value(n.right) for n in ast.walk(r2l.node) if isinstance(n, ast.BinOp) and isinstance(n.op, ast.Mod)]
    mods2 = [unparse(n.right).replace(" ", "") for n in ast.walk(l2r.node) if isinstance(n, ast.BinOp) and isinstance(n.op, ast.Mod)]
    ok = mods == [86400] and mods2 == ["2*np.pi"]
    chk.inst("R19.2", f"{LTAN}::moduli", ok, "seconds wrapped to one day, angles to one turn (86400 · π/43200 = 2π)" if ok else f"{mods} / {mods2}", LTAN)
    for fobj in (r2l, l2r):
        t = unparse(fobj.node)
        ok = "if type == 'mean':\n        sun_raan = _mean_sun_raan(date)\n    elif type == 'true':\n        sun_raan = _true_sun_raan(date)" in t
        chk.inst("R19.2", f"{fobj.ref}::sun-source", ok, "mean / true Sun chosen identically in both directions" if ok else "changed", loc(fobj, fobj.node))
    # sso: one relation, three arms
    sso = repo.func(LEO, "sso")
    a, e, i = Poly.atom("a"), Poly.atom("e"), Poly.atom("i")
    w, cst = Poly.atom("ω_e"), Poly.atom("cst")
    arms = {}
    st = [s for s in body_without_doc(sso.node) if isinstance(s, ast.If)][0]
    while isinstance(st, ast.If):
        t = unparse(st.test)
        key = "i" if t.startswith("i is None") else "a" if t.startswith("a is None") else "e" if t.startswith("e is None") else None
        if key:
            arms[key] = st.body[0].value
        st = st.orelse[0] if len(st.orelse) == 1 and isinstance(st.orelse[0], ast.If) else None
    if set(arms) != {"i", "a", "e"}:
        raise AnalysisError(f"{sso.ref}: three arms expected")
    import unicodedata
    env = {unicodedata.normalize("NFKC", "ω_e"): w, "cst": cst}
    ci = T.trig("cos", i)
    # arm i: arccos(X)
    Xn = arms["i"]
    if not (isinstance(Xn, ast.Call) and unparse(Xn.func).endswith("arccos")):
        raise AnalysisError(f"{sso.ref}: inclination arm is not an arccos")
    X = Extract(env=dict(env)).ev(Xn.args[0])
    relation_ok = T.equal(X * cst * 3, -2 * w * T.power(a, F(7, 2)) * T.power(1 - e * e, 2))
    chk.obl("R19.2", f"{sso.ref}::arm-i", relation_ok, "cos i = −(2/3) ω_e a^{7/2} (1−e²)² / cst" if relation_ok else f"cos i = {T.fmt(X)}", loc(sso, sso.node))
    # arm a substituted into X gives cos i; arm e likewise
    a_expr = Extract(env=dict(env)).ev(arms["a"])
    a72 = T.power(a_expr, F(7, 2))
    ok = T.equal(a72 * w * T.power(1 - e * e, 2) * 2, -3 * cst * ci)
    chk.obl("R19.2", f"{sso.ref}::arm-a", ok, "the semi-major-axis arm solves the same relation" if ok else f"a^(7/2) = {T.fmt(a72)}", loc(sso, sso.node))
    e_expr = Extract(env=dict(env)).ev(arms["e"])
    # (1 - e²)² = -3/2 cst cos i / (ω a^{7/2})
    lhs = T.power(1 - e_expr * e_expr, 2)
    ok = T.equal(lhs * w * T.power(a, F(7, 2)) * 2, -3 * cst * ci)
    chk.obl("R19.2", f"{sso.ref}::arm-e", ok, "the eccentricity arm solves the same relation" if ok else f"(1−e²)² = {T.fmt(lhs)}", loc(sso, sso.node))
    # the relation is dΩ_J2 = ω_e with dΩ from j2.py
    j2 = repo.func(J2, "J2.propagate")
    ex = Extract()
    ex.run(body_without_doc(j2.node))
    dO = ex.env.get(unicodedata.normalize("NFKC", "dΩ"))
    mu, Re, J = Poly.atom("Earth.mu"), Poly.atom("Earth.r"), Poly.atom("Earth.J2")
    if not isinstance(dO, Poly):
        raise AnalysisError("J2 node rate not extractable")
    dO = T.subs(dO, {"self.orbit.infos.n": T.power(mu / T.power(a, 3), F(1, 2))})
    cst_def = None
    for s in body_without_doc(sso.node):
        if isinstance(s, ast.Assign) and unparse(s.targets[0]) == "cst":
            cst_def = Extract().ev(s.value)
    ok = isinstance(cst_def, Poly) and T.equal(cst_def, T.power(mu, F(1, 2)) * Re * Re * J)
    chk.obl("R19.2", f"{sso.ref}::cst", ok, "cst = √µ Re² J2" if ok else "changed", loc(sso, sso.node))
    if ok:
        # substitute cos i := X(a, e) with cst expanded
        Xfull = T.subs(X, {"cst": cst_def})
        cos_i = T.func_atom("cos", i)
        rate = T.subs(dO, {cos_i: Xfull})
        ok2 = T.equal(rate, w)
        chk.obl("R19.2", f"{sso.ref}::is-J2-node-rate", ok2, "with that inclination the J2 node drift of j2.py equals the mean solar rate" if ok2 else f"dΩ = {T.fmt(rate)}", loc(sso, sso.node))
    wdef = [s for s in body_without_doc(sso.node) if isinstance(s, ast.Assign) and unicodedata.normalize("NFKC", unparse(s.targets[0])) == unicodedata.normalize("NFKC", "ω_e")]
    ok = len(wdef) == 1 and unparse(wdef[0].value).replace(" ", "") == "2*np.pi/365.256363004/86400"
    chk.inst("R19.2", f"{sso.ref}::solar-rate", ok, "2π per sidereal year" if ok else "changed", loc(sso, sso.node))
    fr = repo.func(LEO, "frozen")
    ok = "return (-Earth.r * np.sin(i) * Earth.J3 / (2 * Earth.J2 * a), np.pi / 2)" in unparse(fr.node)
    chk.inst("R19.2", f"{fr.ref}", ok, "e = −Re sin i J3/(2 J2 a), ω = 90°" if ok else "changed", loc(fr, fr.node))
    sf = repo.func(LEO, "sso_frozen")
    ifs = [n for n in ast.walk(sf.node) if isinstance(n, ast.If) and isinstance(n.body[0], ast.Break)]
    ok = len(ifs) == 1 and abs_compare(ifs[0].test) is not None and abs_compare(ifs[0].test)[1] in ("<", "<=")
    chk.inst("R19.2", f"{sf.ref}::exit-polarity", ok, "fixed-point iteration leaves when the change is below the tolerance" if ok else "polarity changed", loc(sf, sf.node))
    # Walker
    star, delta = repo.cls(CONS, "WalkerStar"), repo.cls(CONS, "WalkerDelta")
    P, Tt, Fp, r0 = Poly.atom("self.planes"), Poly.atom("self.total"), Poly.atom("self.spacing"), Poly.atom("self.raan0")
    pi = Poly.atom(T.PI)
    for cls, turn, name in ((delta, 2 * pi, "delta"), (star, pi, "star")):
        fr_ = cls.methods["raan"]
        k = Poly.atom(fr_.params()[1])
        val = Extract().run(body_without_doc(fr_.node)).get("return")
        ok = isinstance(val, Poly) and T.equal(val, turn / P * k + r0)
        chk.obl("R19.2", f"{fr_.ref}", ok, f"planes evenly spaced over {'2π' if name == 'delta' else 'π'}" if ok else f"{T.fmt(val) if isinstance(val, Poly) else '?'}", loc(fr_, fr_.node))
        fn = cls.methods["nu"]
        ip, isat = fn.params()[1], fn.params()[2]
        per = Tt / P

        def nu_of(kp, ks):
            ex = Extract(env={"self.per_plane": per}, subst={f"self.raan({ip})": turn / P * kp + r0})
            ex.env[ip], ex.env[isat] = kp, ks
            return ex.run(body_without_doc(fn.node)).get("return")
        k0, s0 = Poly.atom("k"), Poly.atom("s")
        d_plane = nu_of(k0 + 1, s0) - nu_of(k0, s0)
        d_sat = nu_of(k0, s0 + 1) - nu_of(k0, s0)
        ok = T.equal(d_sat, 2 * pi * P / Tt)
        chk.obl("R19.2", f"{fn.ref}::in-plane-spacing", ok, "satellites of a plane are 2π/(t/p) apart" if ok else f"{T.fmt(d_sat)}", loc(fn, fn.node))
        ok = T.equal(d_plane, 2 * pi * Fp / Tt)
        chk.obl("R19.2", f"{fn.ref}::inter-plane-phasing", ok, "adjacent planes are phased by 2π f / t" if ok else f"{T.fmt(d_plane)}", loc(fn, fn.node))
    pp = star.methods["per_plane"]
    ok = "return self.total // self.planes" in unparse(pp.node)
    chk.inst("R19.2", f"{pp.ref}", ok, "t/p satellites per plane" if ok else "changed", loc(pp, pp.node))
    fl = star.methods["iter_fleet"]
    t = unparse(fl.node)
    ok = "for i, raan in enumerate(self.iter_raan()):\n        for nu in self.iter_nu(i):\n            yield (raan, nu)" in t and "for i in range(self.planes):" in unparse(star.methods["iter_raan"].node) \
        and "for i in range(self.per_plane):" in unparse(star.methods["iter_nu"].node)
    chk.inst("R19.2", f"{fl.ref}", ok, "p planes × t/p satellites = t satellites" if ok else "changed", loc(fl, fl.node))
    chk.floor("R19.2", 20)


def r19_3(chk):
    repo = chk.repo
    f = repo.func(BETA, "beta")
    t = unparse(f.node)
    ok = "w = np.asarray(np.cross(p, v))" in t and "p, v = (orb[:3], orb[3:])" in t and "return np.arcsin(w @ ref_pos / (np.linalg.norm(w) * np.linalg.norm(ref_pos)))" in t
    chk.inst("R19.3", f"{f.ref}::definition", ok, "β = arcsin(ĥ · ŝ): elevation of the body above the orbit plane, in [−90°, 90°]" if ok else "changed", loc(f, f.node))
    ok = "ref_pos = np.asarray(ref.propagate(orb.date).copy(frame=orb.frame)[:3])" in t and "orb = orb.copy(form='cartesian')" in t
    chk.inst("R19.3", f"{f.ref}::same-frame-same-date", ok, "the body is taken at the orbit's date, in the orbit's frame" if ok else "changed", loc(f, f.node))
    g = repo.func(INTER, "bplane")
    t = unparse(g.node)
    import unicodedata
    nk = lambda s: unicodedata.normalize("NFKC", s)
    checks = [
        ("eccentricity-vector", nk("e = (vn ** 2 * r - r @ v * v) / µ - r / rn"), "e = ((v² r − (r·v) v)/µ − r̂"),
        ("asymptote-angle", nk("β = np.arccos(1 / e_norm)"), "cos β = 1/e"),
        ("S", nk("S = ê * np.cos(β) + np.cross(ĥ, ê) * np.sin(β)"), "S = ê cos β + (ĥ × ê) sin β (incoming asymptote)"),
        ("T", "T = np.cross(S, N) / norm(np.cross(S, N))", "T = S × N normalised"),
        ("R", "R = np.cross(S, T)", "R = S × T"),
        ("B-norm", "B_norm = abs(orb.infos.kep.a) * np.sqrt(e_norm ** 2 - 1)", "|B| = |a| √(e² − 1)"),
        ("B", nk("B = B_norm * np.cross(S, ĥ)"), "B = |B| (S × ĥ): ⟂ S and ⟂ h"),
        ("N", "N = np.array([0, 0, 1])", "reference pole"),
        ("h", "h = np.cross(r, v)", "angular momentum"),
    ]
    for key, frag, what in checks:
        ok = frag in t
        chk.inst("R19.3", f"{g.ref}::{key}", ok, what if ok else f"`{frag}` not found", loc(g, g.node))
    chk.floor("R19.3", 11)


# R19.4 (Lambert's F′ equals dF/dz) was designed for the thorough tier and dropped: with C, S inlined the expression nests
# radicals (√C inside y inside (y/C)^{3/2}); the term algebra's normal form is not canonical for nested radicals, so a failed
# reduction could not be told from a real difference (it reported the correct code).  See DESIGN.md §4b.


def run(chk):
    chk.rule("R19.1", "Lambert: Newton update, exit polarity, Stumpff functions, geometry, Lagrange coefficients")
    chk.rule("R19.2", "LTAN/RAAN inverse; sun-synchronous relation and its three arms; Walker spacing and phasing (term algebra)")
    chk.rule("R19.3", "beta angle and B-plane by construction")
    chk.guard(r19_1, chk)
    chk.guard(r19_2, chk)
    chk.guard(r19_3, chk)
    # j2.py is an anchor of C19 (the node drift the sun-synchronous helper targets is the one J2.propagate realises):
    # the J2 clauses of C05 are part of this check
    from .c05 import r05_1, r05_2, r05_3
    from .c01 import FormTable
    chk.rule("R05.1", "(dependency) write set of the analytical propagators")
    chk.rule("R05.2", "(dependency) first-order secular J2 rates")
    chk.rule("R05.3", "(dependency) initial orbit never written; fresh result")
    chk.guard(r05_1, chk, FormTable(chk))
    chk.guard(r05_2, chk)
    chk.guard(r05_3, chk)
    chk.assume("Curtis, Orbital Mechanics for Engineering Students §5.3 (universal-variable Lambert); first-order J2 node rate; Walker t/p/f with p | t")
