"""C15 — state vectors have value semantics and change atomically.

R15.1 copy idiom: StateVector.copy copies every item of _data that can be copied, builds a new object on a fresh
      buffer and never writes to self; as_orbit / as_statevector build from a per-item copy too; a container of
      mutable objects must copy its elements
R15.2 compute-then-commit in the form and frame setters (failure leaves form/frame/values consistent)
R15.3 name access: __getattr__ / __setattr__ use the same alias map and decision order; alias closure
R15.4 pickling keys agree; __array_finalize__ copies the dict; as_statevector drops exactly the propagator;
      copy() completeness of everything a copy reaches (Cov.copy)
"""
import ast

from ..model import AnalysisError, body_without_doc, call_name, loc, unparse, walk_no_nested
from ..ownership import Fresh, per_item_copy_comprehension
from .c01 import FormTable
from .c06 import copy_completeness

SV = "beyond/orbits/statevector.py"
ORB = "beyond/orbits/orbit.py"
COV = "beyond/orbits/cov.py"


def r15_1(chk):
    repo = chk.repo
    f = repo.func(SV, "StateVector.copy")
    loops = [s for s in body_without_doc(f.node) if isinstance(s, ast.For) and unparse(s.iter) == "self._data.items()"]
    ok = False
    what = "per-item copy loop over self._data.items() not found"
    if len(loops) == 1:
        k, v = [unparse(e) for e in loops[0].target.elts]
        b = [unparse(s).replace(" ", "") for s in loops[0].body]
        ok = b == [f"new_compl[{k}]={v}.copy()ifhasattr({v},'copy')else{v}"]
        what = "every item that can be copied is copied (cov, maneuvers list, propagator, ...)" if ok else f"{b}"
    chk.inst("R15.1", f"{f.ref}::per-item-copy", ok, what, loc(f, f.node))
    ctor = [s for s in body_without_doc(f.node) if isinstance(s, ast.Assign) and unparse(s.value).replace(" ", "") == "self.__class__(self.base,**new_compl)"]
    ok = len(ctor) == 1
    chk.inst("R15.1", f"{f.ref}::new-object", ok, "new object of the same class on the coordinates, with the copied items" if ok else "constructor call changed", loc(f, f.node))
    new = f.module.classes["StateVector"].methods["__new__"]
    ok = "buffer=np.array([float(x) for x in coord])" in unparse(new.node)
    chk.inst("R15.1", f"{new.ref}::fresh-buffer", ok, "coordinates are copied into a fresh buffer" if ok else "buffer is no longer a fresh array", loc(new, new.node))
    bad = []
    for n in ast.walk(f.node):
        tg = []
        if isinstance(n, ast.Assign):
            tg = n.targets
        elif isinstance(n, ast.AugAssign):
            tg = [n.target]
        for t in tg:
            root = t
            while isinstance(root, (ast.Attribute, ast.Subscript)):
                root = root.value
            if isinstance(root, ast.Name) and root.id == "self" and isinstance(t, (ast.Attribute, ast.Subscript)):
                bad.append(unparse(t))
    chk.inst("R15.1", f"{f.ref}::receiver-untouched", not bad, "never writes to self" if not bad else f"writes {bad}", loc(f, f.node))
    txt = unparse(f.node)
    ok = "if frame and frame != self.frame:\n        new_obj.frame = frame" in txt and "if form and form != self.form:\n        new_obj.form = form" in txt \
        and txt.index("new_obj.frame = frame") < txt.index("new_obj.form = form")
    chk.inst("R15.1", f"{f.ref}::conversion-on-the-copy", ok, "frame then form are changed on the new object only" if ok else "conversion no longer applied to the copy only", loc(f, f.node))
    ok = "if same is not None:\n        if hasattr(same, 'frame') and hasattr(same, 'form'):\n            frame = same.frame\n            form = same.form" in txt
    chk.inst("R15.1", f"{f.ref}::same", ok, "`same=` supplies both the frame and the form of the model object" if ok else "changed", loc(f, f.node))
    # containers of mutable objects
    has_deep = "maneuvers" in txt or "deepcopy" in txt or "[m.copy()" in txt
    chk.inst("R15.1", f"{f.ref}::container-elements", has_deep, "elements of the maneuvers list are copied" if has_deep else
             "the maneuvers list is copied with list.copy(): the Man objects inside are shared between the copy and the original "
             "(c.maneuvers[0].date = X shows in the original)", loc(f, f.node))
    # as_orbit / as_statevector
    for rel, q in ((SV, "StateVector.as_orbit"), (ORB, "Orbit.as_statevector")):
        g = repo.func(rel, q)
        fr = Fresh(g, repo)
        rets = [n for n in walk_no_nested(g.node) if isinstance(n, ast.Return) and n.value is not None]
        vals = set()
        for r in rets:
            vals |= fr.classify(r.value)
        bad = [v for v in vals if v != "fresh"]
        chk.inst("R15.1", f"{g.ref}::fresh-result", not bad, "new object built from a per-item copy" if not bad else
                 f"built from a shallow `self._data.copy()`: the new object {bad} — its maneuvers list and Cov ARE the receiver's", loc(g, g.node))
    chk.floor("R15.1", 8)


def r15_2(chk):
    repo = chk.repo
    f = repo.func(SV, "StateVector.form", setter=True)
    body = body_without_doc(f.node)
    b = [unparse(s).replace(" ", "") for s in body]
    p = f.params()[1]
    ok = len(b) == 3 and b[1] == f"self.base.setfield(self._data['form'](self,{p}),dtype=float)" and b[2] == f"self._data['form']={p}" \
        and b[0].startswith(f"ifisinstance({p},str):")
    chk.inst("R15.2", f"{f.ref}::compute-then-commit", ok,
             "the conversion is evaluated (as an argument) before the first write; values and label are written back to back" if ok else f"{b}", loc(f, f.node))
    f = repo.func(SV, "StateVector.frame", setter=True)
    p = f.params()[1]
    tries = [n for n in ast.walk(f.node) if isinstance(n, ast.Try)]
    ok = False
    what = "try/finally not found"
    if len(tries) == 1:
        t = tries[0]
        tb = [unparse(s).replace(" ", "") for s in t.body]
        fb = [unparse(s).replace(" ", "") for s in t.finalbody]
        ok = tb == [f"new_coord=self.frame.transform(self,{p})", "self.base.setfield(new_coord,dtype=float)", f"self._data['frame']={p}"] and fb == ["self.form=old_form"] and not t.handlers
        what = "transform (may raise) first, then values and frame label back to back; the form is restored on every exit" if ok else f"try: {tb}; finally: {fb}"
    chk.inst("R15.2", f"{f.ref}::compute-then-commit", ok, what, loc(f, f.node))
    txt = unparse(f.node).replace(" ", "")
    ok = "old_form=self.form" in txt and "old_frame=self.frame" in txt and f"if{p}!=self.frame:\nself.form='cartesian'\ntry:".replace(" ", "") in txt.replace("    ", "")
    chk.inst("R15.2", f"{f.ref}::cartesian-inside-try-scope", ok, "old form saved; conversion to cartesian happens right before the guarded block" if ok else "changed", loc(f, f.node))
    ok = f"ifisinstance({p},str):\n{p}=get_frame({p})".replace(" ", "") in txt.replace("    ", "") and txt.index("get_frame(") < txt.index("self.form='cartesian'")
    chk.inst("R15.2", f"{f.ref}::name-resolved-first", ok, "an unknown frame name raises before anything is written" if ok else "changed", loc(f, f.node))
    chk.floor("R15.2", 4)


def r15_3(chk):
    repo = chk.repo
    g = repo.func(SV, "StateVector.__getattr__")
    s = repo.func(SV, "StateVector.__setattr__")

    def decision(f, stmts):
        out = []
        for st in stmts:
            if isinstance(st, ast.Assign) and unparse(st.value).replace(" ", "") == "Form.alt.get(name,name)":
                out.append("alias")
            elif isinstance(st, ast.If):
                x = st
                while isinstance(x, ast.If):
                    out.append(unparse(x.test).replace(" ", ""))
                    x = x.orelse[0] if len(x.orelse) == 1 and isinstance(x.orelse[0], ast.If) else None
        return out
    dg = decision(g, body_without_doc(g.node))
    # in __setattr__ the name logic sits in the else-branch of the property test
    first = body_without_doc(s.node)
    ifs = [x for x in first if isinstance(x, ast.If)]
    ds = decision(s, ifs[0].orelse) if ifs else []
    ok = dg[:3] == ["alias", "nameinself.form.param_names", "namein_cache_param_names"] and ds[:3] == dg[:3]
    chk.inst("R15.3", f"{SV}::StateVector::getattr-setattr-agree", ok,
             "both apply Form.alt first, then the current form's names, then refuse names of other forms" if ok else f"__getattr__: {dg}; __setattr__: {ds}", loc(g, g.node))
    tg = unparse(g.node).replace(" ", "")
    ts = unparse(s.node).replace(" ", "")
    ok = "i=self.form.param_names.index(name)" in tg and "res=self[i]" in tg and "i=self.form.param_names.index(name)" in ts and "self[i]=value" in ts
    chk.inst("R15.3", f"{SV}::StateVector::index-from-current-form", ok, "the element index is the position of the name in the CURRENT form" if ok else "changed", loc(g, g.node))
    ok = "raiseAttributeError" in tg and "raiseAttributeError" in ts
    chk.inst("R15.3", f"{SV}::StateVector::refuses-foreign-names", ok, "a name of another form raises instead of landing in the metadata", loc(g, g.node), nontrivial=False)
    ok = "propobj=getattr(self.__class__,name,None)" in ts and "ifisinstance(propobj,property):" in ts and "returnpropobj.fset(self,value)" in ts
    chk.inst("R15.3", f"{s.ref}::properties-first", ok, "properties (form, frame, cov, ...) are dispatched to their setters" if ok else "changed", loc(s, s.node))
    gi = repo.func(SV, "StateVector.__getitem__")
    si = repo.func(SV, "StateVector.__setitem__")
    ok = "ifisinstance(key,(int,slice)):" in unparse(gi.node).replace(" ", "") and "returnself.__getattr__(key)" in unparse(gi.node).replace(" ", "") \
        and "ifisinstance(key,(int,slice)):" in unparse(si.node).replace(" ", "") and "self.__setattr__(key,value)" in unparse(si.node).replace(" ", "")
    chk.inst("R15.3", f"{SV}::StateVector::item-access", ok, "integer/slice keys index the array, string keys go through the name dispatch" if ok else "changed", loc(gi, gi.node))
    # alias closure (R01.3)
    ft = FormTable(chk)
    bad = [(v, p) for v, (n, ps) in ft.forms.items() for p in ps if p in ft.alt and ft.alt[p] != p]
    chk.inst("R15.3", f"{SV}::alias-closure", not bad, "no canonical parameter name is rewritten by Form.alt" if not bad else f"rewritten: {bad}", "beyond/orbits/forms.py")
    cp = ft.module.assigns.get("_cache_param_names")
    ok = cp is not None and unparse(cp).replace(" ", "") == "{xforformin_cache.values()forxinform.param_names}"
    chk.inst("R15.3", "beyond/orbits/forms.py::_cache_param_names", ok, "reserved names = all parameter names of all forms" if ok else "changed", "beyond/orbits/forms.py")
    chk.floor("R15.3", 7)


def r15_4(chk):
    repo = chk.repo
    red = repo.func(SV, "StateVector.__reduce__")
    sst = repo.func(SV, "StateVector.__setstate__")
    keys_w = set()
    for n in ast.walk(red.node):
        if isinstance(n, ast.Dict):
            keys_w |= {k.value for k in n.keys if isinstance(k, ast.Constant)}
    keys_r = {n.slice.value for n in ast.walk(sst.node) if isinstance(n, ast.Subscript) and isinstance(n.slice, ast.Constant) and unparse(n.value) == sst.params()[1]}
    ok = keys_w == keys_r == {"basestate", "data"}
    chk.inst("R15.4", f"{SV}::StateVector::pickle-keys", ok, f"__reduce__ writes {sorted(keys_w)}, __setstate__ reads {sorted(keys_r)}" if ok else f"written {sorted(keys_w)} vs read {sorted(keys_r)}", loc(red, red.node))
    ok = "'data':self._data" in unparse(red.node).replace(" ", "") and "object.__setattr__(self,'_data',state['data'])" in unparse(sst.node).replace(" ", "") \
        and "super().__setstate__(state['basestate'])" in unparse(sst.node).replace(" ", "")
    chk.inst("R15.4", f"{SV}::StateVector::pickle-values", ok, "metadata dict and array state restored where they were taken" if ok else "changed", loc(sst, sst.node))
    # the covariance travels with its state: its own state (the `_data` dict with frame and reference state, and the frame
    # that reference state was attached in) must be pickled too -- Cov had no hooks at all (D34)
    COV = "beyond/orbits/cov.py"
    cred, csst = repo.func(COV, "Cov.__reduce__"), repo.func(COV, "Cov.__setstate__")
    ckeys_w = set()
    for n in ast.walk(cred.node):
        if isinstance(n, ast.Dict):
            ckeys_w |= {k.value for k in n.keys if isinstance(k, ast.Constant)}
    ckeys_r = {n.slice.value for n in ast.walk(csst.node) if isinstance(n, ast.Subscript) and isinstance(n.slice, ast.Constant) and unparse(n.value) == csst.params()[1]}
    attrs_new = {t.attr for n in ast.walk(repo.func(COV, "Cov.__new__").node) if isinstance(n, ast.Assign) for t in n.targets
                 if isinstance(t, ast.Attribute) and isinstance(t.value, ast.Name) and t.value.id == "obj"}
    stored = {a for a in attrs_new if a not in ("_frame", "orb")}          # `_frame` and `orb` are properties over `_data`
    restored = {t.attr for n in ast.walk(csst.node) if isinstance(n, ast.Assign) for t in n.targets
                if isinstance(t, ast.Attribute) and isinstance(t.value, ast.Name) and t.value.id == "self"}
    ok = ckeys_w == ckeys_r and "basestate" in ckeys_w and stored <= restored
    chk.inst("R15.4", f"{COV}::Cov::pickle-state", ok, f"__reduce__ writes {sorted(ckeys_w)}, __setstate__ restores {sorted(restored)} (everything __new__ stores: {sorted(stored)})" if ok else
             f"written {sorted(ckeys_w)} vs read {sorted(ckeys_r)}; __new__ stores {sorted(stored)}, __setstate__ restores {sorted(restored)}", loc(cred, cred.node))
    # each pickled value comes from the attribute it is restored to: {"data": self._data, "orb_frame": self._orb_frame}
    saved = {}
    for n in ast.walk(cred.node):
        if isinstance(n, ast.Dict):
            for k, v in zip(n.keys, n.values):
                if isinstance(k, ast.Constant) and isinstance(v, ast.Attribute) and isinstance(v.value, ast.Name) and v.value.id == "self":
                    saved[k.value] = v.attr
    back = {}
    for n in ast.walk(csst.node):
        if isinstance(n, ast.Assign) and len(n.targets) == 1 and isinstance(n.targets[0], ast.Attribute) and isinstance(n.targets[0].value, ast.Name) \
                and n.targets[0].value.id == "self" and isinstance(n.value, ast.Subscript) and isinstance(n.value.slice, ast.Constant):
            back[n.value.slice.value] = n.targets[0].attr
    ok = bool(saved) and all(back.get(k) == a for k, a in saved.items())
    chk.inst("R15.4", f"{COV}::Cov::pickle-pairing", ok, f"every value is restored to the attribute it was taken from: {saved}" if ok else
             f"saved {saved} but restored {back}: an attribute comes back holding another attribute's value", loc(cred, cred.node))
    # the state carries its Date through the pickle: every slot `Date.__init__` fills is saved from that slot and restored
    # to that slot (wave p: own-scale `self.d` saved into the TAI slot `_d`; `eop` / `_offset` recomputed on the way back)
    DATE = "beyond/dates/date.py"
    dget, dset, dinit = repo.try_func(DATE, "Date.__getstate__"), repo.try_func(DATE, "Date.__setstate__"), repo.try_func(DATE, "Date.__init__")
    if dget is None or dset is None or dinit is None:
        chk.inst("R15.4", f"{DATE}::Date::pickle-pairing", False, "Date.__getstate__ / __setstate__ / __init__ not found", DATE)
    else:
        def slots(fn):
            """{slot: value node} of the `super().__setattr__("slot", value)` statements of `fn`."""
            out = {}
            for n in ast.walk(fn.node):
                if isinstance(n, ast.Call) and isinstance(n.func, ast.Attribute) and n.func.attr == "__setattr__" and len(n.args) == 2 \
                        and isinstance(n.args[0], ast.Constant) and unparse(n.func.value) in ("super()", "object"):
                    out[n.args[0].value] = n.args[1]
                elif isinstance(n, ast.Call) and unparse(n.func) == "object.__setattr__" and len(n.args) == 3 and isinstance(n.args[1], ast.Constant):
                    out[n.args[1].value] = n.args[2]
            return out
        filled = {k for k in slots(dinit) if k != "_cache"}
        dsaved = {}
        for n in ast.walk(dget.node):
            if isinstance(n, ast.Dict):
                for k, v in zip(n.keys, n.values):
                    if isinstance(k, ast.Constant):
                        dsaved[k.value] = v.attr if isinstance(v, ast.Attribute) and isinstance(v.value, ast.Name) and v.value.id == "self" else unparse(v)
        st = dset.params()[1] if len(dset.params()) > 1 else "state"
        dback = {}
        local = {}
        for n in ast.walk(dset.node):
            if isinstance(n, ast.Assign) and len(n.targets) == 1 and isinstance(n.targets[0], ast.Name):
                local.setdefault(n.targets[0].id, []).append(n.value)
        for slot, v in slots(dset).items():
            if isinstance(v, ast.Name) and len(local.get(v.id, [])) == 1:
                v = local[v.id][0]           # a value read into a local first
            if isinstance(v, ast.Subscript) and isinstance(v.slice, ast.Constant) and unparse(v.value) == st:
                dback[v.slice.value] = slot
            elif slot != "_cache":
                dback[f"<{unparse(v)[:40]}>"] = slot
        ok = bool(dsaved) and set(dsaved.values()) == filled and all(dback.get(k) == a for k, a in dsaved.items()) and set(dback.values()) == filled
        chk.inst("R15.4", f"{DATE}::Date::pickle-pairing", ok, f"every slot __init__ fills ({sorted(filled)}) is saved from itself and restored to itself" if ok else
                 f"__init__ fills {sorted(filled)}; saved {dsaved}; restored {dback}: a slot is not saved, is saved from another reading, or is recomputed instead of restored",
                 loc(dget, dget.node))
    # an unpickled array owns its memory: `.base` (which copy(), the setters, as_orbit / as_statevector go through) must not be None
    for rel_, cls_ in ((SV, "StateVector"), (COV, "Cov")):
        b = repo.try_func(rel_, f"{cls_}.base")
        t = unparse(b.node).replace(" ", "") if b is not None else ""
        ok = b is not None and b.is_property and "super().base" in t and "self.view(np.ndarray)" in t and "isnotNone" in t
        chk.inst("R15.4", f"{rel_}::{cls_}.base", ok, "`.base` falls back on a plain view when the object owns its memory (after unpickling)" if ok else
                 "no fallback for `.base is None`: an unpickled object cannot be copied or converted", loc(b, b.node) if b is not None else rel_)
    fin = repo.func(SV, "StateVector.__array_finalize__")
    ok = "object.__setattr__(self,'_data',obj._data.copy())" in unparse(fin.node).replace(" ", "") and "ifobjisNone:\nreturn".replace(" ", "") in unparse(fin.node).replace(" ", "").replace("    ", "")
    chk.inst("R15.4", f"{fin.ref}", ok, "views/arithmetic results get their own metadata dict (a copy)" if ok else "derived arrays would share the metadata dict itself", loc(fin, fin.node))
    asv = repo.func(ORB, "Orbit.as_statevector")
    pops = [unparse(n.args[0]) for n in ast.walk(asv.node) if isinstance(n, ast.Call) and call_name(n) == "pop"]
    ok = pops == ["'propagator'"] and "StateVector(self.base, **new_dict)" in unparse(asv.node)
    chk.inst("R15.4", f"{asv.ref}::drops-only-propagator", ok, "everything but the propagator is kept" if ok else f"pops {pops}", loc(asv, asv.node))
    aso = repo.func(SV, "StateVector.as_orbit")
    ok = f"new_dict['propagator'] = {aso.params()[1]}" in unparse(aso.node) and "Orbit(self.base, **new_dict)" in unparse(aso.node)
    chk.inst("R15.4", f"{aso.ref}::adds-propagator", ok, "same values and metadata, plus the propagator" if ok else "changed", loc(aso, aso.node))
    onew = repo.func(ORB, "Orbit.__new__")
    ok = "obj = super().__new__(cls, coord, date, form, frame, **kwargs)" in unparse(onew.node) and "obj.propagator = propagator" in unparse(onew.node)
    chk.inst("R15.4", f"{onew.ref}", ok, "Orbit = StateVector + propagator" if ok else "changed", loc(onew, onew.node))
    cov = repo.cls(COV, "Cov")
    cp = cov.methods["copy"]
    ok = "new = self.__class__(self.orb, self.base, frame=self.frame)" in unparse(cp.node)
    chk.inst("R15.4", f"{cp.ref}::complete", ok, "Cov.copy forwards state, values and frame" if ok else "changed", loc(cp, cp.node))
    new = cov.methods["__new__"]
    ok = "buf = np.array(values)" in unparse(new.node) and "np.ndarray.__new__(cls, (6, 6), buffer=buf, dtype=float)" in unparse(new.node)
    chk.inst("R15.4", f"{new.ref}::fresh-buffer", ok, "values copied into a fresh buffer" if ok else "changed", loc(new, new.node))
    oset = cov.setters["orb"]
    ok = f"orb = {oset.params()[1]}.copy(form='cartesian')" in unparse(oset.node) and "self._data['orb'] = orb" in unparse(oset.node)
    chk.inst("R15.4", f"{oset.ref}::snapshot", ok, "the covariance keeps its own cartesian snapshot of the state" if ok else "changed", loc(oset, oset.node))
    from ..ownership import fresh_infos, memo_census
    fresh_infos(chk, "R15.4")
    memo_census(chk, "R15.4", only={"beyond/orbits/statevector.py::Infos.kep", "beyond/orbits/statevector.py::Infos.sphe", "beyond/orbits/statevector.py::StateVector.infos",
                                     "beyond/orbits/ephem.py::Ephem.interp"})
    chk.floor("R15.4", 13)


def r15_6(chk):
    """What the per-item copy of `StateVector.copy` calls: every `copy` method of the library (propagators, Cov, Ephem, the
    state itself) returns an object built in the call, never the receiver or something the receiver holds (wave q:
    `Propagator.copy` returning `self`, so that an orbit and its copy share one propagator and its bound orbit)."""
    repo = chk.repo
    for f in repo.all_funcs():
        if f.name != "copy" or f.cls is None:
            continue
        fr = Fresh(f, repo)
        vals = set()
        rets = [n for n in walk_no_nested(f.node) if isinstance(n, ast.Return)]
        for r in rets:
            vals |= fr.classify(r.value) if r.value is not None else {"None"}
        bad = sorted(v for v in vals if v != "fresh")
        ok = bool(rets) and not bad
        chk.inst("R15.6", f"{f.ref}::returns-a-new-object", ok, "every return value is built in the call" if ok else
                 f"returns {bad or 'nothing'}: the per-item copy of StateVector.copy hands the copy the very object the original holds", loc(f, f.node))
    chk.floor("R15.6", 10)


def run(chk):
    chk.rule("R15.6", "every `copy` method returns an object built in the call (never the receiver or a part of it)")
    chk.guard(r15_6, chk)
    chk.rule("R15.1", "copy idiom: per-item copies, fresh buffer, receiver untouched; as_orbit/as_statevector likewise")
    chk.rule("R15.2", "form and frame setters compute before they commit; form restored on failure")
    chk.rule("R15.3", "name/alias/index access agrees between reading and writing and with the current form")
    chk.rule("R15.4", "pickling, array finalisation and StateVector<->Orbit conversion preserve values and metadata")
    chk.guard(r15_1, chk)
    chk.guard(r15_2, chk)
    chk.guard(r15_3, chk)
    chk.guard(r15_4, chk)
    from .common import conversion_is_a_read

    def conv_r15_5(c):
        conversion_is_a_read(c, "R15.5")
    chk.guard(conv_r15_5, chk)
    chk.assume("np.ndarray.setfield on .base writes all six values in one call (no partial write visible to Python code)")
