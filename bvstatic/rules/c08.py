"""C08 — propagation and iteration contract; independence from call history.

R08.1 inclusive bounds of the iteration front-ends
R08.2 the two iter() front-ends normalise stop and step alike; Orbit.propagate / Orbit.iter rebind alike
R08.3 direction symmetry (H2) of every loop marching a date towards `stop`
R08.4 minimum table length before interpolation (inconsistent belief inside KeplerNum._iter)
R08.6 `dates` is used through iteration only (documented: a range, a generator or a list)
D2    every propagate() returns a state that shares no mutable item with the initial orbit
D3    no store / in-place mutation through an alias of self.orbit or of a parameter
D4    derived caches: orbit setters snapshot their source; Ephem invalidates its interpolator; CW mean motion
D8    copy() forwards every constructor parameter
"""
import ast

from ..flow import reaching
from ..model import AnalysisError, body_without_doc, call_name, cmp_triples, loc, parent_map, unparse, walk_no_nested
from ..ownership import Fresh, MUTATORS, stores_through
from .c06 import copy_completeness

BASE = "beyond/propagators/base.py"
KN = "beyond/propagators/keplernum.py"
EPH = "beyond/orbits/ephem.py"
ORB = "beyond/orbits/orbit.py"
SOI = "beyond/propagators/soi.py"


def propagator_classes(repo):
    out = []
    for c in repo.all_classes():
        if repo.lookup_method(c, "propagate") is not None and not c.name.startswith("_Diff") and c.module.rel.startswith("beyond/"):
            if c.name in ("Body",):
                continue
            out.append(c)
    return out


def r08_1(chk):
    repo = chk.repo
    f = repo.func(BASE, "AnalyticalPropagator._iter")
    calls = [n for n in ast.walk(f.node) if isinstance(n, ast.Call) and unparse(n.func) == "Date.range"]
    ok = len(calls) == 1 and [unparse(a) for a in calls[0].args] == ["start", "stop", "step"] and any(k.arg == "inclusive" and getattr(k.value, "value", None) is True for k in calls[0].keywords)
    chk.inst("R08.1", f"{f.ref}::inclusive-range", ok, "Date.range(start, stop, step, inclusive=True)" if ok else "range no longer inclusive / arguments changed", loc(f, f.node))
    ok = "if dates:\n    for date in dates:\n        yield self.propagate(date)" in unparse(f.node).replace("        ", "    ").replace("\n    if dates", "\nif dates") or \
        any(isinstance(n, ast.For) and unparse(n.iter) == "dates" and unparse(n.body[0]) == "yield self.propagate(date)" for n in ast.walk(f.node))
    chk.inst("R08.1", f"{f.ref}::dates-verbatim", ok, "an explicit list of dates is propagated date by date, in order" if ok else "changed", loc(f, f.node))
    f = repo.func(EPH, "Ephem.iter")
    whiles = [n for n in ast.walk(f.node) if isinstance(n, ast.While)]
    ok = len(whiles) == 1 and unparse(whiles[0].test).replace(" ", "") in ("date<=stop", "stop>=date")
    chk.inst("R08.1", f"{f.ref}::stop-inclusive", ok, "re-sampling loop includes stop" if ok else f"`{unparse(whiles[0].test) if whiles else '?'}`", loc(f, whiles[0] if whiles else f.node))
    if whiles:
        b = [unparse(s).replace(" ", "") for s in whiles[0].body]
        ok = b[0] == "orb=self.propagate(date)" and b[-1] == "date+=step" and "yieldorb" in b
        chk.inst("R08.1", f"{f.ref}::resample-body", ok, "each date is interpolated, yielded, then advanced by the step" if ok else f"{b}", loc(f, whiles[0]))
    native = [n for n in ast.walk(f.node) if isinstance(n, ast.For) and unparse(n.iter) == "self" and unparse(n.target) == "orb"]
    ok = False
    if len(native) == 1:
        tests = [(unparse(s.test).replace(" ", ""), type(s.body[0]).__name__) for s in native[0].body if isinstance(s, ast.If)]
        ok = tests[:2] == [("orb.date<start", "Continue"), ("orb.date>stop", "Break")] and unparse(native[0].body[-1]) == "yield orb.copy()"
    chk.inst("R08.1", f"{f.ref}::native-step-bounds", ok, "points before start skipped, after stop end the loop (both bounds inclusive); a copy of each stored point is yielded" if ok else "changed", loc(f, native[0] if native else f.node))
    ok = any(isinstance(n, ast.For) and unparse(n.iter) == "dates" and unparse(n.body[0]) == "orb = self.propagate(date)" for n in ast.walk(f.node))
    chk.inst("R08.1", f"{f.ref}::dates-verbatim", ok, "an explicit list of dates is interpolated date by date, in order" if ok else "changed", loc(f, f.node))
    # the requested bounds are refused / clamped only when they lie strictly outside the table (a request ending exactly on
    # the last stored date is inside)
    found = {}
    for n in ast.walk(f.node):
        for l, op, r in cmp_triples(n):
            lt, rt = unparse(l), unparse(r)
            for name, attr, good in (("start", "self.start", "<"), ("stop", "self.stop", ">")):
                if (lt, rt) == (name, attr):
                    found.setdefault(name, []).append(op == good)
                elif (lt, rt) == (attr, name):
                    found.setdefault(name, []).append(op == {"<": ">", ">": "<"}[good])
    for name in ("start", "stop"):
        ok = bool(found.get(name)) and all(found[name])
        chk.inst("R08.1", f"{f.ref}::{name}-strictly-outside", ok, f"`{name}` is refused or clamped only when strictly outside the stored dates" if ok else
                 f"the range test of `{name}` is not the strict one: a request on the boundary date is refused / moved", loc(f, f.node))
    chk.floor("R08.1", 8)


def _frontend_facts(f):
    txt = unparse(f.node).replace(" ", "")
    return {
        "timedelta-stop-relative-to-start": "ifisinstance(kwargs['stop'],timedelta):\nkwargs['stop']=start+kwargs['stop']".replace(" ", "") in txt.replace("    ", ""),
        "step-sign-follows-direction": "ifstart>kwargs['stop']andstep.total_seconds()>0:\nkwargs['step']=-step".replace(" ", "") in txt.replace("    ", ""),
        "default-start-is-epoch": "start=kwargs.setdefault('start',self.orbit.date)" in txt and "start=self.orbit.dateifstartisNoneelsestart" in txt,
        "default-step-is-own": "step=kwargs.setdefault('step',getattr(self,'step',None))" in txt and "step=self.stepifstepisNoneelsestep" in txt,
        "stop-mandatory": "ifstopisNone:\nraiseValueError".replace(" ", "") in txt.replace("    ", ""),
        "only-without-dates": "if'dates'notinkwargs:" in txt,
    }


def r08_2(chk):
    repo = chk.repo
    fa = repo.func(BASE, "AnalyticalPropagator.iter")
    fn = repo.func(BASE, "NumericalPropagator.iter")
    A, N = _frontend_facts(fa), _frontend_facts(fn)
    for k in A:
        ok = A[k] and N[k]
        chk.inst("R08.2", f"{BASE}::iter-front-ends::{k}", ok, "both front-ends apply it" if ok else f"analytical: {A[k]}, numerical: {N[k]}", loc(fa, fa.node))
    for q in ("Orbit.propagate", "Orbit.iter"):
        f = repo.func(ORB, q)
        ok = any(isinstance(n, ast.If) and unparse(n.test) == "self.propagator.orbit is not self" and unparse(n.body[0]) == "self.propagator.orbit = self" for n in ast.walk(f.node))
        chk.inst("R08.2", f"{f.ref}::rebind", ok, "the propagator is (re)bound to this orbit before use" if ok else "rebind test changed", loc(f, f.node))
    f = repo.func(BASE, "NumericalPropagator.propagate")
    d = f.params()[1]
    ok = f"returnnext(self.iter(start={d},stop={d}))" in unparse(f.node).replace(" ", "") and f"ifisinstance({d},timedelta):\n{d}=self.orbit.date+{d}".replace(" ", "") in unparse(f.node).replace(" ", "").replace("    ", "")
    chk.inst("R08.2", f"{f.ref}", ok, "propagate(date) is the first point of iter(start=date, stop=date)" if ok else "changed", loc(f, f.node))
    chk.floor("R08.2", 9)


def _guarded_by_direction(node, pm):
    n = node
    while n in pm:
        p = pm[n]
        if isinstance(p, (ast.If, ast.IfExp)) and n is not p.test and any(t in unparse(p.test) for t in ("total_seconds()", "start > ", "stop < ", "start < stop", "stop > start", "step > ", "step < ", "_sign(")):
            return True
        n = p
    return False


def r08_3(chk):
    """Every loop that marches a date towards `stop` (test orders a date against stop/start with a fixed operator) must
    choose the operator from the direction of the range (as DateRange.__iter__ and the retro-loop of KeplerNum do)."""
    repo = chk.repo
    sites = [(EPH, "Ephem.iter"), (KN, "KeplerNum._iter"), (SOI, "_SoI._iter"), (SOI, "SoINumerical._iter")]
    for rel, q in sites:
        f = repo.func(rel, q)
        pm = parent_map(f.node)
        for w in [n for n in ast.walk(f.node) if isinstance(n, ast.While)]:
            t = w.test
            fixed = [tr for tr in cmp_triples(t) if tr[1] in ("<", "<=", ">", ">=")] if isinstance(t, ast.Compare) else []
            dynamic = isinstance(t, ast.Call) and isinstance(t.func, ast.Call) and unparse(t.func.func) == "getattr"
            if dynamic:
                opvar = unparse(t.func.args[1])
                defs = [s for s in ast.walk(f.node) if isinstance(s, ast.Assign) and unparse(s.targets[0]) == opvar]
                ok = bool(defs) and all(isinstance(s.value, ast.IfExp) and "total_seconds()" in unparse(s.value.test) for s in defs)
                chk.inst("R08.3", f"{f.ref}::while {unparse(t)}", ok, "operator chosen from the sign of the step" if ok else "dynamic operator not derived from the direction", loc(f, w))
            elif fixed:
                ok = _guarded_by_direction(w, pm)
                chk.inst("R08.3", f"{f.ref}::while {unparse(t)}", ok, "loop guarded by a test of the direction" if ok else
                         f"`while {unparse(t)}` marches forward only, but both iter() front-ends negate the step when stop < start: "
                         f"a backward range yields nothing (or raises) here", loc(f, w))
        if q == "Ephem.iter":
            for n in ast.walk(f.node):
                if isinstance(n, ast.If) and unparse(n.test).replace(" ", "") in ("start<self.start", "stop>self.stop"):
                    ok = _guarded_by_direction(n, pm)
                    chk.inst("R08.3", f"{f.ref}::validation {unparse(n.test)}", ok, "validated for the direction of the range" if ok else
                             f"`{unparse(n.test)}` assumes start ≤ stop: for a backward range (start after stop) a valid request is refused with ValueError", loc(f, n))
    chk.floor("R08.3", 6)


def r08_4(chk):
    f = chk.repo.func(KN, "KeplerNum._iter")
    ctor = [n for n in ast.walk(f.node) if isinstance(n, ast.Assign) and isinstance(n.value, ast.Call) and unparse(n.value.func) == "Ephem"]
    body = body_without_doc(f.node)
    for i, a in enumerate(ctor):
        # is there a padding loop `for i in range(Ephem.DEFAULT_ORDER - len(ephem))` between the marching loop and this constructor, in the same block?
        pm = parent_map(f.node)
        block = pm[a].body if hasattr(pm[a], "body") else body
        idx = block.index(a)
        padded = any(isinstance(s, ast.For) and "Ephem.DEFAULT_ORDER - len(ephem)" in unparse(s.iter) for s in block[:idx])
        where_ = "start-positioning-table" if isinstance(pm[a], ast.If) else "main-table"
        chk.inst("R08.4", f"{f.ref}::{where_}", padded, "table padded to the interpolation order before it is interpolated" if padded else
                 "this table is interpolated without being padded to Ephem.DEFAULT_ORDER points, although the first one in the same function is: "
                 "a span shorter than 8 steps raises 'impossible to interpolate'", loc(f, a))
    chk.floor("R08.4", 2)


def r08_6(chk):
    repo = chk.repo
    for rel, q in ((BASE, "AnalyticalPropagator._iter"), (EPH, "Ephem.iter"), (KN, "KeplerNum._iter")):
        f = repo.func(rel, q)
        bad = [unparse(n) for n in ast.walk(f.node) if isinstance(n, ast.Attribute) and isinstance(n.value, ast.Name) and n.value.id == "dates"]
        chk.inst("R08.6", f"{f.ref}::dates-protocol", not bad, "`dates` is only iterated" if not bad else
                 f"reads {sorted(set(bad))}: only a DateRange has these; a list or generator of dates (documented, accepted by the sibling propagators) raises AttributeError", loc(f, f.node))
    chk.floor("R08.6", 3)


# table A3: accepted sharing, with reasons (frozen by reading)
D2_EXCEPTIONS = {}


def d2(chk):
    repo = chk.repo
    seen = set()
    for c in propagator_classes(repo):
        f = repo.lookup_method(c, "propagate")
        if f is None or f.ref in seen or f.module.rel == "beyond/constants.py":
            continue
        seen.add(f.ref)
        if f.cls in ("Propagator", "NumericalPropagator", "Orbit"):
            continue        # abstract / delegating front-ends
        fr = Fresh(f, repo)
        rets = [n for n in walk_no_nested(f.node) if isinstance(n, ast.Return) and n.value is not None]
        if not rets:
            continue
        bad = set()
        for r in rets:
            for v in fr.classify(r.value):
                if v != "fresh":
                    root = v[1]
                    if any(root.startswith(x) or root == x for x in ("self.orbit", "self._orbit", "self.tle", "orb", "orbit")) or v[0] in ("alias", "view"):
                        bad.add(v)
        ok = not bad
        chk.inst("D2", f"{f.ref}::fresh-result", ok, "result shares no mutable item with the initial orbit" if ok else
                 f"result {sorted(bad)}: cov / maneuvers of the initial orbit are reachable (and writable) through the returned state — "
                 f"e.g. changing the frame of a result rewrites the initial orbit's covariance in place", loc(f, rets[0]))
    chk.floor("D2", 8)


D3_ACCEPTED = {
    # (function ref, target text): reason
    ("beyond/propagators/listeners.py::Speaker.listen", "orb.event"): "labels the sample it was handed (protocol: events are attributes of yielded orbits)",
    ("beyond/propagators/listeners.py::Speaker.listen", "listener.prev"): "listener state, reset by clear_listeners",
    ("beyond/propagators/listeners.py::Speaker._bisect", "end.event"): "labels the bisected state it returns",
}


def d3(chk):
    repo = chk.repo
    funcs = []
    for c in propagator_classes(repo):
        for name in ("propagate", "_propagate", "_iter", "iter", "_make_step", "_accel", "listen", "_bisect", "interpolate"):
            f = c.methods.get(name)
            if f is not None:
                funcs.append(f)
    sp = repo.cls("beyond/propagators/listeners.py", "Speaker")
    funcs += [sp.methods[m] for m in ("listen", "_bisect") if m in sp.methods]
    seen = set()
    n = 0
    for f in funcs:
        if f.ref in seen:
            continue
        seen.add(f.ref)
        fr = Fresh(f, repo)
        for text, root, node in stores_through(f, fr.flow):
            vals = fr.classify(root)
            is_element_store = text.endswith("]")
            aliased = [v for v in vals if v != "fresh" and (v[0] == "alias" or (v[0] == "view" and is_element_store))
                       and v[1] not in ("self", "kwargs") and not v[1].startswith("element of kwargs")]
            # writes to the propagator's own attributes (self.x = ...) are state of the propagator, decided by D4
            if isinstance(root, ast.Name) and root.id == "self":
                continue
            n += 1
            key = f"{f.ref}::{text}"
            reason = D3_ACCEPTED.get((f.ref, text))
            ok = not aliased or reason is not None
            chk.inst("D3", key, ok, reason or "store on a fresh object" if ok else
                     f"`{text}` writes through {aliased}: the initial orbit / the caller's argument is modified by a propagation", loc(f, node))
    chk.floor("D3", 10)


def orbit_setters(chk, rule="D4", only=None):
    """Orbit setters of the propagators keep a private snapshot of the orbit (or a plain reference with nothing derived)."""
    repo = chk.repo
    for c in propagator_classes(repo):
        s = c.setters.get("orbit")
        if s is None or (only is not None and c.name not in only):
            continue
        p = s.params()[1]
        stores = [n for n in ast.walk(s.node) if isinstance(n, ast.Assign) and unparse(n.targets[0]) in ("self._orbit", "self.tle")]
        derives = [n for n in ast.walk(s.node) if isinstance(n, ast.Assign) and unparse(n.targets[0]).startswith("self.") and unparse(n.targets[0]) not in ("self._orbit",)]
        converting = [st for st in stores if isinstance(st.value, ast.Call) and call_name(st.value) == "copy" and st.value.keywords]
        for st in stores:
            v = st.value
            if converting and isinstance(v, ast.Name) and v.id == p:
                chk.inst(rule, f"{s.ref}::{unparse(st.targets[0])}::by-reference-arm", False,
                         "one arm keeps the caller's orbit by reference while the other stores a converted private copy: the propagator needs its "
                         "orbit in a fixed form / frame, and `Orbit.propagate` re-initialises only when `propagator.orbit is not self`, so an in-place "
                         "form or frame change of the caller's orbit is integrated as if it were still in the propagator's form", loc(s, st))
                continue
            snap = isinstance(v, ast.Call) and call_name(v) == "copy"
            by_ref = isinstance(v, ast.Name) and v.id == p
            if not (snap or by_ref):
                continue      # a derived record (e.g. the sgp4 library object), not the source
            ok = snap or (by_ref and not derives)
            chk.inst(rule, f"{s.ref}::{unparse(st.targets[0])}", ok,
                     "keeps a private snapshot of the orbit" if snap else "plain reference without derived state" if ok else
                     f"keeps the caller's orbit by reference and derives {[unparse(d.targets[0]) for d in derives if d is not st][:3]} from it: "
                     f"Orbit.propagate re-initialises only when `propagator.orbit is not self`, so after an in-place change of the orbit the stale "
                     f"derived record is used (old trajectory returned)", loc(s, st))


def d4(chk):
    repo = chk.repo
    orbit_setters(chk)
    # Ephem: writers of the points must invalidate the interpolator
    eph = repo.cls(EPH, "Ephem")
    for name in ("frame", "form"):
        s = eph.setters.get(name)
        if s is None:
            raise AnalysisError(f"Ephem.{name} setter not found")
        txt = unparse(s.node)
        invalid = "del self._interp" in txt or "_interp" in txt and ("invalidate" in txt or "reset" in txt) or any(
            isinstance(n, ast.Call) and isinstance(n.func, ast.Attribute) and isinstance(n.func.value, ast.Name) and n.func.value.id == "self"
            and n.func.attr in eph.methods and "del self._interp" in unparse(eph.methods[n.func.attr].node) for n in ast.walk(s.node))
        chk.inst("D4", f"{s.ref}::invalidates-interpolator", invalid, "interpolator dropped when the points change" if invalid else
                 f"converts every point but keeps the cached DatedInterp built from the old values: interpolation after `ephem.{name} = ...` returns "
                 f"values in the old {name} labelled with the new one", loc(s, s.node))
    # whoever deletes _interp must restore _method/_order (the interp property deletes them after building)
    for fobj in list(eph.methods.values()) + list(eph.setters.values()):
        if "del self._interp" in unparse(fobj.node):
            txt = unparse(fobj.node)
            ok = "self._method" in txt and "self._order" in txt
            chk.inst("D4", f"{fobj.ref}::restores-method-order", ok, "method and order handed back before the interpolator is dropped" if ok else
                     "drops the interpolator without restoring _method/_order, which the `interp` property deletes once built", loc(fobj, fobj.node))
    ip = eph.methods["interp"]
    ok = "DatedInterp(list(self.dates), self._orbits, self._method, self._order)" in unparse(ip.node)
    chk.inst("D4", f"{ip.ref}::built-from-points", ok, "interpolator built from the current dates and points" if ok else "changed", loc(ip, ip.node))
    # CW mean motion cache
    cw = repo.cls("beyond/propagators/cw.py", "ClohessyWiltshire")
    writers = []
    for fobj in list(cw.methods.values()) + list(cw.setters.values()):
        if fobj.name == "__init__":
            continue
        for n in ast.walk(fobj.node):
            if isinstance(n, ast.Assign) and unparse(n.targets[0]) in ("self.sma", "self.frame") and "del self._n" not in unparse(fobj.node):
                writers.append(fobj.ref)
    chk.inst("D4", "beyond/propagators/cw.py::ClohessyWiltshire::_n-sources", not writers, "sma and frame are written only by the constructor" if not writers else f"{writers} write a source of the cached mean motion without dropping it", "beyond/propagators/cw.py")
    from ..ownership import fresh_infos, memo_census
    from ..ownership import shared_class_state
    shared_class_state(chk, "D4")
    fresh_infos(chk, "D4")
    memo_census(chk, "D4")
    chk.floor("D4", 8 + 12)


def d8(chk):
    for c in propagator_classes(chk.repo):
        if "copy" in c.methods:
            copy_completeness(chk, "D8", c)
    chk.floor("D8", 10)


def run(chk):
    chk.rule("R08.1", "inclusive bounds; explicit dates propagated verbatim")
    chk.rule("R08.2", "sibling front-ends agree on the normalisations that matter")
    chk.rule("R08.3", "date-marching loops are direction-aware (H2)")
    chk.rule("R08.4", "tables padded to the interpolation order before interpolation")
    chk.rule("R08.6", "`dates` used through iteration only")
    chk.rule("D2", "propagate() results are fresh")
    chk.rule("D3", "no store through aliases of the initial orbit or of arguments")
    chk.rule("D4", "derived caches invalidated / sources snapshotted")
    chk.rule("D8", "copy() completeness")
    chk.guard(r08_1, chk)
    chk.guard(r08_2, chk)
    chk.guard(r08_3, chk)
    chk.guard(r08_4, chk)
    chk.guard(r08_6, chk)
    chk.guard(d2, chk)
    chk.guard(d3, chk)
    chk.guard(d4, chk)
    chk.guard(d8, chk)
    # R08.5 = R10.1: listeners cleared when the iteration starts (re-use of listener objects must not leak history)
    from .c10 import r10_1
    chk.rule("R10.1", "(= R08.5) listeners cleared before the first listen of every iteration, inside the generator that listens")
    chk.guard(r10_1, chk)
    # an iteration over an Ephem asks the interpolator for every tabulated date, the last included: the bracket search
    # must keep a query on a node inside the table (C09's clause; a second sub-agent's C08 change was exactly this)
    from .c09 import r09_4
    chk.rule("R09.4", "(C08 dependency) linear formula and bracket search: a query on the last node brackets inside the table")
    chk.guard(r09_4, chk)
    # the dates an iteration of the numerical propagator yields are reached by marching with the step the integrator
    # actually took (C06's clause; wave o delivered `date += self.step` against both properties)
    from .c06 import r06_2
    chk.rule("R06.2", "(C08 dependency) stage wiring, acceptance polarity, marching by the accepted step")
    chk.guard(r06_2, chk)
    chk.assume("StateVector.copy is a per-item copy (R15.1, C15); numpy arithmetic/slicing shallow-copies _data (__array_finalize__)")
    chk.assume("listeners are cleared at the start of each iteration: decided under C10 (R10.1)")
