"""C17 — local orbital frames and maneuvers follow their definitions.

R17.1 triads (term algebra on 3-vectors): first axis = normalised position (QSW) / velocity (TNW); third = normalised
      pos × vel; second = third × first; rows in the order of the name
R17.2 transposition pairing: local → parent uses the transpose, parent → local does not, at all seven sites; the state
      is cartesian (and in the parent frame) before the axes are computed
R17.3 once-only windows: impulse `date < t <= date + step`; burn `start <= date < stop` (exactly one strict bound)
R17.4 orbit2frame wiring; ContinuousMan dv/accel consistency and dates; dkep2dv identities
"""
import ast

from .. import terms as T
from ..model import AnalysisError, body_without_doc, cmp_triples, loc, unparse
from ..terms import Extract, F, Poly

LOCAL = "beyond/frames/local.py"
MAN = "beyond/orbits/man.py"
ORIENT = "beyond/frames/orient.py"
LAGR = "beyond/frames/lagrange.py"
COV = "beyond/orbits/cov.py"
FRAMES = "beyond/frames/frames.py"


def r17_1(chk):
    pos = [Poly.atom(n) for n in ("px", "py", "pz")]
    vel = [Poly.atom(n) for n in ("vx", "vy", "vz")]
    for fn, first_src, names in (("to_qsw", "pos", ("q", "s", "w")), ("to_tnw", "vel", ("t", "n", "w"))):
        f = chk.repo.func(LOCAL, fn)
        ex = Extract(env={"pos": pos, "vel": vel})
        stmts = [s for s in body_without_doc(f.node) if not (isinstance(s, ast.Assign) and isinstance(s.targets[0], ast.Tuple))]
        sp = [s for s in body_without_doc(f.node) if isinstance(s, ast.Assign) and isinstance(s.targets[0], ast.Tuple)]
        ok = len(sp) == 1 and unparse(sp[0].targets[0]).strip("()") == "pos, vel" and unparse(sp[0].value) == f"_split({f.params()[0]})"
        chk.inst("R17.1", f"{f.ref}::split", ok, "pos, vel = first and last three components" if ok else "changed", loc(f, f.node))
        ex.run(stmts, stop_on_unsupported=True)
        env = ex.env
        a1, a2, a3 = (env.get(n) for n in names)
        if not all(isinstance(a, list) and len(a) == 3 for a in (a1, a2, a3)):
            raise AnalysisError(f"{f.ref}: axes {names} not extractable")
        src = pos if first_src == "pos" else vel
        nsrc = T.power(T.dot(src, src), F(1, 2))
        c = T.cross(pos, vel)
        nc = T.power(T.dot(c, c), F(1, 2))
        where = loc(f, f.node)
        for i in range(3):
            ok = T.equal(a1[i] * nsrc, src[i])
            chk.obl("R17.1", f"{f.ref}::{names[0]}[{i}]", ok, f"first axis is the unit {'position' if first_src == 'pos' else 'velocity'} vector" if ok else f"{T.fmt(a1[i])}", where)
        for i in range(3):
            ok = T.equal(a3[i] * nc, c[i])
            chk.obl("R17.1", f"{f.ref}::{names[2]}[{i}]", ok, "third axis is the unit angular-momentum vector pos × vel" if ok else f"{T.fmt(a3[i])}", where)
        want2 = T.cross(a3, a1)
        for i in range(3):
            ok = T.equal(a2[i], want2[i])
            chk.obl("R17.1", f"{f.ref}::{names[1]}[{i}]", ok, "second axis completes the right-handed triad (third × first)" if ok else f"{T.fmt(a2[i])} != {T.fmt(want2[i])}", where)
        rets = [s for s in body_without_doc(f.node) if isinstance(s, ast.Return)]
        ok = len(rets) == 1 and unparse(rets[0].value).replace(" ", "") == f"np.array([{names[0]},{names[1]},{names[2]}])"
        chk.inst("R17.1", f"{f.ref}::rows", ok, f"rows are ({', '.join(names)}): the matrix maps inertial → local" if ok else f"{unparse(rets[0].value) if rets else '?'}", where)
    sp = chk.repo.func(LOCAL, "_split")
    ok = unparse(body_without_doc(sp.node)[0]).replace(" ", "") == f"return({sp.params()[0]}[:3],{sp.params()[0]}[3:])"
    chk.inst("R17.1", f"{sp.ref}", ok, "position = [:3], velocity = [3:]" if ok else "changed", loc(sp, sp.node))
    chk.floor("R17.1", 23)


def r17_2(chk):
    repo = chk.repo
    sites = [
        (COV, "Cov.frame", True, "m1 = to_local(self.frame, self.orb).T", "local → reference: transposed", True),
        (COV, "Cov.frame", True, "m2 = to_local(frame, self.orb)", "reference → local: not transposed", True),
        (MAN, "ImpulsiveMan.dv", False, "mat = to_local(self.frame, orb, expanded=False).T", "local dv → orbit frame: transposed", False),
        (MAN, "KeplerianImpulsiveMan.dv", False, "return to_tnw(orb).T @ self._dv", "TNW dv → inertial: transposed", False),
        (MAN, "ContinuousMan.accel", False, "mat = to_local(self.frame, orb, expanded=False).T", "local acceleration → orbit frame: transposed", False),
        (ORIENT, "LocalOrbitalOrientation._to_parent", False, "return (local.to_local(self.orient, sv, expanded=False).T, None)", "local → parent: transposed", False),
        (LAGR, "LagrangeOrient._to_parent", False, "return (to_qsw(orb).T, None)", "synodic → parent: transposed", False),
    ]
    for rel, q, setter, frag, what, _ in sites:
        f = repo.func(rel, q, setter=setter)
        t = unparse(f.node)
        ok = frag in t
        chk.inst("R17.2", f"{f.ref}::{frag.split('=')[0].strip() if '=' in frag else 'return'}::{what}", ok, what if ok else f"`{frag}` not found (transposition changed?)", loc(f, f.node))
    # cartesian (and parent frame) before the axes
    for q in ("ImpulsiveMan.dv", "ContinuousMan.accel"):
        f = repo.func(MAN, q)
        b = [unparse(s).replace(" ", "") for s in body_without_doc(f.node)]
        o = f.params()[1]
        ok = b[0] == f"{o}={o}.copy(form='cartesian')"
        chk.inst("R17.2", f"{f.ref}::cartesian-first", ok, "the state is made cartesian before the axes are built" if ok else "changed", loc(f, f.node))
        ifs = [s for s in body_without_doc(f.node) if isinstance(s, ast.If)]
        ok = len(ifs) >= 1 and unparse(ifs[0].test) == "self.frame in ('QSW', 'TNW')" and unparse(ifs[0].orelse[0]).replace(" ", "") == "mat=np.identity(3)"
        chk.inst("R17.2", f"{f.ref}::frame-tags", ok, "QSW/TNW are projected, anything else is taken in the orbit's own axes" if ok else "changed", loc(f, f.node))
    f = repo.func(MAN, "ImpulsiveMan.dv")
    ok = "projected_dv = mat @ self._dv" in unparse(f.node) and "return projected_dv" in unparse(f.node)
    chk.inst("R17.2", f"{f.ref}::magnitude", ok, "dv is the stated vector rotated by an orthonormal matrix (magnitude preserved)" if ok else "changed", loc(f, f.node))
    f = repo.func(MAN, "ContinuousMan.accel")
    ok = "projected_accel = mat @ self._accel" in unparse(f.node) and "return projected_accel" in unparse(f.node)
    chk.inst("R17.2", f"{f.ref}::magnitude", ok, "acceleration is the stated vector rotated (magnitude preserved)" if ok else "changed", loc(f, f.node))
    f = repo.func(ORIENT, "LocalOrbitalOrientation._to_parent")
    t = unparse(f.node)
    ok = "sv = sv.copy(form='cartesian', frame=self.parent)" in t and "if hasattr(self.statevector, 'propagate'):\n        sv = self.statevector.propagate(date)".replace("date", f.params()[1]) in t
    chk.inst("R17.2", f"{f.ref}::state-in-parent-frame", ok, "the reference state is propagated to the date and expressed cartesian in the parent frame first" if ok else "changed", loc(f, f.node))
    f = repo.func(LAGR, "LagrangeOrient._to_parent")
    ok = "orb = self.body2.propagate(date).copy(frame=self.frame1, form='cartesian')".replace("date", f.params()[1]) in unparse(f.node)
    chk.inst("R17.2", f"{f.ref}::state-in-parent-frame", ok, "body 2 expressed cartesian in frame 1 first" if ok else "changed", loc(f, f.node))
    chk.floor("R17.2", 15)


def _bounds(test, subject):
    out = set()
    for n in ast.walk(test):
        if isinstance(n, ast.Compare):
            for l, op, r in cmp_triples(n):
                lt, rt = unparse(l), unparse(r)
                if op not in ("<", "<=", ">", ">="):
                    continue
                if lt == subject:
                    out.add(("upper" if op in ("<", "<=") else "lower", rt, op in ("<", ">")))
                elif rt == subject:
                    out.add(("lower" if op in ("<", "<=") else "upper", lt, op in ("<", ">")))
    return out


def r17_3(chk):
    f = chk.repo.func(MAN, "ImpulsiveMan.check")
    d, st = f.params()[1], f.params()[2]
    rets = [s for s in body_without_doc(f.node) if isinstance(s, ast.Return)]
    b = _bounds(rets[0].value, "self.date") if rets else set()
    ok = b == {("lower", d, True), ("upper", f"{d} + {st}", False)}
    chk.inst("R17.3", f"{f.ref}::half-open", ok, "impulse fires in the step (date, date + step]: consecutive steps tile time, so exactly once" if ok else f"bounds {sorted(b)}", loc(f, f.node))
    f = chk.repo.func(MAN, "ContinuousMan.check")
    d = f.params()[1]
    rets = [s for s in body_without_doc(f.node) if isinstance(s, ast.Return)]
    b = _bounds(rets[0].value, d) if rets else set()
    ok = b == {("lower", "self.start", False), ("upper", "self.stop", True)}
    chk.inst("R17.3", f"{f.ref}::half-open", ok, "thrust on [start, stop)" if ok else f"bounds {sorted(b)}", loc(f, f.node))
    # the integrator tests the impulse window on the step it actually took, and the burn window at the stage date
    KN = "beyond/propagators/keplernum.py"
    ms = chk.repo.func(KN, "KeplerNum._make_step")
    rets = [s for s in body_without_doc(ms.node) if isinstance(s, ast.Return)]
    taken = unparse(rets[0].value.elts[0]) if rets and isinstance(rets[0].value, ast.Tuple) else None
    calls = [n for n in ast.walk(ms.node) if isinstance(n, ast.Call) and unparse(n.func) == "man.check"]
    ok = taken is not None and len(calls) == 1 and len(calls[0].args) == 2 and unparse(calls[0].args[0]) == f"{ms.params()[1]}.date" and unparse(calls[0].args[1]) == taken
    chk.inst("R17.3", f"{ms.ref}::impulse-window-uses-accepted-step", ok, f"window (t_n, t_n + {taken}] with the step that is returned: consecutive windows tile time" if ok else
             f"the impulse window is tested with `{unparse(calls[0].args[1]) if calls and len(calls[0].args) > 1 else '?'}` while the step actually taken (returned) is `{taken}`: "
             f"with an adaptive method windows overlap (impulse applied twice / early) or leave gaps", loc(ms, calls[0]) if calls else loc(ms, ms.node))
    ac = chk.repo.func(KN, "KeplerNum._accel")
    calls = [n for n in ast.walk(ac.node) if isinstance(n, ast.Call) and unparse(n.func) == "man.check"]
    ok = len(calls) == 1 and [unparse(a) for a in calls[0].args] == [f"{ac.params()[1]}.date"]
    chk.inst("R17.3", f"{ac.ref}::burn-window-at-stage-date", ok, "thrust switched by the date of the stage being evaluated" if ok else "changed", loc(ac, ac.node))
    dvs = [n for n in ast.walk(ms.node) if isinstance(n, ast.AugAssign) and "man.dv(" in unparse(n.value)]
    ok = len(dvs) == 1 and unparse(dvs[0].target) == "y_n_1[3:]" and isinstance(dvs[0].op, ast.Add)
    chk.inst("R17.3", f"{ms.ref}::impulse-on-velocity", ok, "the delta-v is added once to the velocity of the new state" if ok else "changed", loc(ms, ms.node))
    chk.floor("R17.3", 5)


def r17_4(chk):
    repo = chk.repo
    f = repo.func(FRAMES, "orbit2frame")
    t = unparse(f.node)
    name, ref, orientation, parent = f.params()[0:4]
    ok = f"center_obj = center.Center({name}, body={parent}.center.body)" in t and f"center_obj.add_link({ref}.frame.center, {ref}.frame.orientation, {ref})" in t
    chk.inst("R17.4", f"{f.ref}::centre", ok, "the new centre is offset from the orbit's own centre by the orbit itself (so the orbit sits at the origin)" if ok else "changed", loc(f, f.node))
    ok = f"{orientation} = orient.LocalOrbitalOrientation({name}, {ref}, {orientation}, {parent})" in t and f"if {orientation}.upper() not in ('QSW', 'TNW'):" in t \
        and f"if {orientation} is None:\n        {orientation} = {ref}.frame.orientation" in t
    chk.inst("R17.4", f"{f.ref}::orientation", ok, "None keeps the orbit's orientation; QSW/TNW attach a local orbital orientation to the parent; anything else refused" if ok else "changed", loc(f, f.node))
    ok = f"return Frame({name}, {orientation}, center_obj, exists_warning)" in t
    chk.inst("R17.4", f"{f.ref}::frame", ok, "frame = (orientation, centre)" if ok else "changed", loc(f, f.node))
    # ContinuousMan
    c = repo.func(MAN, "ContinuousMan.__init__")
    t = unparse(c.node)
    ok = "self._accel = self._dv / self.duration.total_seconds()" in t and "self._dv = self._accel * self.duration.total_seconds()" in t
    chk.inst("R17.4", f"{c.ref}::dv-accel", ok, "dv = accel × duration in both directions (full delta-v delivered over the duration)" if ok else "changed", loc(c, c.node))
    ok = "if self.date_pos == 'start':\n        self.start = date\n    elif self.date_pos == 'median':\n        self.start = date - duration / 2\n    else:\n        self.start = date - duration" in t \
        and "self.stop = self.start + duration" in t and "self.median = self.start + duration / 2" in t
    chk.inst("R17.4", f"{c.ref}::dates", ok, "start from date_pos; stop = start + duration" if ok else "changed", loc(c, c.node))
    i = repo.func(MAN, "ImpulsiveMan.__init__")
    ok = "self._dv = np.array(dv)" in unparse(i.node) and "if len(dv) != 3:" in unparse(i.node) and "frame = frame.upper()" in unparse(i.node)
    chk.inst("R17.4", f"{i.ref}", ok, "dv stored as given (3 components), frame tag upper-cased" if ok else "changed", loc(i, i.node))
    # dkep2dv
    g = repo.func(MAN, "dkep2dv")
    ex = Extract(subst={"orb.infos.v": Poly.atom("v"), "orb.frame.center.body.mu": Poly.atom("mu"), "orb.infos.kep.a": Poly.atom("a"), "orb.infos.kep.i": Poly.atom("i")},
                 abs_is_identity=True)
    stmts = []
    for s in body_without_doc(g.node):
        if isinstance(s, ast.Assign) and isinstance(s.targets[0], ast.Tuple):
            for nm, v in zip(s.targets[0].elts, s.value.elts):
                ex.env[unparse(nm)] = ex.ev(v)
            continue
        if isinstance(s, ast.If):
            break
        stmts.append(s)
    ex.run(stmts)
    env = ex.env
    import unicodedata
    mu = env.get(unicodedata.normalize("NFKC", "µ"))
    where = loc(g, g.node)
    da, v, a = Poly.atom("da"), Poly.atom("v"), Poly.atom("a")
    ok = isinstance(env.get("dv_a"), Poly) and T.equal(env["dv_a"] * 2 * v * a * a, Poly.atom("mu") * da)
    chk.obl("R17.4", f"{g.ref}::dv_a", ok, "first-order vis-viva: 2 v dv = µ da / a²" if ok else f"dv_a = {T.fmt(env.get('dv_a')) if isinstance(env.get('dv_a'), Poly) else '?'}", where)
    di, dO, i = Poly.atom("di"), Poly.atom("dOmega"), Poly.atom("i")
    dang = env.get("dangle")
    ok = isinstance(dang, Poly) and T.equal(dang * dang, di * di + dO * dO * T.trig("sin", i) * T.trig("sin", i))
    chk.obl("R17.4", f"{g.ref}::dangle", ok, "plane rotation angle² = di² + (dΩ sin i)²" if ok else "changed", where)
    vf = env.get("v_final")
    dv, dvt = env.get("dv"), env.get("dv_t")
    cd = T.trig("cos", dang) if isinstance(dang, Poly) else None
    ok = all(isinstance(x, Poly) for x in (vf, dv, dvt)) and T.equal(vf, v + env["dv_a"]) and T.equal(dv * dv, v * v + vf * vf - 2 * v * vf * cd) and T.equal(dvt, vf * cd - v)
    chk.obl("R17.4", f"{g.ref}::law-of-cosines", ok, "|dv|² = v² + v_f² − 2 v v_f cos(dangle); tangential part v_f cos(dangle) − v" if ok else "changed", where)
    t = unparse(g.node)
    ok = "dv_w = dv * np.sqrt(1 - ratio ** 2)" in t and "ratio = abs(dv_t / dv)" in t and "return np.array([dv_t, 0, dv_w])" in t and "if np.isclose(ratio, 1):\n        dv_w = 0" in t
    chk.inst("R17.4", f"{g.ref}::components", ok, "dv_w² = dv² − dv_t² (finite also when the ratio rounds above 1); result (dv_t, 0, dv_w) in TNW" if ok else "changed", where)
    k = repo.func(MAN, "KeplerianImpulsiveMan.dv")
    ok = "self._dv = dkep2dv(orb, da=self.da, di=self.di, dOmega=self.dOmega)".replace("orb", k.params()[1]) in unparse(k.node)
    chk.inst("R17.4", f"{k.ref}", ok, "Keplerian increments converted with the state at the maneuver" if ok else "changed", loc(k, k.node))
    aol = repo.func(MAN, "dkep2aol")
    ok = "return np.arctan2(dOmega * np.sin(orb.infos.kep.i), di)" in unparse(aol.node)
    chk.inst("R17.4", f"{aol.ref}", ok, "ideal argument of latitude = atan2(dΩ sin i, di)" if ok else "changed", loc(aol, aol.node))
    kc = repo.cls(MAN, "KeplerianContinuousMan")
    t = unparse(kc.methods["accel"].node)
    ok = "self._accel = dkep2dv(orb, da=self.da, di=self.di, dOmega=self.dOmega) / self.duration.total_seconds()" in t and "return super().accel(orb)" in t
    chk.inst("R17.4", f"{kc.ref}.accel", ok, "Keplerian increments spread over the duration, projected as a TNW burn" if ok else "changed", loc(kc.methods["accel"], kc.methods["accel"].node))
    ok = "kwargs['frame'] = 'TNW'" in unparse(kc.methods["__init__"].node)
    chk.inst("R17.4", f"{kc.ref}.__init__", ok, "expressed in TNW" if ok else "changed", loc(kc.methods["__init__"], kc.methods["__init__"].node))
    chk.floor("R17.4", 14)


def run(chk):
    chk.rule("R17.1", "QSW and TNW triads by construction (term algebra on vectors)")
    chk.rule("R17.2", "transposition pairing at the seven local-axes sites; state cartesian in the parent frame first")
    chk.rule("R17.3", "half-open maneuver windows (exactly one strict bound)")
    chk.rule("R17.4", "orbit-attached frame wiring; maneuver constructors; dkep2dv identities")
    chk.guard(r17_1, chk)
    chk.guard(r17_2, chk)
    chk.guard(r17_3, chk)
    chk.guard(r17_4, chk)
    chk.assume("an orthonormal right-handed triad (u, (w×u), w) with u ⟂ w is a proper rotation; for TNW u = v̂ is ⟂ to w = (r×v)^ by construction, for QSW u = r̂ likewise")
