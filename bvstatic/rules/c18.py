"""C18 — solar-system body positions (wiring clauses + frozen series constants).

R18.1 velocity is the centred difference (x(t+h) − x(t−h)) / 2h of the positions
R18.2 analytical series: direction vectors are unit ecliptic→equatorial rotations of (λ, φ); distance wiring; time
      arguments normalised (TDB for the Moon, UT1 for the Sun); numeric literals equal the frozen published values
R18.3 JPL segments: TDB julian date; velocity ÷ S_PER_DAY only on the 3-vector arm; × 1000; sign by the pair convention
R18.4 create_frames attaches each target under its centre and bridges the Earth centre once
"""
import ast

from .. import terms as T
from ..frozen import compare, compare_formulas
from ..model import AnalysisError, body_without_doc, loc, unparse
from ..terms import Extract, Poly
from .common import Origins, date_reads_in

SOL = "beyond/env/solarsystem.py"
JPL = "beyond/env/jpl.py"


def r18_1(chk):
    f = chk.repo.func(SOL, "_DiffPropagator.propagate")
    d = f.params()[1]
    b = [unparse(s).replace(" ", "") for s in body_without_doc(f.node)]
    ok = b == [f"x=cls._propagate({d})", f"x0=cls._propagate({d}-cls._diff_step)", f"x1=cls._propagate({d}+cls._diff_step)",
               "x[3:]=(x1[:3]-x0[:3])/(2*cls._diff_step.total_seconds())", "returnx"]
    chk.inst("R18.1", f"{f.ref}::centred-difference", ok, "v(t) = (x(t+h) − x(t−h)) / (2h), h in seconds, written into the velocity slots of x(t)" if ok else f"{b}", loc(f, f.node))
    for cls, step in (("MoonPropagator", "timedelta(days=1)"), ("SunPropagator", "timedelta(days=5)")):
        c = chk.repo.cls(SOL, cls)
        ok = unparse(c.attrs.get("_diff_step")) == step if c.attrs.get("_diff_step") is not None else False
        chk.inst("R18.1", f"{c.ref}._diff_step", ok, f"h = {step}" if ok else "changed", loc(c.module, c.node), nontrivial=False)
        ok = c.base_exprs == ["_DiffPropagator"]
        chk.inst("R18.1", f"{c.ref}::uses-difference", ok, "velocity by centred difference" if ok else "changed", loc(c.module, c.node), nontrivial=False)
    chk.floor("R18.1", 5)


def r18_2(chk):
    repo = chk.repo
    # Moon
    f = repo.func(SOL, "MoonPropagator._propagate")
    deg = lambda x: x      # the local cos/sin closures work in degrees: angles stay symbolic, only their structure matters
    ex = Extract(env={"cos": lambda a: T.trig("cos", a), "sin": lambda a: T.trig("sin", a)})
    lam, phi, eps = Poly.atom("lambda_el"), Poly.atom("phi_el"), Poly.atom("e_bar")
    sv = None
    for n in ast.walk(f.node):
        if isinstance(n, ast.Assign) and unparse(n.targets[0]) == "state_vector":
            ex.env.update({"lambda_el": lam, "phi_el": phi, "e_bar": eps, "r_moon": Poly.atom("r_moon")})
            sv = ex.ev(n.value)
    if not isinstance(sv, list) or len(sv) != 6:
        raise AnalysisError(f"{f.ref}: state vector not extractable")
    r = Poly.atom("r_moon")
    cl, sl, cp, sp, ce, se = T.trig("cos", lam), T.trig("sin", lam), T.trig("cos", phi), T.trig("sin", phi), T.trig("cos", eps), T.trig("sin", eps)
    want = [r * cp * cl, r * (ce * cp * sl - se * sp), r * (se * cp * sl + ce * sp), Poly(), Poly(), Poly()]
    for i in range(6):
        ok = T.equal(sv[i], want[i])
        chk.obl("R18.2", f"{f.ref}::component[{i}]", ok, "ecliptic (λ, φ, r) rotated by the obliquity about x into the equator" if ok else f"{T.fmt(sv[i])} != {T.fmt(want[i])}", loc(f, f.node))
    t = unparse(f.node)
    ok = "r_moon = Earth.r / sin(p)" in t
    chk.inst("R18.2", f"{f.ref}::distance", ok, "distance = Earth radius / sin(horizontal parallax)" if ok else "changed", loc(f, f.node))
    ok = "return np.cos(np.radians(angle))" in t and "return np.sin(np.radians(angle))" in t
    chk.inst("R18.2", f"{f.ref}::degree-trig", ok, "series evaluated in degrees" if ok else "changed", loc(f, f.node))
    ok = "return Orbit(state_vector, date, 'cartesian', cls.FRAME, cls())".replace("date", f.params()[1]) in t
    chk.inst("R18.2", f"{f.ref}::result", ok, "cartesian state in the propagator's frame" if ok else "changed", loc(f, f.node))
    compare(chk, "R18.2", f"{SOL}::MoonPropagator._propagate", f.node, loc(f, f.node), "low-precision lunar series, Astronomical Almanac / Vallado alg. 31")
    compare_formulas(chk, "R18.2", f"{SOL}::MoonPropagator._propagate", f.node, loc(f, f.node), "lunar series")
    # Sun
    g = repo.func(SOL, "SunPropagator._propagate")
    pv = None
    ex = Extract(env={"lambda_el": lam, "eps": eps, "r": Poly.atom("r"), "AU": Poly.atom("AU")})
    for n in ast.walk(g.node):
        if isinstance(n, ast.Assign) and unparse(n.targets[0]) == "pv":
            pv = ex.ev(n.value)
    if not isinstance(pv, list) or len(pv) != 6:
        raise AnalysisError(f"{g.ref}: state vector not extractable")
    rr = Poly.atom("r") * Poly.atom("AU")
    want = [rr * cl, rr * ce * sl, rr * se * sl, Poly(), Poly(), Poly()]
    for i in range(6):
        ok = T.equal(pv[i], want[i])
        chk.obl("R18.2", f"{g.ref}::component[{i}]", ok, "ecliptic longitude rotated by the obliquity; distance in AU → metres" if ok else f"{T.fmt(pv[i])} != {T.fmt(want[i])}", loc(g, g.node))
    compare(chk, "R18.2", f"{SOL}::SunPropagator._propagate", g.node, loc(g, g.node), "low-precision solar series, Vallado alg. 29")
    compare_formulas(chk, "R18.2", f"{SOL}::SunPropagator._propagate", g.node, loc(g, g.node), "solar series")
    au = repo.module("beyond/utils/units.py").assigns.get("AU")
    ok = au is not None and unparse(au) in ("149597870700.0", "149597870700")
    chk.inst("R18.2", "beyond/utils/units.py::AU", ok, "AU = 149 597 870 700 m" if ok else f"AU = {unparse(au) if au is not None else None}", "beyond/utils/units.py")
    # time arguments
    for fobj, scale in ((f, "TDB"), (g, "UT1")):
        reads, flow = date_reads_in(repo, fobj)
        org = Origins(flow)
        ok = bool(reads)
        for r_ in reads:
            o = org.of(r_.receiver)
            ok = ok and o == {("norm", scale)} and r_.member == "julian_century"
        chk.inst("R18.2", f"{fobj.ref}::time-argument", ok, f"series argument is julian centuries of {scale}" if ok else "time argument changed", loc(fobj, fobj.node))
    for cls, frame in (("MoonPropagator", "EME2000"), ("SunPropagator", "MOD"), ("EarthPropagator", "EME2000")):
        c = repo.cls(SOL, cls)
        ok = unparse(c.attrs.get("FRAME")) == repr(frame) if c.attrs.get("FRAME") is not None else False
        chk.inst("R18.2", f"{c.ref}.FRAME", ok, f"result frame {frame}" if ok else "changed", loc(c.module, c.node))
    chk.floor("R18.2", 6 + 4 + 6 + 2 + 2 + 3)


def r18_3(chk):
    f = chk.repo.func(JPL, "JplPropagator.propagate")
    d = f.params()[1]
    t = unparse(f.node)
    b = [unparse(s).replace(" ", "") for s in body_without_doc(f.node)]
    ok = b[0] == f"{d}={d}.change_scale('TDB')" and f"pos, vel = segment.compute_and_differentiate({d}.jd)" in t
    chk.inst("R18.3", f"{f.ref}::time-argument", ok, "segments are evaluated at the TDB julian date" if ok else "changed", loc(f, f.node))
    ifs = [s for s in body_without_doc(f.node) if isinstance(s, ast.If) and "Bsp().pairs" in unparse(s.test)]
    ok = False
    what = "pair lookup not recognised"
    if len(ifs) == 1:
        test = unparse(ifs[0].test).replace(" ", "")
        b1 = [unparse(s).replace(" ", "") for s in ifs[0].body]
        b2 = [unparse(s).replace(" ", "") for s in ifs[0].orelse]
        ok = test == "(self.obj.index,self.frame.center.index)inBsp().pairs.keys()" \
            and b1 == ["segment=Bsp().pairs[self.obj.index,self.frame.center.index]", "sign=-1"] \
            and b2 == ["segment=Bsp().pairs[self.frame.center.index,self.obj.index]", "sign=1"]
        what = "pairs[(A, B)] is B relative to A: (centre, object) → +1, (object, centre) → −1" if ok else f"{test}: {b1} / {b2}"
    chk.inst("R18.3", f"{f.ref}::sign-convention", ok, what, loc(f, f.node))
    arms = [s for s in body_without_doc(f.node) if isinstance(s, ast.If) and "len(pos)" in unparse(s.test)]
    ok = False
    if len(arms) == 1:
        a = arms[0]
        a2 = a.orelse[0] if len(a.orelse) == 1 and isinstance(a.orelse[0], ast.If) else None
        ok = unparse(a.test).replace(" ", "") == "len(pos)==3" and [unparse(s).replace(" ", "") for s in a.body] == ["pv=np.concatenate((pos,vel/S_PER_DAY))"] \
            and a2 is not None and unparse(a2.test).replace(" ", "") == "len(pos)==6" and [unparse(s).replace(" ", "") for s in a2.body] == ["pv=np.array(pos)"] \
            and a2.orelse and isinstance(a2.orelse[0], ast.Raise)
    chk.inst("R18.3", f"{f.ref}::units", ok, "km/day → km/s only when the segment returns position and rate separately; unknown shapes refused" if ok else "changed", loc(f, f.node))
    rets = [s for s in body_without_doc(f.node) if isinstance(s, ast.Return)]
    ok = len(rets) == 1 and unparse(rets[0].value).replace(" ", "") == f"Orbit(sign*pv*1000,{d},'cartesian',self.frame,self)"
    chk.inst("R18.3", f"{f.ref}::result", ok, "km → m with the sign of the pair, in the propagator's frame" if ok else "changed", loc(f, f.node))
    ok = any(unparse(s) == "from jplephem.spk import SPK, S_PER_DAY" for s in chk.repo.module(JPL).tree.body)
    chk.inst("R18.3", f"{JPL}::S_PER_DAY", ok, "seconds per day taken from jplephem", JPL, nontrivial=False)
    chk.floor("R18.3", 5)


def r18_4(chk):
    f = chk.repo.func(JPL, "create_frames")
    t = unparse(f.node)
    ok = "for center_id, target_id in Bsp().pairs:" in t and "target.add_link(center, _propagator_cache[target.name])" in t \
        and "_propagator_cache[target.name] = JplPropagator(target, _frame_cache[center.name])" in t
    chk.inst("R18.4", f"{f.ref}::pairs", ok, "each (centre, target) pair links target under centre with a propagator of target in centre's frame" if ok else "changed", loc(f, f.node))
    ok = "first_frame = _frame_cache['Earth']" in t and "BASE_FRAME.center.add_link(first_frame.center, BASE_FRAME.orientation, np.zeros(6))" in t
    chk.inst("R18.4", f"{f.ref}::bridge", ok, "the built-in Earth centre is bridged to the kernel's Earth with a zero offset" if ok else "changed", loc(f, f.node))
    al = chk.repo.func(JPL, "JplCenter.add_link")
    ok = "super().add_link(linked, BASE_FRAME.orientation, propagator)".replace("linked", al.params()[1]).replace("propagator", al.params()[2]) in unparse(al.node)
    chk.inst("R18.4", f"{al.ref}", ok, "offsets are expressed in the base orientation" if ok else "changed", loc(al, al.node))
    jf = chk.repo.func(JPL, "JplFrame.__init__")
    ok = "super().__init__(center.name, BASE_FRAME.orientation, center)".replace("center", jf.params()[1]) in unparse(jf.node)
    chk.inst("R18.4", f"{jf.ref}", ok, "kernel frames use the base orientation" if ok else "changed", loc(jf, jf.node))
    bf = chk.repo.module(JPL).assigns.get("BASE_FRAME")
    ok = bf is not None and unparse(bf) == "frames.EME2000"
    chk.inst("R18.4", f"{JPL}::BASE_FRAME", ok, "kernel vectors are ICRF/EME2000-aligned" if ok else "changed", JPL)
    gf = chk.repo.func(SOL, "get_frame")
    t = unparse(gf.node)
    ok = "parent_frame = frames.get_frame(body.propagator.FRAME)" in t and "center.add_link(parent_frame.center, parent_frame.orientation, body.propagator)" in t \
        and "return frames.Frame(name, parent_frame.orientation, center)".replace("name", gf.params()[0]) in t
    chk.inst("R18.4", f"{gf.ref}", ok, "analytical body frames: centre offset by the body's propagator, expressed in the propagator's own frame" if ok else "changed", loc(gf, gf.node))
    chk.floor("R18.4", 6)


def run(chk):
    chk.rule("R18.1", "velocities of the analytical bodies are centred differences of the positions")
    chk.rule("R18.2", "series wiring (unit direction vectors, distance, time scale) and frozen coefficients")
    chk.rule("R18.3", "JPL segment lookup: TDB argument, units, sign convention")
    chk.rule("R18.4", "frames created from kernels / analytical bodies are wired to the right parents")
    chk.guard(r18_1, chk)
    chk.guard(r18_2, chk)
    chk.guard(r18_3, chk)
    chk.guard(r18_4, chk)
    chk.assume("jplephem: SPK.pairs[(center, target)] gives target relative to center; compute_and_differentiate returns km and km/day")
    chk.assume("series coefficients: the values of the pinned tree (agreeing with DE to the stated accuracy in the suite) are the reference")
