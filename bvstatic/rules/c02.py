"""C02 — frame conversions are consistent rigid motions with correct kinematics (structural clauses).

R02.1 orientation graph is a tree; exactly one provider per link; frames pair equal names; WGS84 aliases ITRF
R02.2 rotation-rate pairing: sidereal providers (and only they) return a rate, from the same model, same sign
R02.3 composition discipline in Orientation.convert_to / Center.convert_to / Frame.transform
R02.4 elementary rotations rot1/2/3 are proper rotations with one sense; expand() builds [[R,0],[-[rate]x R, R]]
R02.5 time arguments of the IAU models: TT for precession/nutation/X,Y,s/s', UT1 for GMST/ERA
R02.6 EOP tables: fields, series<->model pairing, IERS column layout, unit constants at consumers
R02.7 model wiring: rotation sequences of precession / nutation / polar motion / CIO matrix
"""
import ast

from .. import terms as T
from ..graphs import edges_of, link_chains, node_ctors, tree_report
from ..model import AnalysisError, body_without_doc, call_name, const_value, loc, unparse
from ..terms import Extract, F, Poly, Unsupported
from .common import Origins, date_reads_in

ORIENT = "beyond/frames/orient.py"
CENTER = "beyond/frames/center.py"
FRAMES = "beyond/frames/frames.py"
MATRIX = "beyond/utils/matrix.py"
I80 = "beyond/frames/iau1980.py"
I10 = "beyond/frames/iau2010.py"
EOP = "beyond/dates/eop.py"


def orientation_table(chk):
    m = chk.repo.module(ORIENT)
    ctors = node_ctors(m, {"Orientation"})
    names = {}
    for var, call in ctors.items():
        if len(call.args) != 1 or not isinstance(call.args[0], ast.Constant):
            raise AnalysisError(f"{ORIENT}: Orientation constructor of {var} unexpected")
        names[var] = call.args[0].value
    chains = link_chains(m)
    cls = chk.repo.cls(ORIENT, "Orientation")
    providers = {}
    for name, f in cls.methods.items():
        if "_to_" in name and not name.startswith("_") and name != "convert_to":
            a, b = name.split("_to_")
            providers[(a, b)] = f
    return m, names, chains, providers


def r02_1(chk):
    m, names, chains, providers = orientation_table(chk)
    edges = edges_of(chains)
    ok, why = tree_report(set(names), edges)
    chk.inst("R02.1", f"{ORIENT}::orientation-graph", ok, f"{len(names)} orientations, {len(edges)} links: {why}", ORIENT, detail={"chains": chains})
    ok = all(v == n for v, n in names.items())
    chk.inst("R02.1", f"{ORIENT}::names", ok, "each variable names its orientation", ORIENT)
    linked = set()
    for a, b in edges:
        if a in names and b in names:
            x, y = names[a], names[b]
            linked.add(frozenset((x, y)))
            n = ((x, y) in providers) + ((y, x) in providers)
            chk.inst("R02.1", f"{ORIENT}::provider({'-'.join(sorted((x, y)))})", n == 1,
                     "exactly one rotation provider for this link" if n == 1 else f"{n} providers for {a}+{b} (direct is tried first, so a second one is dead or conflicting)", ORIENT)
    for (x, y), f in sorted(providers.items()):
        if frozenset((x, y)) not in linked:
            chk.note(f"{f.ref} has no link in the orientation graph: dead provider (never dispatched), harmless")
    # frames
    fm = chk.repo.module(FRAMES)
    frames = node_ctors(fm, {"Frame"})
    for var, call in sorted(frames.items()):
        args = [unparse(a) for a in call.args]
        ok = len(args) == 3 and args[0] == repr(var) and args[1] == f"orient.{var}" and args[2] == "center.Earth"
        chk.inst("R02.1", f"{FRAMES}::{var}", ok, "Frame(name, orient.<same name>, center.Earth)" if ok else f"Frame({', '.join(args)})", FRAMES)
    ok = set(frames) == set(names.values()) - {"G50"} | ({"G50"} if "G50" in frames else set())
    missing = set(names.values()) - set(frames)
    chk.inst("R02.1", f"{FRAMES}::one-frame-per-orientation", not missing, "every built-in orientation has its Earth-centred frame" if not missing else f"no frame for {sorted(missing)}", FRAMES)
    w = fm.assigns.get("WGS84")
    ok = w is not None and unparse(w) == "ITRF" and any(isinstance(s, ast.Assign) and unparse(s.targets[0]) == "dynamic['WGS84']" and unparse(s.value) == "ITRF" for s in fm.tree.body)
    chk.inst("R02.1", f"{FRAMES}::WGS84", ok, "WGS84 is ITRF" if ok else "WGS84 alias changed", FRAMES)
    chk.floor("R02.1", 9 + 10 + 3)


def _returned_pair(f):
    rets = [s for s in body_without_doc(f.node) if isinstance(s, ast.Return)]
    if len(rets) != 1 or not isinstance(rets[0].value, ast.Tuple) or len(rets[0].value.elts) != 2:
        raise AnalysisError(f"{f.ref}: provider does not return a (matrix, rate) pair")
    return rets[0].value.elts


def r02_2(chk):
    _, _, _, providers = orientation_table(chk)
    rated = {}
    for key, f in sorted(providers.items()):
        mat, rate = _returned_pair(f)
        has_rate = not (isinstance(rate, ast.Constant) and rate.value is None)
        # matrix source
        src = unparse(mat)
        if isinstance(mat, ast.Name):
            for s in body_without_doc(f.node):
                if isinstance(s, ast.Assign) and unparse(s.targets[0]) == mat.id:
                    src = unparse(s.value)
        sidereal = ".sideral(" in src
        ok = has_rate == sidereal
        chk.inst("R02.2", f"{f.ref}::rate-iff-sidereal", ok,
                 ("sidereal rotation carries the Earth's rate" if sidereal else "no rate for a slowly varying / constant rotation") if ok else
                 f"matrix from `{src}` but rate is `{unparse(rate)}`: velocity coupling {'missing' if sidereal else 'spurious'}", loc(f, f.node))
        if has_rate:
            rated[key] = (src, unparse(rate), f)
    for key, (src, rate, f) in rated.items():
        model = src.split(".")[0]
        ok = rate.replace(" ", "") == f"-{model}.rate({f.params()[1]})"
        chk.inst("R02.2", f"{f.ref}::rate-source-and-sign", ok, f"rate is −{model}.rate(date): same model, same sign as its sibling" if ok else f"rate is `{rate}`", loc(f, f.node))
    ok = set(rated) == {("PEF", "TOD"), ("TIRF", "CIRF")}
    chk.inst("R02.2", f"{ORIENT}::rated-links", ok, f"rated links: {sorted(rated)}", ORIENT)
    # the rate vectors themselves
    for rel in (I80, I10):
        f = chk.repo.func(rel, "rate")
        txt = unparse(f.node).replace(" ", "")
        d = f.params()[0]
        ok = f"lod={d}.eop.lod/1000.0" in txt and "np.array([0,0,7.292115146706979e-05*(1-lod/86400.0)])" in txt
        chk.inst("R02.2", f"{f.ref}::vector", ok, "ω = 7.292115146706979e-5 (1 − LOD/86400) about +z, LOD in ms" if ok else "rate vector changed", loc(f, f.node))
    chk.floor("R02.2", 9 + 2 + 1 + 2)


def r02_3(chk):
    f = chk.repo.func(ORIENT, "Orientation.convert_to")
    date, new = f.params()[1], f.params()[2]
    loops = [s for s in body_without_doc(f.node) if isinstance(s, ast.For)]
    if len(loops) != 1:
        raise AnalysisError(f"{f.ref}: loop not found")
    lp = loops[0]
    a, b = [unparse(e) for e in lp.target.elts]
    ok = unparse(lp.iter) == f"self.steps({new})"
    chk.inst("R02.3", f"{f.ref}::path", ok, "walks the path to the new orientation", loc(f, lp), nontrivial=False)
    strs = {unparse(s.targets[0]): "".join(p.value if isinstance(p, ast.Constant) else "{" + unparse(p.value) + "}" for p in s.value.values)
            for s in lp.body if isinstance(s, ast.Assign) and isinstance(s.value, ast.JoinedStr)}
    ifs = [s for s in lp.body if isinstance(s, ast.If)]
    good = False
    what = "shape not recognised"
    if len(ifs) == 1:
        a1 = ifs[0]
        a2 = a1.orelse[0] if len(a1.orelse) == 1 and isinstance(a1.orelse[0], ast.If) else None
        if a2 is not None and isinstance(a1.test, ast.Call) and isinstance(a2.test, ast.Call):
            v1, v2 = unparse(a1.test.args[1]), unparse(a2.test.args[1])
            b1 = unparse(a1.body[0]).replace(" ", "") if len(a1.body) == 1 else ""
            b2 = unparse(a2.body[0]).replace(" ", "") if len(a2.body) == 1 else ""
            direct_ok = strs.get(v1) == f"{{{a}}}_to_{{{b}}}" and b1 == f"M=expand(*getattr(self,{v1})({date}))"
            rev_ok = strs.get(v2) == f"{{{b}}}_to_{{{a}}}" and b2 == f"M=np.linalg.inv(expand(*getattr(self,{v2})({date})))"
            raise_ok = a2.orelse and isinstance(a2.orelse[0], ast.Raise)
            good = direct_ok and rev_ok and bool(raise_ok)
            what = "direct: expand(provider); reverse: inverse of the EXPANDED 6×6 (so the velocity coupling is inverted too)" if good else \
                f"direct arm ok={direct_ok} (`{b1}`), reverse arm ok={rev_ok} (`{b2}`)"
    chk.inst("R02.3", f"{f.ref}::direct-and-reverse", good, what, loc(f, lp))
    acc = [unparse(s).replace(" ", "") for s in lp.body if isinstance(s, ast.Assign) and unparse(s.targets[0]) == "m"]
    ok = acc == ["m=M@m"]
    chk.inst("R02.3", f"{f.ref}::accumulation", ok, "later steps multiply on the left: m = M @ m" if ok else f"{acc}", loc(f, lp))
    init = [unparse(s).replace(" ", "") for s in body_without_doc(f.node) if isinstance(s, ast.Assign) and unparse(s.targets[0]) == "m"]
    ok = init == ["m=np.identity(6)"]
    chk.inst("R02.3", f"{f.ref}::identity-start", ok, "starts from the 6×6 identity (A→A is the identity)" if ok else f"{init}", loc(f, f.node))
    # Center.convert_to
    f = chk.repo.func(CENTER, "Center.convert_to")
    date, new, orientation = f.params()[1:4]
    loops = [s for s in body_without_doc(f.node) if isinstance(s, ast.For)]
    lp = loops[0]
    a, b = [unparse(e) for e in lp.target.elts]
    strs = {unparse(s.targets[0]): "".join(p.value if isinstance(p, ast.Constant) else "{" + unparse(p.value) + "}" for p in s.value.values)
            for s in lp.body if isinstance(s, ast.Assign) and isinstance(s.value, ast.JoinedStr)}
    ifs = [s for s in lp.body if isinstance(s, ast.If)]
    good = False
    what = "shape not recognised"
    if len(ifs) == 1:
        a1 = ifs[0]
        a2 = a1.orelse[0] if len(a1.orelse) == 1 and isinstance(a1.orelse[0], ast.If) else None
        if a2 is not None:
            v1, v2 = unparse(a1.test.args[1]), unparse(a2.test.args[1])
            b1 = unparse(a1.body[0]).replace(" ", "")
            b2 = unparse(a2.body[0]).replace(" ", "")
            good = strs.get(v1) == f"{{{a}}}_to_{{{b}}}" and b1 == f"offset=getattr(self,{v1})({date},{orientation})" \
                and strs.get(v2) == f"{{{b}}}_to_{{{a}}}" and b2 == f"offset=-getattr(self,{v2})({date},{orientation})" \
                and bool(a2.orelse) and isinstance(a2.orelse[0], ast.Raise)
            what = "direct offset added, reverse offset negated" if good else f"`{b1}` / `{b2}`"
    chk.inst("R02.3", f"{f.ref}::direct-and-reverse", good, what, loc(f, lp))
    acc = [unparse(s).replace(" ", "") for s in lp.body if isinstance(s, ast.AugAssign)]
    ok = acc == ["out+=np.asarray(offset)"] and unparse(lp.iter) == f"self.node.steps({new})"
    chk.inst("R02.3", f"{f.ref}::sum-along-path", ok, "offsets summed along the centre path" if ok else f"{acc}", loc(f, lp))
    f2 = chk.repo.func(CENTER, "Center._to_parent")
    rets = [s for s in body_without_doc(f2.node) if isinstance(s, ast.Return)]
    ok = len(rets) == 1 and unparse(rets[0].value).replace(" ", "") == f"self.orientation.convert_to({f2.params()[1]},{f2.params()[2]})@res"
    chk.inst("R02.3", f"{f2.ref}::offset-in-requested-orientation", ok, "offset rotated from its own orientation to the requested one" if ok else "changed", loc(f2, f2.node))
    txt = unparse(f2.node).replace(" ", "")
    ok = f"ifhasattr(self.offset,'propagate'):\nres=self.offset.propagate({f2.params()[1]})\nelse:\nres=self.offset".replace(" ", "") in txt.replace("    ", "")
    chk.inst("R02.3", f"{f2.ref}::moving-offset", ok, "moving offsets are propagated to the date" if ok else "changed", loc(f2, f2.node))
    # Frame.transform
    f = chk.repo.func(FRAMES, "Frame.transform")
    orb, newf = f.params()[1], f.params()[2]
    txt = [unparse(s).replace(" ", "") for s in body_without_doc(f.node)]
    want_off = f"offset=self.center.convert_to({orb}.date,{newf}.center,{newf}.orientation)"
    want_m = f"m=self.orientation.convert_to({orb}.date,{newf}.orientation)"
    ok = want_off in txt
    chk.inst("R02.3", f"{f.ref}::offset", ok, "centre offset expressed in the NEW frame's orientation" if ok else "offset computation changed", loc(f, f.node))
    ok = want_m in txt
    chk.inst("R02.3", f"{f.ref}::rotation", ok, "rotation towards the new orientation at the state's date" if ok else "rotation computation changed", loc(f, f.node))
    ok = "new_orb[:]=m@new_orb+offset" in txt and f"new_orb={orb}.copy(form='cartesian')" in txt
    chk.inst("R02.3", f"{f.ref}::m@state+offset", ok, "new = m @ cartesian state + offset" if ok else "changed", loc(f, f.node))
    chk.floor("R02.3", 11)


def rot_closures(chk):
    out = {}
    for n in ("rot1", "rot2", "rot3"):
        f = chk.repo.func(MATRIX, n)

        def apply(theta, f=f):
            e = Extract({f.params()[0]: theta})
            e.run(body_without_doc(f.node), stop_on_unsupported=True)
            return e.env["return"]
        out[n] = apply
    return out


def r02_4(chk):
    rots = rot_closures(chk)
    th = Poly.atom("θ")
    axis_of = {"rot1": 0, "rot2": 1, "rot3": 2}
    for n, r in rots.items():
        f = chk.repo.func(MATRIX, n)
        where = loc(f, f.node)
        M = r(th)
        if not T.is_mat(M) or len(M) != 3:
            raise AnalysisError(f"{f.ref}: not a 3×3 literal")
        P = T.matmul(M, T.transpose(M))
        for i in range(3):
            for j in range(3):
                ok = T.equal(P[i][j], Poly.const(1 if i == j else 0))
                chk.obl("R02.4", f"{f.ref}::R·Rᵀ[{i}][{j}]", ok, "orthonormal" if ok else f"(R Rᵀ)[{i}][{j}] = {T.fmt(P[i][j])}", where)
        ok = T.equal(T.det3(M), Poly.const(1))
        chk.obl("R02.4", f"{f.ref}::det", ok, "det = +1" if ok else f"det = {T.fmt(T.det3(M))}", where)
        M0 = r(Poly())
        ok = all(T.equal(M0[i][j], Poly.const(1 if i == j else 0)) for i in range(3) for j in range(3))
        chk.obl("R02.4", f"{f.ref}::R(0)=I", ok, "identity at zero angle" if ok else "R(0) is not the identity", where)
        ax = axis_of[n]
        ok = all(T.equal(M[i][ax], Poly.const(1 if i == ax else 0)) and T.equal(M[ax][i], Poly.const(1 if i == ax else 0)) for i in range(3))
        chk.obl("R02.4", f"{f.ref}::axis", ok, f"fixes axis {ax + 1}" if ok else "axis row/column is not a unit vector", where)
        # sense: passive rotation (frame rotated by +θ): entry [j][k] = +sin θ with (ax, j, k) cyclic
        j, k = (ax + 1) % 3, (ax + 2) % 3
        ok = T.equal(M[j][k], T.trig("sin", th)) and T.equal(M[k][j], -T.trig("sin", th))
        chk.obl("R02.4", f"{f.ref}::sense", ok, "frame rotation by +θ (same sense for all three)" if ok else
                f"[{j}][{k}] = {T.fmt(M[j][k])}, [{k}][{j}] = {T.fmt(M[k][j])}: sense differs from its siblings", where)
    # expand
    f = chk.repo.func(MATRIX, "expand")
    where = loc(f, f.node)
    body = body_without_doc(f.node)
    txt = [unparse(s).replace(" ", "") for s in body]
    m, rate = f.params()[0], f.params()[1]
    ok = "out=np.zeros((6,6))" in txt and f"out[:3,:3]={m}" in txt and f"out[3:,3:]={m}" in txt
    chk.inst("R02.4", f"{f.ref}::blocks", ok, "diagonal blocks are the 3×3 rotation" if ok else f"{txt}", where)
    ifs = [s for s in body if isinstance(s, ast.If)]
    ok = len(ifs) == 1 and unparse(ifs[0].test).replace(" ", "") == f"{rate}isnotNone" and not ifs[0].orelse
    chk.inst("R02.4", f"{f.ref}::rate-optional", ok, "coupling block only when a rate is given" if ok else "guard changed", where)
    if ifs:
        ex = Extract({rate: [Poly.atom("w1"), Poly.atom("w2"), Poly.atom("w3")]})
        R = None
        ll = None
        for s in ifs[0].body:
            if isinstance(s, ast.Assign) and unparse(s.targets[0]) == "R":
                R = ex.ev(s.value)
            elif isinstance(s, ast.Assign):
                ll = (unparse(s.targets[0]).replace(" ", ""), unparse(s.value).replace(" ", ""))
        if R is None:
            raise AnalysisError(f"{f.ref}: skew matrix R not found")
        x = [Poly.atom("x1"), Poly.atom("x2"), Poly.atom("x3")]
        w = [Poly.atom("w1"), Poly.atom("w2"), Poly.atom("w3")]
        Rx = T.matmul(R, x)
        wx = T.cross(w, x)
        for i in range(3):
            ok = T.equal(Rx[i], wx[i])
            chk.obl("R02.4", f"{f.ref}::R·x==rate×x[{i}]", ok, "R is the cross-product matrix of the rate" if ok else f"(R x)[{i}] = {T.fmt(Rx[i])}, (rate × x)[{i}] = {T.fmt(wx[i])}", where)
        ok = ll == ("out[3:,:3]", f"-R@{m}")
        chk.inst("R02.4", f"{f.ref}::lower-left", ok, "velocity coupling block is −[rate]× · R" if ok else f"{ll}", where)
    chk.floor("R02.4", 3 * 13 + 6)


SCALE_TABLE = {
    (I80, "_precesion"): "TT", (I80, "_nutation"): "TT", (I80, "equinox"): "TT", (I80, "_sideral"): "UT1",
    (I10, "_earth_orientation"): "TT", (I10, "_sideral"): "UT1", (I10, "_planets"): "TT", (I10, "_xysxy2"): "TT",
}
MEMBER_TABLE = {(I10, "_sideral"): "jd"}


def r02_5(chk):
    seen = set()
    for rel in (I80, I10):
        for f in chk.repo.module(rel).functions.values():
            reads, flow = date_reads_in(chk.repo, f)
            org = Origins(flow)
            for r in reads:
                want = SCALE_TABLE.get((rel, f.name))
                origins = org.of(r.receiver)
                norm = {o[1] for o in origins if o[0] == "norm"}
                raw = [o for o in origins if o[0] != "norm"]
                key = f"{f.ref}::{unparse(r.receiver)}.{r.member}"
                if raw:
                    chk.inst("R02.5", key, False, f"clock field read from an un-normalised date ({raw})", r.where)
                    continue
                if want is None:
                    chk.inst("R02.5", key, False, f"date read in a function not in the scale table (normalised to {norm})", r.where)
                    continue
                member_ok = r.member == MEMBER_TABLE.get((rel, f.name), "julian_century")
                ok = norm == {want} and member_ok
                seen.add((rel, f.name))
                chk.inst("R02.5", key, ok, f"{want} {r.member}" if ok else f"model needs {want}.{MEMBER_TABLE.get((rel, f.name), 'julian_century')} but reads {sorted(norm)}.{r.member}", r.where)
    for key in SCALE_TABLE:
        if key not in seen:
            chk.inst("R02.5", f"{key[0]}::{key[1]}::time-argument", False, "expected normalised time argument not found", key[0])
    chk.floor("R02.5", 8)


# IERS finals2000A / finals layout (1-based inclusive columns, from readme.finals2000A)
IERS_FIELDS = {"mjd": (8, 15), "x": (19, 27), "y": (38, 46), "ut1_utc": (59, 68), "lod": (80, 86), "d1": (98, 106), "d2": (117, 125)}
IERS_OCCUPIED = [(1, 6), (8, 15), (17, 17), (19, 27), (28, 36), (38, 46), (47, 55), (58, 58), (59, 68), (69, 78), (80, 86), (87, 93),
                 (96, 96), (98, 106), (107, 115), (117, 125), (126, 134), (135, 144), (145, 154), (155, 165), (166, 175), (176, 185)]


def _slice_ok(lo, hi, field):
    """python slice [lo:hi] must contain the whole field and otherwise only blank columns"""
    a, b = IERS_FIELDS[field]
    if not (lo <= a - 1 and hi >= b):
        return False
    for col in range(lo + 1, hi + 1):           # 1-based columns covered by the slice
        if a <= col <= b:
            continue
        if any(s <= col <= e for s, e in IERS_OCCUPIED):
            return False
    return True


def r02_6b(chk):
    """Reader <-> file pairing in SimpleEopDatabase.__init__: the two IERS products share one column layout, so reading the
    wrong one raises nothing -- `Finals` (dPsi, dEps: IAU 1980) must be built on `finals.<type>`, `Finals2000A` (dX, dY:
    IAU 2000) on `finals2000A.<type>`, `TaiUtc` on `tai-utc.dat` (wave o: the 2000A reader built on finals.all put
    ~100 mas of dPsi into dX)."""
    f = chk.repo.func("beyond/dates/eop.py", "SimpleEopDatabase.__init__")
    want = {"Finals": "finals.", "Finals2000A": "finals2000A.", "TaiUtc": "tai-utc.dat"}
    seen = {}
    for n in ast.walk(f.node):
        if isinstance(n, ast.Call) and isinstance(n.func, ast.Name) and n.func.id in want:
            lits = [c.value for a in n.args for c in ast.walk(a) if isinstance(c, ast.Constant) and isinstance(c.value, str)]
            seen.setdefault(n.func.id, []).append("".join(lits))
    for cls_, prefix in want.items():
        got = seen.get(cls_, [])
        ok = len(got) == 1 and got[0].startswith(prefix) and (cls_ == "TaiUtc" or not got[0][len(prefix):].strip("."))
        chk.inst("R02.6", f"{f.ref}::{cls_}-file", ok, f"{cls_} reads `{got[0] if got else '?'}…`" if ok else
                 f"{cls_} is built on {got}: expected a name starting with `{prefix}`", loc(f, f.node))


def r02_6(chk):
    repo = chk.repo
    # (i) fields of Eop
    init = repo.func(EOP, "Eop.__init__")
    fields = {}
    for s in body_without_doc(init.node):
        if isinstance(s, ast.Assign) and unparse(s.targets[0]).startswith("self."):
            fields[unparse(s.targets[0])[5:]] = unparse(s.value)
    want = {"x", "y", "dx", "dy", "deps", "dpsi", "lod", "ut1_utc", "tai_utc"}
    ok = set(fields) == want and all(v == f"kwargs['{k}']" for k, v in fields.items())
    chk.inst("R02.6", f"{init.ref}::fields", ok, "nine fields, each from the keyword of the same name" if ok else f"{fields}", loc(init, init.node))
    # consumers: every `.eop.<field>` read anywhere names a field
    consumers = {}
    for f in repo.all_funcs():
        for n in ast.walk(f.node):
            if isinstance(n, ast.Attribute) and isinstance(n.value, ast.Attribute) and n.value.attr == "eop":
                consumers.setdefault(n.attr, []).append(f)
            elif isinstance(n, ast.Attribute) and isinstance(n.value, ast.Name) and n.value.id == "eop" and f.module.rel.endswith("date.py"):
                consumers.setdefault(n.attr, []).append(f)
    for fld, fs in sorted(consumers.items()):
        ok = fld in want
        chk.inst("R02.6", f"eop.{fld}::consumed", ok, f"read by {sorted({x.qualname for x in fs})}" if ok else "consumer reads a field Eop does not have", loc(fs[0], fs[0].node))
    # (ii) series <-> model pairing
    c2 = repo.cls(EOP, "Finals2000A")
    c1 = repo.cls(EOP, "Finals")
    d2 = c2.attrs.get("deltas")
    d1 = c1.attrs.get("deltas")
    ok = d2 is not None and unparse(d2) == "('dx', 'dy')" and d1 is not None and unparse(d1) == "('dpsi', 'deps')" and c1.base_exprs == ["Finals2000A"]
    chk.inst("R02.6", f"{EOP}::series-fields", ok, "Finals2000A → (dx, dy); Finals → (dpsi, deps)" if ok else "deltas changed", EOP)
    for rel, allowed in ((I80, {"dpsi", "deps", "x", "y", "lod"}), (I10, {"dx", "dy", "x", "y", "lod"})):
        used = set()
        for f in repo.module(rel).functions.values():
            for n in ast.walk(f.node):
                if isinstance(n, ast.Attribute) and isinstance(n.value, ast.Attribute) and n.value.attr == "eop":
                    used.add(n.attr)
        ok = used <= allowed and (used & {"dpsi", "deps", "dx", "dy"}) == (allowed & {"dpsi", "deps", "dx", "dy"})
        chk.inst("R02.6", f"{rel}::corrections-used", ok, f"uses {sorted(used)}" if ok else f"uses {sorted(used)}, model takes {sorted(allowed)}", rel)
    # (iii) column layout
    f = repo.func(EOP, "Finals2000A.__init__")
    slices = {}
    for n in ast.walk(f.node):
        if isinstance(n, ast.Subscript) and unparse(n.value) == "line" and isinstance(n.slice, ast.Slice):
            lo, hi = const_value(n.slice.lower), const_value(n.slice.upper)
            slices[(lo, hi)] = n
    # which slice feeds which field
    feeds = {}
    for n in ast.walk(f.node):
        if isinstance(n, ast.Dict):
            for k, v in zip(n.keys, n.values):
                kk = unparse(k).strip("'")
                for sub in ast.walk(v):
                    if isinstance(sub, ast.Subscript) and unparse(sub.value) == "line" and isinstance(sub.slice, ast.Slice):
                        feeds[kk] = (const_value(sub.slice.lower), const_value(sub.slice.upper), sub)
        if isinstance(n, ast.Assign):
            tgt = unparse(n.targets[0])
            for sub in ast.walk(n.value):
                if isinstance(sub, ast.Subscript) and unparse(sub.value) == "line" and isinstance(sub.slice, ast.Slice):
                    if tgt == "mjd":
                        feeds["mjd"] = (const_value(sub.slice.lower), const_value(sub.slice.upper), sub)
                    elif tgt.startswith("self.data[mjd]["):
                        feeds[tgt[len("self.data[mjd]["):-1].strip("'")] = (const_value(sub.slice.lower), const_value(sub.slice.upper), sub)
    for fld in ("mjd", "x", "y", "ut1_utc", "lod", "d1", "d2"):
        if fld not in feeds:
            chk.inst("R02.6", f"{f.ref}::columns::{fld}", False, "slice feeding this field not found", loc(f, f.node))
            continue
        lo, hi, node = feeds[fld]
        ok = _slice_ok(lo, hi, fld)
        a, b = IERS_FIELDS[fld]
        chk.inst("R02.6", f"{f.ref}::columns::{fld}", ok, f"line[{lo}:{hi}] covers columns {a}–{b}" if ok else
                 f"line[{lo}:{hi}] does not cover exactly the field in columns {a}–{b} of the IERS layout", loc(f, node))
    # (iv) unit constants at consumers
    units = [
        (I80, "_earth_orientation", "return (date.eop.x / 3600.0, date.eop.y / 3600.0)", "polar motion arcsec → deg"),
        (I10, "_earth_orientation", "return (date.eop.x / 3600.0, date.eop.y / 3600.0, s_prime / 3600)", "polar motion and s′ arcsec → deg"),
        (I80, "_nutation", "delta_eps += date.eop.deps / 3600000.0", "δΔε mas → deg"),
        (I80, "_nutation", "delta_psi += date.eop.dpsi / 3600000.0", "δΔψ mas → deg"),
        (I10, "_xys", "dX, dY = (date.eop.dx / 1000.0, date.eop.dy / 1000.0)", "dX, dY mas → arcsec"),
        (I80, "rate", "lod = date.eop.lod / 1000.0", "LOD ms → s"),
        (I10, "rate", "lod = date.eop.lod / 1000.0", "LOD ms → s"),
    ]
    for rel, fn, stmt, what in units:
        f = repo.func(rel, fn)
        d = f.params()[0]
        want_txt = stmt.replace("date.", d + ".").replace(" ", "")
        ok = any(unparse(s).replace(" ", "") == want_txt for s in ast.walk(f.node) if isinstance(s, ast.stmt))
        chk.inst("R02.6", f"{f.ref}::unit::{stmt.split('=')[0].strip().split(' ')[-1] if '=' in stmt else 'return'}::{what}", ok, what if ok else f"statement `{stmt}` not found", loc(f, f.node))
    chk.floor("R02.6", 1 + 9 + 3 + 7 + 7)


def r02_7(chk):
    """Rotation sequences of the models (frozen from Vallado / IERS Conventions)."""
    seqs = [
        (I80, "precesion", "rot3(zeta) @ rot2(-theta) @ rot3(z)", "precession ζ, θ, z sequence"),
        (I80, "nutation", "rot1(-epsilon_bar) @ rot3(delta_psi) @ rot1(epsilon)", "nutation ε̄, Δψ, ε sequence"),
        (I80, "earth_orientation", "rot1(y_p) @ rot2(x_p)", "polar motion (1980)"),
        (I80, "sideral", "rot3(np.deg2rad(-theta))", "sidereal rotation about −θ"),
        (I10, "earth_orientation", "rot3(-s_prime) @ rot2(x_p) @ rot1(y_p)", "polar motion (2010) with s′"),
        (I10, "sideral", "rot3(-_sideral(date))", "Earth rotation angle about −ERA"),
    ]
    for rel, fn, expr, what in seqs:
        f = chk.repo.func(rel, fn)
        rets = [s for s in body_without_doc(f.node) if isinstance(s, ast.Return)]
        got = unparse(rets[0].value) if len(rets) == 1 else "?"
        want = expr.replace("date", f.params()[0])
        ok = got.replace(" ", "") == want.replace(" ", "")
        chk.inst("R02.7", f"{f.ref}::sequence", ok, what if ok else f"returns `{got}`, expected `{want}`", loc(f, f.node))
    # degrees → radians exactly once before the rotations
    for rel, fn, call in ((I80, "precesion", "np.deg2rad(_precesion(date))"), (I80, "nutation", "np.deg2rad(_nutation(date, eop_correction, terms))"),
                          (I80, "earth_orientation", "np.deg2rad(_earth_orientation(date))"), (I10, "earth_orientation", "np.deg2rad(_earth_orientation(date))")):
        f = chk.repo.func(rel, fn)
        want = call.replace("date", f.params()[0]).replace(" ", "")
        ok = any(isinstance(s, ast.Assign) and unparse(s.value).replace(" ", "") == want for s in body_without_doc(f.node))
        chk.inst("R02.7", f"{f.ref}::deg2rad", ok, "angles converted to radians once" if ok else f"`{call}` not found", loc(f, f.node))
    f = chk.repo.func(I80, "nutation")
    ok = any(unparse(s).replace(" ", "") == "epsilon=epsilon_bar+delta_eps" for s in body_without_doc(f.node))
    chk.inst("R02.7", f"{f.ref}::true-obliquity", ok, "ε = ε̄ + Δε" if ok else "changed", loc(f, f.node))
    # CIO matrix: orthonormal to first order is numeric; structural: a = 1/(1+cos d), symmetric off-diagonals, third row (-X, -Y, ·)
    f = chk.repo.func(I10, "precesion_nutation")
    ex = Extract()
    X, Y = Poly.atom("X"), Poly.atom("Y")
    mat = None
    for n in ast.walk(f.node):
        if isinstance(n, ast.Call) and unparse(n.func) in ("np.array", "array"):
            mat = Extract({"a": Poly.atom("a"), "X": X, "Y": Y}).ev(n)
    if mat is None:
        raise AnalysisError(f"{f.ref}: CIO matrix literal not found")
    a = Poly.atom("a")
    want = [[1 - a * X * X, -a * X * Y, X], [-a * X * Y, 1 - a * Y * Y, Y], [-X, -Y, 1 - a * (X * X + Y * Y)]]
    for i in range(3):
        for j in range(3):
            ok = T.equal(mat[i][j], want[i][j])
            chk.obl("R02.7", f"{f.ref}::CIO[{i}][{j}]", ok, "IERS Conventions eq. 5.10" if ok else f"{T.fmt(mat[i][j])} != {T.fmt(want[i][j])}", loc(f, f.node))
    txt = unparse(f.node).replace(" ", "")
    ok = "d=np.arctan(np.sqrt((X**2+Y**2)/(1-X**2-Y**2)))" in txt and "a=1/(1+np.cos(d))" in txt and "@rot3(s)" in txt
    chk.inst("R02.7", f"{f.ref}::a-and-s", ok, "a = 1/(1+cos d), matrix @ rot3(s)" if ok else "changed", loc(f, f.node))
    # providers wire the right model function
    wiring = {("TEME", "TOD"): "equin = iau1980.equinox(date, eop_correction=False, terms=4, kinematic=False)|return (rot3(-np.deg2rad(equin)), None)",
              ("PEF", "TOD"): "m = iau1980.sideral(date, model='apparent', eop_correction=False)|return (m, -iau1980.rate(date))",
              ("TOD", "MOD"): "return (iau1980.nutation(date, eop_correction=False), None)",
              ("MOD", "EME2000"): "return (iau1980.precesion(date), None)",
              ("ITRF", "PEF"): "return (iau1980.earth_orientation(date), None)",
              ("ITRF", "TIRF"): "return (iau2010.earth_orientation(date), None)",
              ("TIRF", "CIRF"): "m = iau2010.sideral(date)|return (m, -iau2010.rate(date))",
              ("CIRF", "GCRF"): "return (iau2010.precesion_nutation(date), None)"}
    _, _, _, providers = orientation_table(chk)
    for key, want in wiring.items():
        f = providers.get(key)
        if f is None:
            chk.inst("R02.7", f"{ORIENT}::Orientation.{key[0]}_to_{key[1]}::wiring", False, "provider missing (or reversed: the matrix would be applied the wrong way)", ORIENT)
            continue
        got = "|".join(unparse(s) for s in body_without_doc(f.node)).replace(f.params()[1], "date")
        ok = got.replace(" ", "") == want.replace(" ", "")
        chk.inst("R02.7", f"{f.ref}::wiring", ok, "calls its model function with the documented options" if ok else f"`{got}`", loc(f, f.node))
    # constant matrices: orthonormal to 1e-9 (exact rational arithmetic on the literals)
    for key in (("G50", "EME2000"), ("GCRF", "EME2000")):
        f = providers.get(key)
        if f is None:
            continue
        mat_node = _returned_pair(f)[0]
        M = Extract().ev(mat_node)
        worst = F(0)
        for i in range(3):
            for j in range(3):
                v = sum((M[i][k].cval() * M[j][k].cval() for k in range(3)), F(0)) - (1 if i == j else 0)
                worst = max(worst, abs(v))
        d = T.det3(M).cval()
        ok = worst < F(1, 10 ** 9) and abs(d - 1) < F(1, 10 ** 9)
        chk.obl("R02.7", f"{f.ref}::constant-rotation", ok, f"R Rᵀ = I within {float(worst):.1e}, det = 1 within {float(abs(d - 1)):.1e} (exact arithmetic on the literals)" if ok else
                f"literal matrix is not a rotation: max |R Rᵀ − I| = {float(worst):.3e}, det = {float(d)}", loc(f, f.node))
    chk.floor("R02.7", 6 + 4 + 1 + 9 + 1 + 8 + 2)


def r02_8(chk):
    """Published coefficients: numeric literals of the model functions and the token streams of the IERS tables equal the
    committed references (bvstatic/data/constants.json, tables.json)."""
    import hashlib
    import json
    from pathlib import Path
    from ..frozen import compare, compare_formulas
    for rel, fn, what in ((I10, "_xys", "X, Y, s with EOP corrections"), (I10, "precesion_nutation", "CIO-based matrix"), (I80, "rate", "Earth rotation rate"), (I10, "rate", "Earth rotation rate")):
        f = chk.repo.func(rel, fn)
        compare_formulas(chk, "R02.8", f"{rel}::{fn}", f.node, loc(f, f.node), what)
    for rel, fn, what in ((I80, "_precesion", "IAU-76 precession polynomials"), (I80, "_nutation", "IAU-80 fundamental arguments"),
                          (I80, "equinox", "equation of the equinoxes, kinematic terms"), (I80, "_sideral", "GMST polynomial (IAU-82)"),
                          (I10, "_planets", "IERS 2010 fundamental arguments"), (I10, "_xysxy2", "IERS 2010 X, Y, s polynomial parts"),
                          (I10, "_sideral", "Earth rotation angle"), (I10, "_earth_orientation", "TIO locator s′")):
        f = chk.repo.func(rel, fn)
        compare(chk, "R02.8", f"{rel}::{fn}", f.node, loc(f, f.node), what)
        compare_formulas(chk, "R02.8", f"{rel}::{fn}", f.node, loc(f, f.node), what)
    ref = json.loads((Path(__file__).resolve().parent.parent / "data" / "tables.json").read_text())
    for name, want in sorted(ref.items()):
        p = chk.repo.root / "beyond" / "frames" / "data" / name
        if not p.exists():
            raise AnalysisError(f"data table {name} not found")
        toks = []
        for line in p.read_text(encoding="utf-8").splitlines():
            if line.strip().startswith("#") or not line.strip():
                continue
            toks.extend(line.split())
        got = hashlib.sha256(" ".join(toks).encode()).hexdigest()
        ok = got == want["sha256"] and len(toks) == want["tokens"]
        chk.inst("R02.8", f"beyond/frames/data/{name}::coefficients", ok, f"{len(toks)} tokens equal the reference table" if ok else
                 f"the coefficient table differs from the reference ({len(toks)} tokens vs {want['tokens']})", f"beyond/frames/data/{name}")
    # the readers of the tables
    t80 = chk.repo.func(I80, "_tab")
    ok = "([int(x) for x in fields[:5]], [float(x) for x in fields[6:]])" in unparse(t80.node) and "'tab5.1.txt'" in unparse(t80.node)
    chk.inst("R02.8", f"{t80.ref}", ok, "five integer multipliers, then (after the period column) the four coefficients" if ok else "reader changed", loc(t80, t80.node))
    t10 = chk.repo.func(I10, "_tab")
    t = unparse(t10.node)
    ok = "elements = ['tab5.2a.txt', 'tab5.2b.txt', 'tab5.2d.txt']" in t and "fields = line.split()[1:]" in t and "fields[:2] = [float(x) for x in fields[:2]]" in t and "fields[2:] = [int(x) for x in fields[2:]]" in t
    chk.inst("R02.8", f"{t10.ref}", ok, "X, Y, s tables; index dropped, two amplitudes, integer multipliers" if ok else "reader changed", loc(t10, t10.node))
    chk.floor("R02.8", 26)


def run(chk):
    chk.rule("R02.8", "published coefficients (model literals and IERS tables) equal the committed references")
    chk.rule("R02.1", "orientation graph is a tree with exactly one provider per link; frames pair equal names")
    chk.rule("R02.2", "rate returned iff the rotation is sidereal; same model; same sign")
    chk.rule("R02.3", "composition: inverse of the expanded matrix, left accumulation, negated reverse offsets, m@state+offset")
    chk.rule("R02.4", "rot1/2/3 proper rotations with one sense; expand() coupling block (term algebra)")
    chk.rule("R02.5", "IAU models read TT / UT1 clock fields from normalised dates only")
    chk.rule("R02.6", "EOP fields, series/model pairing, IERS column layout, unit constants")
    chk.rule("R02.7", "rotation sequences and model wiring; constant matrices are rotations")
    chk.guard(r02_1, chk)
    chk.guard(r02_2, chk)
    chk.guard(r02_3, chk)
    chk.guard(r02_4, chk)
    chk.guard(r02_5, chk)
    chk.guard(r02_6, chk)
    chk.guard(r02_6b, chk)
    chk.guard(r02_7, chk)
    chk.guard(r02_8, chk)
    from .common import conversion_is_a_read

    def conv_r02_9(c):
        conversion_is_a_read(c, "R02.9")
    chk.guard(conv_r02_9, chk)
    chk.assume("IERS readme.finals2000A column layout; rotation sequences of Vallado (IAU-76/FK5) and IERS Conventions 2010 (CIO based)")
