"""C13 — CCSDS OPM/OEM/OMM/TDM messages round-trip in KVN and XML (table-agreement clauses).

B1  W(kvn) = W(xml) per message type up to container tags and informational keys; CENTER_NAME is the same
    expression in both encodings; four-way dispatch exhaustive; detect2load matches both headers
B2  required(R) ⊆ W for both encodings; state-bearing W ⊆ R
B3  unit written = unit assumed by default on reading, and both are entries of units_dict
B4  covariance: load_cov's key at [i][j] is the key the writers generate for (max(i,j), min(i,j)); OEM-KVN rows
B5  frame alias maps (QSW <-> RSW/RTN) are mutually inverse at every site (covariance and maneuvers)
B6  the frame handed to Cov(...) is a local-orbital tag or a Frame object
B7  a tag the writer emits in a loop is normalised (list-or-single) before the reader iterates
B8  what a writer reads from the object ⊆ what every producer provides
B9  measurement names written = names accepted
N1  `….center.body.<attr>` on a writer path is dominated by a test of the body
"""
import ast
import re

from ..consts import NotConstant, enum_in_loops, small_eval
from ..model import AnalysisError, body_without_doc, call_name, cmp_triples, const_value, kwarg, loc, parent_map, unparse

CC = "beyond/io/ccsds/"
COMMONS = CC + "commons.py"
COV = CC + "cov.py"
TYPES = {"opm": CC + "opm.py", "oem": CC + "oem.py", "omm": CC + "omm.py", "tdm": CC + "tdm.py"}

KVN_LINE = re.compile(r"^(?:\{[^}]*\})?([A-Z][A-Z0-9_]*)[ \t]*=", re.M)
KVN_UNIT = re.compile(r"^(?:\{[^}]*\})?([A-Z][A-Z0-9_]*)[ \t]*=.*\[([^\]]+)\][ \t]*$", re.M)

XML_CONTAINERS = {"header", "body", "segment", "metadata", "data", "stateVector", "keplerianElements", "covarianceMatrix",
                  "maneuverParameters", "userDefinedParameters", "meanElements", "tleParameters", "observation"}
# written for the reader's information only (never carry state the reader must restore), with the reason
INFORMATIONAL = {
    "CREATION_DATE": "header", "ORIGINATOR": "header", "COMMENT": "free text", "META_START": "marker", "META_STOP": "marker",
    "DATA_START": "marker", "DATA_STOP": "marker", "COVARIANCE_START": "marker", "COVARIANCE_STOP": "marker",
    "SEMI_MAJOR_AXIS": "optional osculating elements, redundant with the state vector", "ECCENTRICITY": "idem (OPM)", "INCLINATION": "idem (OPM)",
    "RA_OF_ASC_NODE": "idem (OPM)", "ARG_OF_PERICENTER": "idem (OPM)", "TRUE_ANOMALY": "idem", "GM": "constant of the model",
    "START_TIME": "redundant with the first point", "STOP_TIME": "redundant with the last point", "MODE": "fixed value SEQUENTIAL",
    "MAN_DELTA_MASS": "mass is not modelled",
}
# written without keyword in the KVN encoding (data lines), with keyword in XML
POSITIONAL_IN_KVN = {"oem": {"EPOCH", "X", "Y", "Z", "X_DOT", "Y_DOT", "Z_DOT"}, "tdm": {"EPOCH"}}
# informational for one message type only
INFORMATIONAL_PER_TYPE = {"omm": {"CENTER_NAME": "an OMM is always Earth-centred TEME; the readers do not use it"}}
OMM_STATE = {"ECCENTRICITY", "INCLINATION", "RA_OF_ASC_NODE", "ARG_OF_PERICENTER"}   # these carry state in an OMM


def strip_doc(f):
    return body_without_doc(f.node)


class Scan:
    """Keys written / read by one function, with helpers resolved by name."""

    def __init__(self, chk, f):
        self.chk = chk
        self.f = f
        self.pm = parent_map(f.node)

    def loops_of(self, node):
        out = []
        n = node
        while n in self.pm:
            p = self.pm[n]
            if isinstance(p, ast.For) and n is not p.iter:
                out.append(p)
            elif isinstance(p, (ast.ListComp, ast.GeneratorExp, ast.SetComp)):
                for g in reversed(p.generators):
                    out.append(g)
            n = p
        return list(reversed(out))

    def literal_env(self, before):
        """name -> literal value of the nearest preceding assignment."""
        env = {}
        best = {}
        for n in ast.walk(self.f.node):
            if isinstance(n, ast.Assign) and len(n.targets) == 1 and isinstance(n.targets[0], ast.Name) and n.lineno < getattr(before, "lineno", 10 ** 9):
                try:
                    v = small_eval(n.value, {})
                except (NotConstant, Exception):
                    continue
                nm = n.targets[0].id
                if nm not in best or n.lineno > best[nm]:
                    best[nm] = n.lineno
                    env[nm] = v
        return env

    def defining_expr(self, name, before):
        best = None
        for n in ast.walk(self.f.node):
            if isinstance(n, ast.Assign) and len(n.targets) == 1 and isinstance(n.targets[0], ast.Name) and n.targets[0].id == name \
                    and n.lineno <= getattr(before, "lineno", 10 ** 9):
                if best is None or n.lineno > best.lineno:
                    best = n
        return best.value if best is not None else None

    def enum(self, expr, at):
        env = self.literal_env(at)
        if isinstance(expr, ast.Name) and expr.id not in env:
            d = self.defining_expr(expr.id, at)
            if d is not None and not isinstance(d, ast.Name):
                expr = d
        vals = enum_in_loops(expr, self.loops_of(at), env)
        return vals


def kvn_written(chk, f, dyn=None):
    """(keys, units{key: unit}, dynamic[list of (text, node)]) from string constants and f-strings of f."""
    keys, units, dynamic = set(), {}, []
    sc = Scan(chk, f)
    doc = ast.get_docstring(f.node)
    in_joined = set()
    for n in ast.walk(f.node):
        if isinstance(n, ast.JoinedStr):
            for p in n.values:
                in_joined.add(id(p))
    for n in ast.walk(f.node):
        if isinstance(n, ast.Constant) and isinstance(n.value, str) and id(n) not in in_joined and n.value != doc:
            for m in KVN_LINE.finditer(n.value):
                keys.add(m.group(1))
            for m in KVN_UNIT.finditer(n.value):
                units[m.group(1)] = m.group(2)
        elif isinstance(n, ast.JoinedStr):
            text = ""
            holes = []
            for p in n.values:
                if isinstance(p, ast.Constant):
                    text += str(p.value)
                else:
                    text += f"\x00{len(holes)}\x01"
                    holes.append(p)
            for m in KVN_LINE.finditer(text):
                keys.add(m.group(1))
            for m in KVN_UNIT.finditer(text):
                units[m.group(1)] = m.group(2)
            for m in re.finditer(r"^([A-Z_]*)\x00(\d+)\x01[ \t]*=", text, re.M):
                prefix, hole = m.group(1), holes[int(m.group(2))]
                vals = sc.enum(hole.value, n)
                if vals is not None and all(isinstance(v, str) for v in vals):
                    for v in vals:
                        keys.add(prefix + v)
                else:
                    dynamic.append((prefix, unparse(hole.value), n))
    return keys, units, dynamic


def dict_keys_named(f, names):
    """Keys of dict literals assigned to / passed as one of `names`, plus constant-subscript stores on them."""
    out = set()
    pats = set()
    for n in ast.walk(f.node):
        if isinstance(n, ast.Assign) and isinstance(n.targets[0], ast.Name) and n.targets[0].id in names and isinstance(n.value, ast.Dict):
            out |= {const_value(k) for k in n.value.keys if const_value(k) is not None}
        if isinstance(n, ast.keyword) and n.arg in names and isinstance(n.value, ast.Dict):
            out |= {const_value(k) for k in n.value.keys if const_value(k) is not None}
        if isinstance(n, ast.Assign) and isinstance(n.targets[0], ast.Subscript) and isinstance(n.targets[0].value, ast.Name) and n.targets[0].value.id in names:
            k = n.targets[0].slice
            if const_value(k) is not None:
                out.add(const_value(k))
            elif isinstance(k, ast.JoinedStr):
                pats.add("".join(p.value if isinstance(p, ast.Constant) else "*" for p in k.values))
    return out, pats


def xml_written(chk, f, domains):
    """(tags, units{tag: unit}, unresolved) from ET.SubElement calls of f.  `domains` maps a loop-iterable text to a key set."""
    tags, units, unresolved = set(), {}, []
    sc = Scan(chk, f)
    for n in ast.walk(f.node):
        if isinstance(n, ast.Call) and unparse(n.func) in ("ET.SubElement", "SubElement") and len(n.args) >= 2:
            t = n.args[1]
            vals = None
            if isinstance(t, ast.Constant):
                vals = [t.value]
            else:
                vals = sc.enum(t, n)
                if vals is None and isinstance(t, ast.Name):
                    # loop variable over a known domain (extras / meta / measurement names)
                    for lp in sc.loops_of(n):
                        names = {x.id for x in ast.walk(lp.target) if isinstance(x, ast.Name)}
                        if t.id in names:
                            dom = domains.get(unparse(lp.iter))
                            if dom is not None:
                                vals = sorted(dom)
                    if vals is None and t.id in domains:
                        vals = sorted(domains[t.id])
            if vals is None:
                unresolved.append((unparse(t), n))
                continue
            u = kwarg(n, "units")
            for v in vals:
                tags.add(v)
                if u is not None:
                    if isinstance(u, ast.Constant):
                        units[v] = u.value
                    elif isinstance(u, ast.IfExp):
                        # "km" if "DOT" not in k else "km/s"
                        try:
                            cond = u.test
                            if isinstance(cond, ast.Compare) and isinstance(cond.ops[0], (ast.In, ast.NotIn)) and isinstance(cond.left, ast.Constant):
                                res = (cond.left.value in v) ^ isinstance(cond.ops[0], ast.NotIn)
                                units[v] = (u.body if res else u.orelse).value
                        except Exception:
                            pass
    return tags, units, unresolved


def reader_keys(f):
    """(required, optional, units{key: default unit}) read by a loader function."""
    req, opt, units = set(), set(), {}
    pm = parent_map(f.node)
    guarded = set()
    for n in ast.walk(f.node):
        if isinstance(n, ast.Compare) and len(n.ops) == 1 and isinstance(n.ops[0], (ast.In, ast.NotIn)) and const_value(n.left) is not None and isinstance(n.left.value, str):
            opt.add(n.left.value)
            guarded.add(n.left.value)
    sc_env_loops = {}
    for n in ast.walk(f.node):
        if isinstance(n, ast.Subscript) and isinstance(n.ctx, ast.Load):
            k = const_value(n.slice)
            if isinstance(k, str) and (re.match(r"^[A-Z][A-Z0-9_]*$", k) or k in XML_CONTAINERS):
                (opt if k in guarded else req).add(k)
        elif isinstance(n, ast.Call):
            fn = unparse(n.func)
            if fn == "decode_unit" and len(n.args) >= 2:
                k = const_value(n.args[1])
                u = const_value(n.args[2]) if len(n.args) > 2 else None
                if k is None and isinstance(n.args[1], ast.Name):
                    # f_name = f"MAN_DV_{i}" in a literal loop
                    d = None
                    for a in ast.walk(f.node):
                        if isinstance(a, ast.Assign) and unparse(a.targets[0]) == n.args[1].id and isinstance(a.value, ast.JoinedStr):
                            d = a
                    if d is not None:
                        loops = []
                        x = d
                        while x in pm:
                            x = pm[x]
                            if isinstance(x, ast.For):
                                loops.append(x)
                        vals = enum_in_loops(d.value, list(reversed(loops)), {})
                        for v in vals or []:
                            req.add(v)
                            if u:
                                units[v] = u
                elif k is not None:
                    (opt if k in guarded else req).add(k)
                    if u:
                        units[k] = u
            elif isinstance(n.func, ast.Attribute) and n.func.attr in ("get", "pop") and n.args and isinstance(const_value(n.args[0]), str):
                (opt if n.func.attr == "get" else req).add(n.args[0].value)
            elif isinstance(n.func, ast.Attribute) and n.func.attr == "startswith" and n.args and isinstance(const_value(n.args[0]), str):
                k = n.args[0].value
                if re.match(r"^[A-Z][A-Z_]*$", k):
                    opt.add(k)
        elif isinstance(n, ast.Assign) and unparse(n.targets[0]) == "required" and isinstance(n.value, ast.Tuple):
            req |= {const_value(e) for e in n.value.elts}
    return req, opt - req, units


# ---------------------------------------------------------------------------------------------------------------------

def collect(chk):
    repo = chk.repo
    out = {}
    kvn_head = repo.func(COMMONS, "dump_kvn_header")
    kvn_meta = repo.func(COMMONS, "dump_kvn_meta_odm")
    xml_head = repo.func(COMMONS, "dump_xml_header")
    xml_meta = repo.func(COMMONS, "dump_xml_meta_odm")
    dump_cov = repo.func(COV, "dump_cov")
    load_cov = repo.func(COV, "load_cov")
    hk, _, _ = kvn_written(chk, kvn_head)
    hk = {k for k in hk if not k.startswith("CCSDS_")} | {"CCSDS_*_VERS"}
    mk, _, mdyn = kvn_written(chk, kvn_meta)
    hx, _, _ = xml_written(chk, xml_head, {})
    mx, _, mxun = xml_written(chk, xml_meta, {"kwargs.get('extras', {}).items()": set()})
    ck, cu, _ = kvn_written(chk, dump_cov)
    lreq, lopt, _ = reader_keys(load_cov)
    # the helpers do loop over extras
    ok = any(p == "" and v == "k" for p, v, _ in mdyn) and "for k, v in extras.items()" in unparse(kvn_meta.node)
    chk.inst("B1", f"{kvn_meta.ref}::extras-loop", ok, "KVN metadata writer emits every extra key" if ok else "extras loop changed", loc(kvn_meta, kvn_meta.node))
    ok = "for key, value in kwargs.get('extras', {}).items()" in unparse(xml_meta.node)
    chk.inst("B1", f"{xml_meta.ref}::extras-loop", ok, "XML metadata writer emits every extra key" if ok else "extras loop changed", loc(xml_meta, xml_meta.node))
    for typ, rel in TYPES.items():
        dk = repo.func(rel, "_dumps_kvn")
        dx = repo.func(rel, "_dumps_xml")
        lk = repo.func(rel, "_loads_kvn")
        lx = repo.func(rel, "_loads_xml")
        wk, uk, dyn = kvn_written(chk, dk)
        extras_k, _ = dict_keys_named(dk, {"extras"})
        extras_x, _ = dict_keys_named(dx, {"extras"})
        uses_meta_k = "dump_kvn_meta_odm(" in unparse(dk.node)
        uses_meta_x = "dump_xml_meta_odm(" in unparse(dx.node)
        uses_cov_k = "dump_cov(" in unparse(dk.node)
        domains = {}
        if typ == "tdm":
            cm = repo.func(rel, "collect_metadata")
            mkeys, mpats = dict_keys_named(cm, {"meta"})
            em = repo.func(rel, "encode_measurement")
            names = {const_value(n.value) for n in ast.walk(em.node) if isinstance(n, ast.Assign) and unparse(n.targets[0]) == "name" and isinstance(const_value(n.value), str)}
            domains = {"meta.items()": mkeys | {p for p in mpats}, "name": names}
            wk |= mkeys | {p for p in mpats} | names
            ok = "for k, v in meta.items()" in unparse(dk.node) and "for key, value in meta.items()" in unparse(dx.node)
            chk.inst("B1", f"{rel}::metadata-loops", ok, "both TDM writers emit every metadata key", rel, nontrivial=False)
        wx, ux, unres = xml_written(chk, dx, domains)
        for text, node in unres:
            raise AnalysisError(f"{dx.ref}: tag `{text}` of an ET.SubElement call cannot be enumerated")
        for p, v, node in dyn:
            if p == "USER_DEFINED_":
                wk.add("USER_DEFINED_*")
            elif not (typ == "tdm" and v == "k"):
                raise AnalysisError(f"{dk.ref}: KVN key `{p}{{{v}}}` cannot be enumerated")
        wk |= hk | (mk | extras_k if uses_meta_k else set()) | (ck if uses_cov_k else set())
        wx |= hx | (mx | extras_x if uses_meta_x else set())
        uk = dict(uk, **(cu if uses_cov_k else {}))
        rk = reader_keys(lk)
        rx = reader_keys(lx)
        uses_load_cov_k = "load_cov(" in unparse(lk.node)
        uses_load_cov_x = "load_cov(" in unparse(lx.node)
        out[typ] = dict(rel=rel, dk=dk, dx=dx, lk=lk, lx=lx, wk=wk, wx=wx, uk=uk, ux=ux, rk=rk, rx=rx,
                        cov_keys=(lreq | lopt), load_cov=(uses_load_cov_k, uses_load_cov_x))
    out["_cov"] = dict(dump=dump_cov, load=load_cov, written=ck, read_req=lreq, read_opt=lopt)
    return out


def norm_key(k):
    if k.startswith("USER_DEFINED"):
        return "USER_DEFINED"
    if k.startswith("PARTICIPANT_"):
        return "PARTICIPANT_*"
    return k


def b1_b2(chk, tab):
    for typ in TYPES:
        t = tab[typ]
        wk = {norm_key(k) for k in t["wk"]} - {"CCSDS_*_VERS"}
        wx = {norm_key(k) for k in t["wx"]} - XML_CONTAINERS
        only_k = wk - wx
        only_x = wx - wk
        for k in sorted(only_k | only_x):
            side = "KVN" if k in only_k else "XML"
            ok = k in INFORMATIONAL and k not in OMM_STATE if typ == "omm" else k in INFORMATIONAL
            ok = ok or k in INFORMATIONAL_PER_TYPE.get(typ, {})
            # COV_REF_FRAME & covariance keys of the OEM KVN are written positionally (no keywords): tabled
            if side == "XML" and k in POSITIONAL_IN_KVN.get(typ, ()) or (typ == "oem" and side == "XML" and re.match(r"^C[XYZ]", k)):
                ok = True
            chk.inst("B1", f"{t['rel']}::only-{side}::{k}", ok,
                     f"informational difference ({INFORMATIONAL.get(k, 'positional block in OEM KVN')})" if ok else
                     f"`{k}` is written by the {side} encoder only: the two encodings of the same object do not decode to the same object", t["rel"])
        chk.inst("B1", f"{t['rel']}::common-keys", True, f"{len(wk & wx)} keys written by both encoders", t["rel"], detail={"common": sorted(wk & wx)})
        # B2 (i): required by a reader ⊆ written by the matching writer
        for enc, (req, opt, _), w in (("kvn", t["rk"], wk | {"maneuvers"}), ("xml", t["rx"], wx | XML_CONTAINERS)):
            cov_extra = tab["_cov"]["read_req"] if t["load_cov"][0 if enc == "kvn" else 1] else set()
            wcov = {norm_key(k) for k in (tab["_cov"]["written"] if enc == "kvn" else t["wx"])}
            for k in sorted({norm_key(x) for x in req}):
                if k in ("orbits", "orbit_mapping", "dangling_covariance", "parameter"):
                    continue
                ok = k in w or (enc == "kvn" and k in POSITIONAL_IN_KVN.get(typ, ())) or (typ == "oem" and enc == "kvn" and (k == "COV_REF_FRAME" or re.match(r"^C[XYZ]", k)))
                chk.inst("B2", f"{t['rel']}::{enc}::required::{k}", ok, "written by the same encoding's writer" if ok else
                         f"the {enc.upper()} reader requires `{k}` but the {enc.upper()} writer never emits it: what was written cannot be read back", t["rel"])
            for k in sorted(cov_extra):
                ok = k in wcov or (typ == "oem" and enc == "kvn")
                chk.inst("B2", f"{t['rel']}::{enc}::required-cov::{k}", ok, "covariance key written" if ok else f"covariance key `{k}` required by load_cov is not written", t["rel"], nontrivial=False)
        # B2 (ii): state-bearing written ⊆ read
        for enc, (req, opt, _), w in (("kvn", t["rk"], wk), ("xml", t["rx"], wx)):
            read = {norm_key(x) for x in req | opt} | ({norm_key(x) for x in tab["_cov"]["read_req"] | tab["_cov"]["read_opt"]} if t["load_cov"][0 if enc == "kvn" else 1] else set())
            for k in sorted(w):
                if k in INFORMATIONAL and not (typ == "omm" and k in OMM_STATE):
                    continue
                if k in INFORMATIONAL_PER_TYPE.get(typ, {}):
                    continue
                if typ == "oem" and enc == "kvn" and (re.match(r"^C[XYZ]", k)):
                    continue
                ok = k in read or (typ == "tdm" and k in ("RANGE", "ANGLE_1", "ANGLE_2", "DOPPLER_INSTANTANEOUS", "PARTICIPANT_*"))
                chk.inst("B2", f"{t['rel']}::{enc}::written-is-read::{k}", ok, "read back by the same encoding's reader" if ok else
                         f"`{k}` is written by the {enc.upper()} writer but never read by the {enc.upper()} reader: it does not survive the round trip", t["rel"])
    chk.floor("B1", 10)
    chk.floor("B2", 150)


def b1_dispatch(chk):
    repo = chk.repo
    cc = CC + "ccsds.py"
    for fn, attr in (("loads", "loads"), ("dumps", "dumps")):
        f = repo.func(cc, fn)
        arms = {}
        for n in ast.walk(f.node):
            if isinstance(n, ast.If):
                tr = cmp_triples(n.test)
                if len(tr) == 1 and unparse(tr[0][0]) == "type" and tr[0][1] == "==":
                    arms[const_value(tr[0][2])] = unparse(n.body[0])
        ok = set(arms) == set(TYPES) and all(f"{t}.{attr}" in arms[t] for t in TYPES)
        chk.inst("B1", f"{f.ref}::dispatch", ok, "each of the four types dispatches to its own module" if ok else f"{arms}", loc(f, f.node))
    for typ, rel in TYPES.items():
        for fn in ("loads", "dumps"):
            f = repo.func(rel, fn)
            txt = unparse(f.node)
            if fn == "loads" and typ == "tdm":
                ok = "if fmt == 'kvn':" in txt and "_loads_kvn(" in txt and "_loads_xml(" in txt
            else:
                ok = "fmt == 'kvn'" in txt and "fmt == 'xml'" in txt and f"_{fn}_kvn(" in txt and f"_{fn}_xml(" in txt
                i_k, i_x = txt.index("fmt == 'kvn'"), txt.index("fmt == 'xml'")
                ok = ok and txt.index(f"_{fn}_kvn(") > i_k and txt.index(f"_{fn}_xml(") > i_x and txt.index(f"_{fn}_kvn(") < i_x
            chk.inst("B1", f"{f.ref}::format-dispatch", ok, "kvn → kvn codec, xml → xml codec" if ok else "format dispatch changed", loc(f, f.node))
    f = repo.func(COMMONS, "detect2load")
    txt = unparse(f.node)
    ok = "'kvn' if string.lstrip().startswith('CCSDS_') else 'xml'" in txt and "re.search('CCSDS_([A-Z]{3})_VERS', string, re.M)" in txt \
        and "m.group(1) in ['OPM', 'OMM', 'OEM', 'TDM']" in txt and "type = m.group(1).lower()" in txt
    chk.inst("B1", f"{f.ref}::pattern", ok, "KVN starts with CCSDS_; both headers carry CCSDS_<TYPE>_VERS" if ok else "detection changed", loc(f, f.node))
    hk = repo.func(COMMONS, "dump_kvn_header")
    hx = repo.func(COMMONS, "dump_xml_header")
    ok = "CCSDS_{type}_VERS = {version}" in unparse(hk.node) and "type=ccsds_type.upper()" in unparse(hk.node) and "f'CCSDS_{ccsds_type.upper()}_VERS'" in unparse(hx.node)
    chk.inst("B1", f"{COMMONS}::headers", ok, "both headers emit CCSDS_<TYPE>_VERS" if ok else "header changed", COMMONS)
    f = repo.func(COMMONS, "get_format")
    ok = "kwargs.get('fmt', config.get('io', 'ccsds_default_format', fallback=DEFAULT_FMT))" in unparse(f.node)
    chk.inst("B1", f"{f.ref}::precedence", ok, "argument, then configuration, then 'kvn'" if ok else "precedence changed", loc(f, f.node))
    d2d = repo.func(COMMONS, "detect2dump")
    txt = unparse(d2d.node)
    ok = "isinstance(data, Ephem)" in txt and "type = 'oem'" in txt and "type = 'omm'" in txt and "type = 'opm'" in txt and "type = 'tdm'" in txt \
        and "data.frame == TEME" in txt and "data.form is TLE" in txt
    chk.inst("B1", f"{d2d.ref}", ok, "Ephem→OEM, TLE-form SGP4 orbit→OMM, other states→OPM, measures→TDM" if ok else "changed", loc(d2d, d2d.node))
    # CENTER_NAME: same value in both encodings (the readers rebuild the frame name with .title().replace(' ', ''))
    km = repo.func(COMMONS, "dump_kvn_meta_odm")
    xm = repo.func(COMMONS, "dump_xml_meta_odm")

    def center_rule(f):
        tests = []
        for n in ast.walk(f.node):
            if isinstance(n, ast.If) and "re.findall('[A-Z][^A-Z]*'" in unparse(n.body[0]):
                tests.append(unparse(n.test))
        return tests
    tk, tx = center_rule(km), center_rule(xm)

    def split_set(t):
        m = re.search(r"re\.search\('([^']*)'", t)
        if m:
            return set(m.group(1).split("|"))
        m = re.search(r"'([^']*)' in", t)
        return {m.group(1)} if m else set()
    sk, sx = (split_set(tk[0]) if tk else set()), (split_set(tx[0]) if tx else set())
    ok = bool(sk) and sk == sx
    chk.inst("B1", f"{COMMONS}::CENTER_NAME-same-rule", ok, f"both encoders split centre names matching {sorted(sk)} into words" if ok else
             f"KVN splits names matching {sorted(sk)} into words, XML only {sorted(sx)}: a centre such as 'SunEarthL2' is written as one word in XML and "
             f"read back as 'Sunearthl2' (unknown frame)", loc(xm, xm.node))
    # OBJECT_NAME / OBJECT_ID: the same expression in both encodings (keyword override first, then the object's attribute).
    # Wave o: the XML OBJECT_ID read the `name` keyword -- a copy of the line above it.
    kv = {}
    for n in ast.walk(km.node):
        if isinstance(n, ast.Call) and isinstance(n.func, ast.Attribute) and n.func.attr == "format":
            for kw in n.keywords:
                if kw.arg in ("name", "cospar_id"):
                    kv[kw.arg] = unparse(kw.value)
    xv = {}
    for n in ast.walk(xm.node):
        if isinstance(n, ast.Assign) and len(n.targets) == 1 and isinstance(n.targets[0], ast.Attribute) and n.targets[0].attr == "text" \
                and isinstance(n.targets[0].value, ast.Name) and n.targets[0].value.id in ("name", "cospar_id"):
            xv[n.targets[0].value.id] = unparse(n.value)
    for key, tag in (("name", "OBJECT_NAME"), ("cospar_id", "OBJECT_ID")):
        want = f"kwargs.get('{key}', getattr(data, '{key}', 'N/A'))"
        ok = kv.get(key) == xv.get(key) == want
        chk.inst("B1", f"{COMMONS}::{tag}-same-value", ok, f"{tag} = {want} in both encodings" if ok else
                 f"KVN writes {kv.get(key)}, XML writes {xv.get(key)}", loc(xm, xm.node))
    for typ, rel in TYPES.items():
        if typ == "tdm":
            continue
        for fn in ("_loads_kvn", "_loads_xml"):
            f = repo.func(rel, fn)
            ok = ".title().replace(' ', '')" in unparse(f.node) and ".lower() != 'earth'" in unparse(f.node) if typ != "omm" else True
            if typ != "omm":
                chk.inst("B1", f"{f.ref}::frame-from-centre", ok, "non-Earth centres name the frame (Title-cased words joined)" if ok else "changed", loc(f, f.node))


def b3(chk, tab):
    repo = chk.repo
    ud = repo.module(COMMONS).assigns.get("units_dict")
    known = {const_value(k) for k in ud.keys} if isinstance(ud, ast.Dict) else set()
    vals = {const_value(k): unparse(v) for k, v in zip(ud.keys, ud.values)} if isinstance(ud, ast.Dict) else {}
    want = {"km": "units.km", "km/s": "units.km", "s": "1", "deg": "np.pi / 180.0", "rev/day": "2 * np.pi / units.day", "km**3/s**2": "units.km ** 3",
            "rev/day**2": "1", "rev/day**3": "1", "1/ER": "1"}
    for u, w in want.items():
        ok = vals.get(u) == w
        chk.inst("B3", f"{COMMONS}::units_dict[{u}]", ok, f"{u} → ×{w} to SI" if ok else f"units_dict[{u!r}] = {vals.get(u)}", COMMONS)
    um = repo.module("beyond/utils/units.py")
    ok = unparse(um.assigns.get("km")) == "1000.0" if um.assigns.get("km") is not None else False
    chk.inst("B3", "beyond/utils/units.py::km", ok, "km = 1000 m" if ok else "changed", "beyond/utils/units.py")
    for typ in TYPES:
        t = tab[typ]
        ru_k, ru_x = t["rk"][2], t["rx"][2]
        keys = sorted(set(t["uk"]) | set(t["ux"]) | set(ru_k) | set(ru_x))
        for k in keys:
            vals_ = {"kvn-writer": t["uk"].get(k), "xml-writer": t["ux"].get(k), "kvn-reader-default": ru_k.get(k), "xml-reader-default": ru_x.get(k)}
            present = {a: b for a, b in vals_.items() if b is not None}
            if k == "MAN_DELTA_MASS" or k in INFORMATIONAL and not (typ == "omm" and k in OMM_STATE):
                continue
            if re.match(r"^C[XYZ]", k):
                continue
            ok = len(set(present.values())) == 1 and all(v in known for v in present.values())
            chk.inst("B3", f"{t['rel']}::unit::{k}", ok, f"unit {set(present.values())} on all sides" if ok else f"units disagree or are unknown: {present}", t["rel"])
    # decode_unit / code_unit are inverse by construction
    du = repo.func(COMMONS, "decode_unit")
    cu = repo.func(COMMONS, "code_unit")
    ok = "float(value) * units_dict[unit]" in unparse(du.node) and f"{cu.params()[0]}[{cu.params()[1]}] / units_dict[{cu.params()[2]}]" in unparse(cu.node) \
        and "if unit not in units_dict:" in unparse(du.node)
    chk.inst("B3", f"{COMMONS}::decode/code", ok, "decode multiplies, code divides by the same table; unknown units refused" if ok else "changed", COMMONS)
    # writer conversions at the state-bearing sites
    sites = [("opm", "_dumps_kvn", "cartesian=cart / units.km"), ("opm", "_dumps_xml", "getattr(cart, v) / units.km"), ("opm", "_dumps_kvn", "dv=man._dv / units.km"),
             ("opm", "_dumps_xml", "man._dv[i] / units.km"), ("oem", "_dumps_kvn", "orb=orb.base / units.km"), ("oem", "_dumps_xml", "getattr(el, v) / units.km"),
             ("omm", "_dumps_kvn", "n=code_unit(data, 'n', 'rev/day')"), ("omm", "_dumps_xml", "code_unit(data, 'n', 'rev/day')"),
             ("omm", "_dumps_xml", "np.degrees(getattr(data, v))"), ("omm", "_dumps_kvn", "ndot=code_unit(data, 'ndot', 'rev/day**2') / 2"),
             ("omm", "_dumps_kvn", "ndotdot=code_unit(data, 'ndotdot', 'rev/day**3') / 6"), ("omm", "_dumps_xml", "data.ndot / 2"), ("omm", "_dumps_xml", "data.ndotdot / 6"),
             ("omm", "_loads_kvn", "decode_unit(data, 'MEAN_MOTION_DOT', 'rev/day**2') * 2"), ("omm", "_loads_kvn", "decode_unit(data, 'MEAN_MOTION_DDOT', 'rev/day**3') * 6"),
             ("omm", "_loads_xml", "decode_unit(tle_params, 'MEAN_MOTION_DOT', 'rev/day**2') * 2"), ("omm", "_loads_xml", "decode_unit(tle_params, 'MEAN_MOTION_DDOT', 'rev/day**3') * 6"),
             ("tdm", "encode_measurement", "value = m.value / units.km"), ("tdm", "encode_measurement", "value = -np.degrees(m.value) % 360"),
             ("tdm", "encode_measurement", "value = np.degrees(m.value)"), ("tdm", "_loads_kvn", "Azimut(path, date, np.radians(-value))"),
             ("tdm", "_loads_kvn", "Elevation(path, date, np.radians(value))"), ("tdm", "_loads_kvn", "Range(path, date, value * r_unit)"),
             ("tdm", "_loads_xml", "Azimut(path, date, np.radians(-value))"), ("tdm", "_loads_xml", "Elevation(path, date, np.radians(value))"),
             ("tdm", "_loads_xml", "Range(path, date, value * r_unit)")]
    for typ, fn, frag in sites:
        f = repo.func(TYPES[typ], fn)
        ok = frag.replace(" ", "") in unparse(f.node).replace(" ", "")
        chk.inst("B3", f"{f.ref}::conversion::{frag}", ok, "conversion inverse to the other side's" if ok else f"`{frag}` not found", loc(f, f.node))
    # covariance m² <-> km²
    for typ, fn in (("opm", "_dumps_xml"), ("oem", "_dumps_kvn"), ("oem", "_dumps_xml"), ("omm", "_dumps_xml")):
        f = repo.func(TYPES[typ], fn)
        ok = "/ 1000000.0" in unparse(f.node)
        chk.inst("B3", f"{f.ref}::cov-km²", ok, "covariance written in km² (÷1e6)" if ok else "changed", loc(f, f.node))
    ok = "/ 1000000.0" in unparse(tab["_cov"]["dump"].node) and "* 1000000.0" in unparse(tab["_cov"]["load"].node)
    chk.inst("B3", f"{COV}::cov-km²", ok, "dump ÷1e6, load ×1e6" if ok else "changed", COV)
    chk.floor("B3", 60)


ELEMS = ["X", "Y", "Z", "X_DOT", "Y_DOT", "Z_DOT"]


def b4(chk, tab):
    f = tab["_cov"]["load"]
    vals = [n for n in ast.walk(f.node) if isinstance(n, ast.Assign) and unparse(n.targets[0]) == "values"]
    if len(vals) != 1 or not isinstance(vals[0].value, ast.List):
        raise AnalysisError(f"{f.ref}: `values` matrix literal not found")
    rows = vals[0].value.elts
    ok = len(rows) == 6 and all(isinstance(r, ast.List) and len(r.elts) == 6 for r in rows)
    chk.inst("B4", f"{f.ref}::shape", ok, "6×6", loc(f, vals[0]), nontrivial=False)
    if ok:
        for i in range(6):
            for j in range(6):
                e = rows[i].elts[j]
                want = f"C{ELEMS[max(i, j)]}_{ELEMS[min(i, j)]}"
                got = None
                if isinstance(e, ast.Attribute) and e.attr == "text" and isinstance(e.value, ast.Subscript):
                    got = const_value(e.value.slice)
                ok2 = got == want
                chk.inst("B4", f"{f.ref}::values[{i}][{j}]", ok2, want if ok2 else f"entry ({i},{j}) reads `{got}`, the writers store that element under `{want}`", loc(f, e))
    # writers generate C{elems[i]}_{elems[j]} for j <= i with value cov[i, j]
    for fobj in [tab["_cov"]["dump"]] + [tab[t]["dx"] for t in ("opm", "oem", "omm")]:
        txt = unparse(fobj.node)
        ok = "elems = ['X', 'Y', 'Z', 'X_DOT', 'Y_DOT', 'Z_DOT']" in txt and "for i, a in enumerate(elems):" in txt and "for j, b in enumerate(elems[:i + 1]):" in txt
        ok = ok and re.search(r"cov\[i, j\] / 1000000\.0", txt) is not None
        chk.inst("B4", f"{fobj.ref}::generator", ok, "key C{row}_{col} for col ≤ row carries cov[row, col]" if ok else "key generator changed", loc(fobj, fobj.node))
    # OEM KVN rows
    dk = tab["oem"]["dk"]
    txt = unparse(dk.node)
    ok = "for i in range(6):" in txt and "for j in range(i + 1):" in txt and "orb.cov[i, j] / 1000000.0" in txt
    chk.inst("B4", f"{dk.ref}::rows", ok, "row i holds cov[i, 0..i]" if ok else "changed", loc(dk, dk.node))
    lk = tab["oem"]["lk"]
    for n in ast.walk(lk.node):
        if isinstance(n, ast.If):
            tr = cmp_triples(n.test)
            if len(tr) == 1 and unparse(tr[0][0]) == "len(values)" and tr[0][1] == "==":
                k = const_value(tr[0][2])
                got = []
                for s in n.body:
                    if isinstance(s, ast.Assign) and isinstance(s.targets[0], ast.Subscript) and unparse(s.targets[0].value) == "cov":
                        idx = None
                        if isinstance(s.value, ast.Call) and s.value.args and isinstance(s.value.args[0], ast.Subscript):
                            idx = const_value(s.value.args[0].slice)
                        got.append((const_value(s.targets[0].slice), idx))
                want = [(f"C{ELEMS[k - 1]}_{ELEMS[j]}", j) for j in range(k)]
                ok = got == want
                chk.inst("B4", f"{lk.ref}::row-{k}", ok, f"row of {k} values → {[w[0] for w in want]}" if ok else f"row of {k} values is stored as {got}", loc(lk, n))
    chk.floor("B4", 36 + 4 + 1 + 6)


def b5_b6(chk, tab):
    repo = chk.repo
    # covariance alias, writers
    sites = [tab["_cov"]["dump"]] + [tab[t]["dx"] for t in ("opm", "oem", "omm")] + [tab["oem"]["dk"]]
    for f in sites:
        found = False
        for n in ast.walk(f.node):
            if isinstance(n, ast.If) and unparse(n.test) == "frame == 'QSW'" and "cov" in unparse(f.node):
                # covariance sites assign `frame = X.cov.frame` just before
                if len(n.body) == 1 and unparse(n.body[0]) == "frame = 'RSW'":
                    found = True
        chk.inst("B5", f"{f.ref}::cov-QSW→RSW", found, "covariance frame QSW is written RSW" if found else "alias missing", loc(f, f.node))
    lc = tab["_cov"]["load"]
    txt = unparse(lc.node)
    ok = "if frame in ('RSW', 'RTN'):\n        frame = 'QSW'" in txt
    chk.inst("B5", f"{lc.ref}::cov-RSW→QSW", ok, "covariance frame RSW/RTN is read QSW" if ok else "alias missing", loc(lc, lc.node))
    # maneuvers: writers QSW→RSW, readers must map back
    for f in (tab["opm"]["dk"], tab["opm"]["dx"]):
        ok = "elif man.frame == 'QSW':\n                frame = 'RSW'" in unparse(f.node)
        chk.inst("B5", f"{f.ref}::man-QSW→RSW", ok, "maneuver frame QSW is written RSW" if ok else "alias missing", loc(f, f.node))
    for f in (tab["opm"]["lk"], tab["opm"]["lx"]):
        t = unparse(f.node)
        back = re.search(r"\('RSW', 'RTN'\)|== 'RSW'|'RSW': 'QSW'", t) is not None and "'QSW'" in t
        chk.inst("B5", f"{f.ref}::man-RSW→QSW", back, "maneuver frame RSW/RTN is read back as QSW" if back else
                 "MAN_REF_FRAME is taken verbatim: a QSW maneuver is written 'RSW' and read back with the unknown tag 'RSW', which "
                 "ImpulsiveMan.dv / ContinuousMan.accel treat as inertial (delta-v applied along the wrong axes)", loc(f, f.node))
    # B6: frame handed to Cov(...)
    calls = [n for n in ast.walk(lc.node) if isinstance(n, ast.Call) and unparse(n.func) == "Cov"]
    ok = False
    what = "Cov(...) call not found"
    if len(calls) == 1 and len(calls[0].args) == 3:
        farg = unparse(calls[0].args[2])
        # acceptable: every definition of the name is orb.frame, a literal local tag, or a get_frame(...) call
        defs = [unparse(n.value) for n in ast.walk(lc.node) if isinstance(n, ast.Assign) and unparse(n.targets[0]) == farg]
        bad = [d for d in defs if not (d in ("orb.frame", "'QSW'", "'TNW'") or d.startswith("get_frame("))]
        # a raw text is acceptable when everything but the local-orbital tags is converted before the call
        converted = False
        for n in ast.walk(lc.node):
            if isinstance(n, ast.If) and n.lineno < calls[0].lineno:
                for cmp in [c for c in ast.walk(n.test) if isinstance(c, ast.Compare)]:
                    if len(cmp.ops) == 1 and isinstance(cmp.ops[0], ast.NotIn) and unparse(cmp.left) == farg and isinstance(cmp.comparators[0], (ast.Tuple, ast.List, ast.Set)):
                        tags = {const_value(e) for e in cmp.comparators[0].elts}
                        if {"QSW", "TNW"} <= tags and any(unparse(st).replace(" ", "") == f"{farg}=get_frame({farg})" for st in n.body):
                            converted = True
        if converted:
            bad = [d for d in bad if not d.endswith(".text")]
        ok = not bad
        what = "frame is the orbit's Frame, a local-orbital tag, or resolved with get_frame" if ok else \
            f"`{farg}` may be the raw text {bad}: Cov.frame setter then compares/uses a str where a Frame is needed (AttributeError on the next frame change)"
    chk.inst("B6", f"{lc.ref}::Cov-frame", ok, what, loc(lc, lc.node))
    chk.floor("B5", 10)


def b7(chk, tab):
    """Tags emitted in a writer loop: the XML reader must normalise list-or-single before iterating."""
    for typ in TYPES:
        dx, lx = tab[typ]["dx"], tab[typ]["lx"]
        sc = Scan(chk, dx)
        looped = set()
        for n in ast.walk(dx.node):
            if isinstance(n, ast.Call) and unparse(n.func) in ("ET.SubElement",) and len(n.args) >= 2 and isinstance(n.args[1], ast.Constant):
                loops = sc.loops_of(n)
                if loops:
                    # repeated only if its parent element is created outside the innermost loop around it
                    parent = unparse(n.args[0])
                    pdef = [a for a in ast.walk(dx.node) if isinstance(a, ast.Assign) and unparse(a.targets[0]) == parent]
                    parent_in_same_loop = any(loops[-1] in sc.loops_of(a) for a in pdef)
                    if not parent_in_same_loop:
                        looped.add((n.args[1].value, parent))
        # tags iterated by the reader
        src = unparse(lx.node)
        for tag, parent in sorted(looped):
            iterated = None
            for n in ast.walk(lx.node):
                if isinstance(n, ast.For):
                    it = n.iter
                    txt = unparse(it)
                    if f"'{tag}'" in txt:
                        iterated = n
                    elif isinstance(it, ast.Name):
                        # local bound to X.get('tag') / X['tag']
                        for a in ast.walk(lx.node):
                            if isinstance(a, ast.Assign) and unparse(a.targets[0]) == it.id and f"'{tag}'" in unparse(a.value):
                                iterated = n
            if iterated is None:
                continue
            itname = unparse(iterated.iter)
            normalised = False
            for n in ast.walk(lx.node):
                if isinstance(n, ast.If) and "isinstance(" in unparse(n.test) and ("dict" in unparse(n.test) or "list" in unparse(n.test) or "Field" in unparse(n.test)):
                    tgt = [unparse(s.targets[0]) for s in n.body if isinstance(s, ast.Assign)]
                    for tname in tgt:
                        if tname == itname or f"'{tag}'" in tname or any(isinstance(a, ast.Assign) and unparse(a.targets[0]) == tname and f"'{tag}'" in unparse(a.value) for a in ast.walk(lx.node)):
                            normalised = True
            chk.inst("B7", f"{lx.ref}::{tag}", normalised,
                     "list-or-single normalised before iterating" if normalised else
                     f"the writer emits <{tag}> once per item, xml2dict returns a bare element (not a list) when there is exactly one, "
                     f"and the reader iterates `{itname}` without normalising: a message with a single <{tag}> cannot be read", loc(lx, iterated))
    chk.floor("B7", 5)


def b8(chk, tab):
    """OMM KVN writer reads data.tle.* — provided only by Tle.orbit()."""
    for enc in ("dk", "dx"):
        f = tab["omm"][enc]
        reads = set()
        for n in ast.walk(f.node):
            if isinstance(n, ast.Constant) and isinstance(n.value, str):
                for m in re.finditer(r"\{tle\.tle\.([a-z_]+)", n.value):
                    reads.add(m.group(1))
            if isinstance(n, ast.Attribute) and isinstance(n.value, ast.Attribute) and unparse(n.value) == "data.tle":
                reads.add(n.attr)
        ok = not reads
        chk.inst("B8", f"{f.ref}::reads-only-orbit-fields", ok, "reads only fields every producer of an OMM-able orbit provides" if ok else
                 f"reads data.tle.{sorted(reads)}: the `tle` item exists only on orbits built by Tle.orbit(); an orbit read from an OMM (either "
                 f"encoding) or built by hand cannot be written as KVN (AttributeError)", loc(f, f.node))
    # the two OMM writers agree on where the TLE parameters come from
    src = {}
    for enc in ("dk", "dx"):
        f = tab["omm"][enc]
        t = unparse(f.node) + "".join(n.value for n in ast.walk(f.node) if isinstance(n, ast.Constant) and isinstance(n.value, str))
        src[enc] = {k: (f"data.{k}" in t or f"tle.{k}" in t and f"tle.tle.{k}" not in t) for k in ("norad_id", "element_nb", "revolutions")}
    for k in ("norad_id", "element_nb", "revolutions"):
        ok = src["dk"][k] and src["dx"][k]
        chk.inst("B8", f"{TYPES['omm']}::{k}-source", ok, f"both encoders read `{k}` from the orbit itself" if ok else f"KVN reads it from the orbit: {src['dk'][k]}, XML: {src['dx'][k]}", TYPES["omm"])
    chk.floor("B8", 5)


def b9(chk, tab):
    repo = chk.repo
    em = repo.func(TYPES["tdm"], "encode_measurement")
    arms = []
    st = body_without_doc(em.node)[0]
    while isinstance(st, ast.If):
        cls = unparse(st.test).replace("isinstance(m, ", "").rstrip(")")
        name = [const_value(s.value) for s in st.body if isinstance(s, ast.Assign) and unparse(s.targets[0]) == "name"]
        arms.append((cls, name[0] if name else None))
        st = st.orelse[0] if len(st.orelse) == 1 else None
    imported = set(repo.module(TYPES["tdm"]).imports)
    for fn in ("_loads_kvn", "_loads_xml"):
        f = repo.func(TYPES["tdm"], fn)
        accepted = set()
        for n in ast.walk(f.node):
            if isinstance(n, ast.Compare):
                for l, op, r in cmp_triples(n):
                    if op == "==" and unparse(l) in ("key", "meas_type") and isinstance(const_value(r), str):
                        accepted.add(const_value(r))
        for cls, name in arms:
            if cls not in imported:
                continue      # class not importable in this module: the arm is dead code (symtable cross-reference)
            ok = name in accepted
            chk.inst("B9", f"{f.ref}::accepts::{name}({cls})", ok, f"{cls} measurements are read back" if ok else
                     f"the writer emits `{name}` for {cls} measurements but this reader rejects it (CcsdsError 'Unknown type'): a measure set with {cls} cannot be read back", loc(f, f.node))
    chk.floor("B9", 6)


def n1(chk, tab):
    for f in (tab["opm"]["dk"], tab["opm"]["dx"]):
        pm = parent_map(f.node)
        for n in ast.walk(f.node):
            if isinstance(n, ast.Attribute) and isinstance(n.value, ast.Attribute) and n.value.attr == "body" and isinstance(n.value.value, ast.Attribute) and n.value.value.attr == "center":
                guarded = False
                x = n
                while x in pm:
                    p = pm[x]
                    if isinstance(p, ast.If) and x is not p.test and ("body" in unparse(p.test)):
                        guarded = True
                    x = p
                chk.inst("N1", f"{f.ref}::{unparse(n)}", guarded, "dereference dominated by a test of the body" if guarded else
                         f"`{unparse(n)}` is reached whenever the orientation is inertial, but Center.body defaults to None (frames.lagrange creates such centres): "
                         f"an OPM in a Lagrange-point frame cannot be written with default arguments (AttributeError)", loc(f, n))
    chk.floor("N1", 2)


RECORD_ACCUMULATORS = [
    # (file, function, accumulator, test text of the arm that starts a record, why)
    (TYPES["oem"], "_loads_kvn", "cov", "line.startswith('EPOCH')", "one dict per covariance: optional COV_REF_FRAME must not leak from the previous one"),
    (COMMONS, "kvn2dict", "man", "key == 'MAN_EPOCH_IGNITION'", "one dict per maneuver: the optional COMMENT must not leak"),
]


def b10(chk, tab):
    """Per-record accumulators of the line-oriented readers are created afresh where the record starts."""
    for rel, fn, var, start, why in RECORD_ACCUMULATORS:
        f = chk.repo.func(rel, fn)
        arms = [n for n in ast.walk(f.node) if isinstance(n, ast.If) and unparse(n.test) == start]
        ok = False
        what = f"record-start arm `{start}` not found"
        if len(arms) == 1:
            creates = [s for s in arms[0].body if isinstance(s, ast.Assign) and unparse(s.targets[0]) == var and isinstance(s.value, (ast.Dict, ast.Call))]
            others = [n for n in ast.walk(f.node) if isinstance(n, ast.Assign) and unparse(n.targets[0]) == var and n not in creates]
            ok = len(creates) == 1 and not others
            what = f"`{var}` is created once per record ({why})" if ok else \
                f"`{var}` is created {len(creates)} time(s) in the record-start arm and {len(others)} time(s) elsewhere: keys of one record (optional ones included) survive into the next"
        chk.inst("B10", f"{f.ref}::{var}", ok, what, loc(f, arms[0]) if arms else loc(f, f.node))
    # TDM: one MeasureSet per DATA_START; TLE grouping is decided under C12
    f = chk.repo.func(TYPES["tdm"], "_loads_kvn")
    arms = [n for n in ast.walk(f.node) if isinstance(n, ast.If) and unparse(n.test) == "line.startswith('DATA_START')"]
    ok = len(arms) == 1 and any(unparse(s).replace(" ", "") == "data=MeasureSet()" for s in arms[0].body)
    chk.inst("B10", f"{f.ref}::data", ok, "one MeasureSet per data block" if ok else "changed", loc(f, f.node))
    chk.floor("B10", 3)


def b11(chk, tab):
    """Index agreement between siblings: the i-th component written under a numbered / ordered key is the same component
    in both encodings and on reading."""
    opm_k, opm_x = tab["opm"]["dk"], tab["opm"]["dx"]
    tk = "".join(n.value for n in ast.walk(opm_k.node) if isinstance(n, ast.Constant) and isinstance(n.value, str))
    ok = all(f"MAN_DV_{i + 1}             = {{dv[{i}]:.6f}} [km/s]" in tk for i in range(3)) and "dv=man._dv / units.km" in unparse(opm_k.node)
    chk.inst("B11", f"{opm_k.ref}::MAN_DV_i", ok, "MAN_DV_i carries component i−1 of the maneuver's own delta-v" if ok else "numbering changed", loc(opm_k, opm_k.node))
    tx = unparse(opm_x.node)
    ok = "for i in range(3):\n                x = ET.SubElement(mans, f'MAN_DV_{i + 1}', units='km/s')\n                x.text = f'{man._dv[i] / units.km:.6f}'" in tx
    chk.inst("B11", f"{opm_x.ref}::MAN_DV_i", ok, "MAN_DV_{i+1} carries component i" if ok else "numbering changed", loc(opm_x, opm_x.node))
    for fobj in (tab["opm"]["lk"], tab["opm"]["lx"]):
        t = unparse(fobj.node)
        ok = "for i in range(1, 4):" in t and "f_name = f'MAN_DV_{i}'" in t and "man.setdefault('dv', []).append(decode_unit(raw_man, f_name, 'km/s'))" in t
        chk.inst("B11", f"{fobj.ref}::MAN_DV_i", ok, "components appended in the order 1, 2, 3" if ok else "changed", loc(fobj, fobj.node))
    # state vector component ↔ keyword
    pairs = {"X": "x", "Y": "y", "Z": "z", "X_DOT": "vx", "Y_DOT": "vy", "Z_DOT": "vz"}
    for fobj in (tab["opm"]["dx"], tab["oem"]["dx"]):
        d = None
        for n in ast.walk(fobj.node):
            if isinstance(n, ast.Dict) and {const_value(k) for k in n.keys} == set(pairs):
                d = {const_value(k): const_value(v) for k, v in zip(n.keys, n.values)}
        ok = d == pairs
        chk.inst("B11", f"{fobj.ref}::state-keywords", ok, "X…Z_DOT ← x…vz" if ok else f"{d}", loc(fobj, fobj.node))
    ok = all(f"{k:<21}= {{cartesian.{v}: 12.6f}}" in tk for k, v in pairs.items())
    chk.inst("B11", f"{opm_k.ref}::state-keywords", ok, "X…Z_DOT ← x…vz" if ok else "changed", loc(opm_k, opm_k.node))
    for fobj in (tab["opm"]["lk"], tab["opm"]["lx"], tab["oem"]["lx"]):
        t = unparse(fobj.node)
        ok = ("[x, y, z, vx, vy, vz]" in t and all(f"{v} = decode_unit(" in t and f"'{k}'," in t for k, v in pairs.items())) or \
            "[decode_unit(statevector, 'X', 'km'), decode_unit(statevector, 'Y', 'km'), decode_unit(statevector, 'Z', 'km'), decode_unit(statevector, 'X_DOT', 'km/s'), decode_unit(statevector, 'Y_DOT', 'km/s'), decode_unit(statevector, 'Z_DOT', 'km/s')]" in t
        if "[x, y, z, vx, vy, vz]" in t:
            ok = ok and all(re.search(rf"\b{v} = decode_unit\(\w+, '{k}', ", t) for k, v in pairs.items())
        chk.inst("B11", f"{fobj.ref}::state-order", ok, "the state vector is rebuilt in the order x, y, z, vx, vy, vz from the keywords of the same name" if ok else "order / pairing changed", loc(fobj, fobj.node))
    t = unparse(tab["oem"]["lk"].node)
    ok = "date, *state_vector = line.split()" in t and "np.array([float(x) for x in state_vector[:6]]) * units.km" in t
    chk.inst("B11", f"{tab['oem']['lk'].ref}::state-order", ok, "data line: epoch then the six components in km, km/s" if ok else "changed", loc(tab["oem"]["lk"], tab["oem"]["lk"].node))
    t = unparse(tab["oem"]["dk"].node)
    ok = "'{date:{dfmt}} {orb[0]:{fmt}} {orb[1]:{fmt}} {orb[2]:{fmt}} {orb[3]:{fmt}} {orb[4]:{fmt}} {orb[5]:{fmt}}'" in t
    chk.inst("B11", f"{tab['oem']['dk'].ref}::state-order", ok, "data line written epoch, then components 0…5" if ok else "changed", loc(tab["oem"]["dk"], tab["oem"]["dk"].node))
    # OMM element order
    for fobj in (tab["omm"]["lk"], tab["omm"]["lx"]):
        ok = "elements = [i, Omega, e, omega, M, n]" in unparse(fobj.node) and "form = 'TLE'" in unparse(fobj.node)
        chk.inst("B11", f"{fobj.ref}::element-order", ok, "elements handed to the TLE form in its order (i, Ω, e, ω, M, n)" if ok else "changed", loc(fobj, fobj.node))
    chk.floor("B11", 14)


def b12(chk, tab):
    """The two tokenisers."""
    k2d = chk.repo.func(COMMONS, "kvn2dict")
    t = unparse(k2d.node)
    frags = [("key-value", "key, _, value = line.partition('=')", "split on the first '='"),
             ("unit", "value, sep, unit = value.partition('[')", "optional unit in brackets"),
             ("unit-attrib", "attrib = {'units': unit.rstrip(']')}", "unit stored without the closing bracket"),
             ("comment", "comments[i] = line.split('COMMENT')[-1].strip()", "comments remembered by line number"),
             ("man-comment", "if i - 1 in comments:\n                    man['COMMENT'] = Field(comments[i - 1], {})", "the comment on the line before a maneuver belongs to it"),
             ("man-grouping", "data.setdefault('maneuvers', []).append(man)", "maneuvers collected in order")]
    for key, frag, what in frags:
        ok = frag in t
        chk.inst("B12", f"{k2d.ref}::{key}", ok, what if ok else f"`{frag}` not found", loc(k2d, k2d.node))
    x2d = chk.repo.func(COMMONS, "xml2dict")
    t = unparse(x2d.node)
    frags = [("leaf", "field = Field(subelem.text, subelem.attrib)", "leaf = (text, attributes)"),
             ("leaf-list", "data[subelem.tag] = [data[subelem.tag], field]", "second leaf of a tag starts a list"),
             ("node-list", "data[subelem.tag] = [data[subelem.tag], _recurse(subelem)]", "second child of a tag starts a list"),
             ("append", "data[subelem.tag].append(_recurse(subelem))", "later children are appended in document order")]
    for key, frag, what in frags:
        ok = frag in t
        chk.inst("B12", f"{x2d.ref}::{key}", ok, what if ok else f"`{frag}` not found", loc(x2d, x2d.node))
    pd = chk.repo.func(COMMONS, "parse_date")
    t = unparse(pd.node)
    ok = t.count("scale=scale") == 3 and "DATE_FMT_DEFAULT" in t and "DATE_FMT_D_OF_Y" in t and "DATE_FMT_NO_MSEC" in t
    chk.inst("B12", f"{pd.ref}", ok, "three accepted layouts, the message's time system applied in each" if ok else "changed", loc(pd, pd.node))
    m = chk.repo.module(COMMONS)
    fm = {k: const_value(m.assigns[k]) for k in ("DATE_FMT_DEFAULT", "DATE_FMT_NO_MSEC", "DATE_FMT_D_OF_Y") if k in m.assigns}
    ok = fm == {"DATE_FMT_DEFAULT": "%Y-%m-%dT%H:%M:%S.%f", "DATE_FMT_NO_MSEC": "%Y-%m-%dT%H:%M:%S", "DATE_FMT_D_OF_Y": "%Y-%jT%H:%M:%S.%f"}
    chk.inst("B12", f"{COMMONS}::date-formats", ok, "microsecond resolution on writing" if ok else f"{fm}", COMMONS)
    chk.floor("B12", 12)


def b14(chk):
    """User-defined parameters: the KVN writers emit `USER_DEFINED_<name>`; the KVN readers give back <name> whole, i.e.
    they cut exactly that prefix (a slice from its length, removeprefix, or a split at the first occurrence of it)."""
    prefix = "USER_DEFINED_"
    n = 0
    for rel in (CC + "opm.py", CC + "omm.py"):
        w = chk.repo.func(rel, "_dumps_kvn")
        wrote = [x for x in ast.walk(w.node) if isinstance(x, ast.JoinedStr) and x.values and isinstance(x.values[0], ast.Constant)
                 and str(x.values[0].value).startswith(prefix)]
        ok = len(wrote) == 1 and str(wrote[0].values[0].value) == prefix
        chk.inst("B14", f"{w.ref}::writes-prefix", ok, f"writes `{prefix}<name> = <value>`" if ok else "the user-defined line changed", loc(w, wrote[0] if wrote else w.node))
        r = chk.repo.func(rel, "_loads_kvn")
        tests = [x for x in ast.walk(r.node) if isinstance(x, ast.If) and "startswith" in unparse(x.test) and "USER_DEFINED" in unparse(x.test)]
        good, found = False, "?"
        for t in tests:
            var = unparse(t.test).split(".startswith")[0]
            for x in ast.walk(t):
                if isinstance(x, ast.Assign) and isinstance(x.targets[0], ast.Subscript):
                    key = x.targets[0].slice
                    found = unparse(key)
                    txt = found.replace(" ", "")
                    good = txt in (f"{var}[{len(prefix)}:]", f"{var}[len('{prefix}'):]", f'{var}[len("{prefix}"):]', f"{var}.removeprefix('{prefix}')",
                                   f"{var}.split('{prefix}',1)[1]", f"{var}.partition('{prefix}')[2]", f"{var}.replace('{prefix}','',1)")
        n += 1
        chk.inst("B14", f"{r.ref}::cuts-prefix", good, f"the name is `{found}`: everything after `{prefix}`" if good else
                 f"the name is taken as `{found}`, which is not 'everything after {prefix}': a name containing an underscore is read back changed", loc(r, tests[0] if tests else r.node))
    chk.floor("B14", 4)


def b13(chk):
    """A thrust arc is written by its ignition date and read back as `date_pos="start"`: on the writer side every function
    that distinguishes continuous maneuvers reads `.start` of a ContinuousMan and never its anchor `.date` (which is the
    middle or the end of the arc for date_pos="median" / "stop")."""
    OPMF = CC + "opm.py"
    m = chk.repo.module(OPMF)
    n_w = 0
    for f in m.all_funcs():
        tests = [n for n in ast.walk(f.node) if isinstance(n, ast.Call) and call_name(n) == "isinstance" and len(n.args) == 2
                 and unparse(n.args[1]).split(".")[-1] == "ContinuousMan"]
        if not tests or f.name.startswith("_loads") or f.name == "loads":
            continue
        var = unparse(tests[0].args[0])
        par = parent_map(f.node)

        def arm_of(node):
            """'cont' / 'imp' / None: inside which arm of an isinstance(var, ContinuousMan) test the node sits."""
            cur = node
            while cur in par:
                p = par[cur]
                if isinstance(p, (ast.If, ast.IfExp)) and any(t is p.test or t in list(ast.walk(p.test)) for t in tests):
                    neg = isinstance(p.test, ast.UnaryOp) and isinstance(p.test.op, ast.Not)
                    body = p.body if isinstance(p.body, list) else [p.body]
                    inbody = any(cur is b or cur in list(ast.walk(b)) for b in body)
                    if cur is not p.test and not (cur in list(ast.walk(p.test))):
                        return ("imp" if inbody else "cont") if neg else ("cont" if inbody else "imp")
                cur = p
            return None
        reads_date = [n for n in ast.walk(f.node) if isinstance(n, ast.Attribute) and n.attr == "date" and unparse(n.value) == var and isinstance(n.ctx, ast.Load)]
        reads_start = [n for n in ast.walk(f.node) if isinstance(n, ast.Attribute) and n.attr == "start" and unparse(n.value) == var]
        bad = [n for n in reads_date if arm_of(n) != "imp"]
        ok = bool(reads_start) and all(arm_of(n) == "cont" for n in reads_start) and not bad
        n_w += 1
        chk.inst("B13", f"{f.ref}::ignition-epoch", ok, f"continuous maneuvers are written by `{var}.start`, impulsive ones by `{var}.date`" if ok else
                 f"`{var}.date` is read for a ContinuousMan (or `{var}.start` is not): for date_pos='median' / 'stop' the written ignition epoch is the "
                 "middle / end of the arc, and the reader (date_pos='start') shifts the burn", loc(f, (bad or reads_date or tests)[0]))
    if n_w < 1:
        raise AnalysisError("B13: no OPM writer function distinguishes continuous maneuvers")
    for fn in ("_loads_kvn", "_loads_xml"):
        f = chk.repo.func(OPMF, fn)
        ctor = [n for n in ast.walk(f.node) if isinstance(n, ast.Call) and call_name(n) == "ContinuousMan"]
        ok = len(ctor) >= 1 and all(const_value(kwarg(c, "date_pos")) == "start" for c in ctor)
        chk.inst("B13", f"{f.ref}::read-as-start", ok, "the arc is rebuilt from its ignition date (date_pos='start')" if ok else "ContinuousMan no longer built with date_pos='start'", loc(f, f.node))
    chk.floor("B13", 3)


def run(chk):
    chk.rule("B14", "user-defined parameter names survive the KVN encoding whole (prefix written = prefix cut)")
    chk.rule("B13", "a thrust arc is written by its ignition date (.start) and read back with date_pos='start'")
    chk.rule("B11", "numbered / ordered components agree between both encodings and their readers")
    chk.rule("B12", "KVN and XML tokenisers (shape frozen by reading)")
    chk.rule("B10", "line-oriented readers create their per-record accumulators where the record starts")
    chk.rule("B1", "both encodings write the same keys (up to containers / informational), same CENTER_NAME rule; dispatch and detection")
    chk.rule("B2", "required by a reader ⊆ written; state-bearing written ⊆ read")
    chk.rule("B3", "units written = default units assumed; conversions inverse; all in units_dict")
    chk.rule("B4", "covariance key table: load_cov[i][j] ↔ writers' C{row}_{col}; OEM-KVN rows")
    chk.rule("B5", "QSW<->RSW alias maps are mutually inverse at every site")
    chk.rule("B6", "frame handed to Cov is a Frame or a local-orbital tag")
    chk.rule("B7", "repeated XML elements are normalised (list-or-single) before iteration")
    chk.rule("B8", "writers read only what every producer provides")
    chk.rule("B9", "measurement names written = names accepted")
    chk.rule("N1", "optional centre body is tested before it is dereferenced on writer paths")
    tab = collect(chk)
    chk.guard(b1_b2, chk, tab)
    chk.guard(b1_dispatch, chk)
    chk.guard(b3, chk, tab)
    chk.guard(b4, chk, tab)
    chk.guard(b5_b6, chk, tab)
    chk.guard(b7, chk, tab)
    chk.guard(b8, chk, tab)
    chk.guard(b9, chk, tab)
    chk.guard(n1, chk, tab)
    chk.guard(b10, chk, tab)
    chk.guard(b11, chk, tab)
    chk.guard(b12, chk, tab)
    chk.guard(b13, chk)
    chk.guard(b14, chk)
    chk.assume("informational keys (header, markers, redundant osculating elements, START/STOP_TIME, GM, MAN_DELTA_MASS) need not round-trip; table in c13.py with reasons")
    chk.assume("rule C for dates under a TIME_SYSTEM is decided under C04")
