"""C20 — conversion routing is correct for every registration order (structural clauses only).

R20.1 every built-in graph (forms, orientations, scales) is a tree
R20.2 leaf attachment: each registration site creates its node in the call and links it to exactly one
      pre-existing node; the registry key it writes starts with the new node's name
R20.3 who may write: registries and Node.routes / Node.neighbors are written only at the listed sites;
      Node.__add__ links both ways before _update; path() follows routes[goal].direction only
R20.4 the routing update: reset, direct neighbours at one step, neighbour routes merged at +1 unless already
      direct or not shorter, shared lock set, recursion over unlocked neighbours
"""
import ast

from ..graphs import edges_of, link_chains, node_ctors, tree_report
from ..model import AnalysisError, body_without_doc, call_name, cmp_triples, loc, unparse, walk_no_nested

NODE = "beyond/utils/node.py"

GRAPHS = [("beyond/orbits/forms.py", {"Form"}), ("beyond/frames/orient.py", {"Orientation"}), ("beyond/dates/date.py", {"Timescale"})]

# registration sites confirmed by reading (A6). value: (kind, description)
LINK_SITES = {
    "beyond/frames/orient.py::TopocentricOrientation.__init__": "new orientation (self) under its parent orientation",
    "beyond/frames/orient.py::LocalOrbitalOrientation.__init__": "new orientation (self) under the parent frame's orientation",
    "beyond/frames/lagrange.py::LagrangeOrient.__init__": "new orientation (self) under frame1's orientation",
    "beyond/frames/center.py::Center.add_link": "the centre's own node under the given centre",
    "beyond/frames/stations.py::create_station": "repeats the link made by TopocentricOrientation.__init__ (idempotent)",
}
ADD_LINK_CALLERS = {
    "beyond/frames/stations.py::create_station": "new",
    "beyond/frames/frames.py::orbit2frame": "new",
    "beyond/frames/lagrange.py::lagrange": "new",
    "beyond/env/solarsystem.py::get_frame": "new",
    "beyond/env/jpl.py::JplCenter.add_link": "delegates",
    "beyond/env/jpl.py::create_frames": "bridge",   # tabled exception, see below
}
SETATTR_SITES = {
    "beyond/frames/orient.py::TopocentricOrientation.__init__": ("self", "instance-level provider"),
    "beyond/frames/orient.py::LocalOrbitalOrientation.__init__": ("Orientation", "class-level provider"),
    "beyond/frames/lagrange.py::LagrangeOrient.__init__": ("Orientation", "class-level provider"),
    "beyond/frames/stations.py::create_station": ("orient.Orientation", "class-level provider"),
    "beyond/frames/center.py::Center.add_link": ("Center", "class-level offset provider"),
    "beyond/constants.py::Body.__init__": ("self", "body attributes; not a registry"),
}
DYNAMIC_SITES = {"beyond/frames/frames.py::Frame.__init__", "beyond/frames/frames.py::HillFrame.__init__", "beyond/frames/frames.py::<module>"}


def r20_1(chk):
    for rel, ctor in GRAPHS:
        m = chk.repo.module(rel)
        nodes = set(node_ctors(m, ctor))
        edges = edges_of(link_chains(m))
        ok, why = tree_report(nodes, edges)
        chk.inst("R20.1", f"{rel}::graph", ok, f"{len(nodes)} nodes, {len(edges)} links: {why}", rel)
    chk.floor("R20.1", 3)


def _link_exprs(fnode):
    """Expression statements `A + B` (a Node link: the value is discarded)."""
    out = []
    for n in walk_no_nested(fnode):
        if isinstance(n, ast.Expr) and isinstance(n.value, ast.BinOp) and isinstance(n.value.op, ast.Add):
            out.append(n)
    return out


def _fstring_head(node):
    """First interpolated expression of an f-string if the string starts with it, and the literal that follows."""
    if isinstance(node, ast.JoinedStr) and len(node.values) >= 2 and isinstance(node.values[0], ast.FormattedValue) and isinstance(node.values[1], ast.Constant):
        return unparse(node.values[0].value), node.values[1].value
    return None, None


def r20_2(chk):
    repo = chk.repo
    found_links = {}
    found_calls = {}
    found_setattr = {}
    for f in repo.all_funcs():
        if f.module.rel == NODE:
            continue
        links = _link_exprs(f.node)
        if links:
            found_links[f.ref] = (f, links)
        calls = [n for n in walk_no_nested(f.node) if isinstance(n, ast.Call) and isinstance(n.func, ast.Attribute) and n.func.attr == "add_link"]
        if calls:
            found_calls[f.ref] = (f, calls)
        sets = [n for n in walk_no_nested(f.node) if isinstance(n, ast.Call) and isinstance(n.func, ast.Name) and n.func.id == "setattr"]
        if sets:
            found_setattr[f.ref] = (f, sets)
    # completeness of the tables (a new registration site must be read before it is accepted)
    for ref in sorted(set(found_links) - set(LINK_SITES)):
        chk.inst("R20.2", f"{ref}::link-site", False, "links nodes but is not in the table of registration sites confirmed by reading", loc(found_links[ref][0], found_links[ref][1][0]))
    for ref in sorted(set(found_calls) - set(ADD_LINK_CALLERS)):
        chk.inst("R20.2", f"{ref}::add_link-site", False, "calls add_link but is not in the table of registration sites confirmed by reading", loc(found_calls[ref][0], found_calls[ref][1][0]))
    for ref in sorted(set(LINK_SITES) - set(found_links)):
        raise AnalysisError(f"registration site {ref} no longer links nodes (table A6 out of date)")
    for ref in sorted(set(ADD_LINK_CALLERS) - set(found_calls)):
        raise AnalysisError(f"registration site {ref} no longer calls add_link (table A6 out of date)")

    # orientation constructors: `parent + self` with self new, exactly once, key starts with the new name
    for ref in ("beyond/frames/orient.py::TopocentricOrientation.__init__", "beyond/frames/orient.py::LocalOrbitalOrientation.__init__",
                "beyond/frames/lagrange.py::LagrangeOrient.__init__"):
        f, links = found_links[ref]
        ok = len(links) == 1
        sides = [unparse(links[0].value.left), unparse(links[0].value.right)] if ok else []
        ok = ok and sides.count("self") == 1
        other = [s for s in sides if s != "self"]
        params = set(f.params())
        ok = ok and other and (other[0].split(".")[0] in params or other[0].startswith("self.parent"))
        chk.inst("R20.2", f"{ref}::one-parent", ok, f"new node linked once, to the pre-existing `{other[0] if other else '?'}`" if ok else
                 f"link statements: {[unparse(l) for l in links]}", loc(f, links[0]))
        # super().__init__(name) creates the node in this call
        sup = [n for n in walk_no_nested(f.node) if isinstance(n, ast.Call) and unparse(n.func) == "super().__init__"]
        ok = len(sup) == 1 and len(sup[0].args) == 1
        newname = unparse(sup[0].args[0]) if ok else None
        chk.inst("R20.2", f"{ref}::creates-node", ok, f"node created in the call with name `{newname}`" if ok else "super().__init__(name) not found", loc(f, f.node))
        # registry key
        _, sets = found_setattr.get(ref, (None, []))
        keyvars = {}
        for s in walk_no_nested(f.node):
            if isinstance(s, ast.Assign) and isinstance(s.value, ast.JoinedStr):
                keyvars[unparse(s.targets[0])] = s.value
        good = False
        what = "setattr not found"
        if len(sets) == 1:
            keynode = sets[0].args[1]
            if isinstance(keynode, ast.Name) and keynode.id in keyvars:
                keynode = keyvars[keynode.id]
            head, lit = _fstring_head(keynode)
            parent_txt = other[0] if other else ""
            tail_ok = isinstance(keynode, ast.JoinedStr) and len(keynode.values) == 3 and unparse(keynode.values[2].value) in (f"{parent_txt}.name", parent_txt.replace("self.", "") + ".name")
            good = head == newname and lit == "_to_" and tail_ok and unparse(sets[0].args[2]) == "self._to_parent"
            what = f"provider registered as {{{head}}}_to_{{parent}}" if good else f"key `{unparse(sets[0].args[1])}` / `{unparse(keynode)}`"
        chk.inst("R20.2", f"{ref}::registry-key", good, what, loc(f, f.node))
    # Center.add_link
    ref = "beyond/frames/center.py::Center.add_link"
    f, links = found_links[ref]
    cparam = f.params()[1]
    ok = len(links) == 1 and {unparse(links[0].value.left), unparse(links[0].value.right)} == {"self.node", f"{cparam}.node"}
    chk.inst("R20.2", f"{ref}::one-parent", ok, "the centre's node is linked once, to the given centre's node" if ok else f"{[unparse(l) for l in links]}", loc(f, links[0]))
    _, sets = found_setattr[ref]
    head, lit = _fstring_head(sets[0].args[1]) if len(sets) == 1 else (None, None)
    ok = head == "self.name" and lit == "_to_" and unparse(sets[0].args[1].values[2].value) == f"{cparam}.name" and unparse(sets[0].args[0]) == "Center" \
        and unparse(sets[0].args[2]) == "self._to_parent"
    chk.inst("R20.2", f"{ref}::registry-key", ok, "offset provider registered as {self.name}_to_{parent}" if ok else f"{unparse(sets[0]) if sets else '?'}", loc(f, f.node))
    txt = [unparse(s).replace(" ", "") for s in body_without_doc(f.node)]
    ok = f"self.offset={f.params()[3]}" in txt and f"self.orientation={f.params()[2]}" in txt
    chk.inst("R20.2", f"{ref}::stores-offset", ok, "offset and its orientation stored on the new centre" if ok else "changed", loc(f, f.node))
    # callers of add_link: receiver is a centre created in this call, linked exactly once
    for ref, kind in ADD_LINK_CALLERS.items():
        f, calls = found_calls[ref]
        if kind == "new":
            ok = len(calls) == 1
            recv = unparse(calls[0].func.value)
            created = [s for s in walk_no_nested(f.node) if isinstance(s, ast.Assign) and unparse(s.targets[0]) == recv and isinstance(s.value, ast.Call)
                       and unparse(s.value.func).split(".")[-1] == "Center"]
            ok = ok and len(created) == 1
            chk.inst("R20.2", f"{ref}::one-parent", ok, f"`{recv}` is a Center created in this call and linked once" if ok else
                     f"{len(calls)} add_link calls; receiver `{recv}` created here: {len(created)}", loc(f, calls[0]))
            parent_arg = unparse(calls[0].args[0]) if calls[0].args else ""
            root = parent_arg.split(".")[0]
            is_local_ctor = any(isinstance(s, ast.Assign) and unparse(s.targets[0]) == root and isinstance(s.value, ast.Call) and unparse(s.value.func).split(".")[-1] in ("Center",)
                                for s in walk_no_nested(f.node))
            chk.inst("R20.2", f"{ref}::parent-pre-exists", not is_local_ctor, f"parent `{parent_arg}` exists before the call" if not is_local_ctor else f"parent `{parent_arg}` is created in the same call", loc(f, calls[0]))
        elif kind == "delegates":
            ok = len(calls) == 1 and unparse(calls[0].func.value) == "super()" and unparse(calls[0].args[0]) == f.params()[1]
            chk.inst("R20.2", f"{ref}::delegates", ok, "delegates to Center.add_link with the same parent" if ok else "changed", loc(f, calls[0]))
        elif kind == "bridge":
            # tabled exception: links the *existing* Earth centre to the JPL tree, once, after the loop
            in_loop = [c for c in calls if any(c in list(ast.walk(l)) for l in walk_no_nested(f.node) if isinstance(l, ast.For))]
            after = [c for c in calls if c not in in_loop]
            ok = len(in_loop) == 1 and unparse(in_loop[0]).replace(" ", "") == "target.add_link(center,_propagator_cache[target.name])" \
                and len(after) == 1 and unparse(after[0]).replace(" ", "") == "BASE_FRAME.center.add_link(first_frame.center,BASE_FRAME.orientation,np.zeros(6))"
            chk.inst("R20.2", f"{ref}::tabled-exception", ok,
                     "each kernel pair links target under centre; one bridge links the existing Earth centre to the JPL tree with a zero offset" if ok else
                     f"{[unparse(c) for c in calls]}", loc(f, calls[0]))
    # create_station's repeated link is to the same parent as the constructor's
    ref = "beyond/frames/stations.py::create_station"
    f, links = found_links[ref]
    ok = len(links) == 1 and {unparse(links[0].value.left), unparse(links[0].value.right)} == {"o", "parent_frame.orientation"}
    ctor = [n for n in walk_no_nested(f.node) if isinstance(n, ast.Call) and unparse(n.func).endswith("TopocentricOrientation")]
    ok = ok and len(ctor) == 1 and any(k.arg == "parent" and unparse(k.value) == "parent_frame.orientation" for k in ctor[0].keywords)
    chk.inst("R20.2", f"{ref}::idempotent-relink", ok, "re-links the new orientation to the same parent its constructor used" if ok else "the second link names another parent", loc(f, links[0]))
    _, sets = found_setattr[ref]
    keyvars = {unparse(s.targets[0]): s.value for s in walk_no_nested(f.node) if isinstance(s, ast.Assign) and isinstance(s.value, ast.JoinedStr)}
    k = sets[0].args[1] if len(sets) == 1 else None
    if isinstance(k, ast.Name) and k.id in keyvars:
        k = keyvars[k.id]
    head, lit = _fstring_head(k) if k is not None else (None, None)
    ok = head == f.params()[0] and lit == "_to_" and unparse(k.values[2].value) == "parent_frame.orientation.name" and unparse(sets[0].args[2]) == "o._to_parent"
    chk.inst("R20.2", f"{ref}::registry-key", ok, "class-level provider {name}_to_{parent orientation}" if ok else f"{unparse(sets[0]) if sets else '?'}", loc(f, f.node))
    chk.floor("R20.2", 3 * 3 + 3 + 6 + 2 + 2)


def r20_3(chk):
    repo = chk.repo
    # setattr sites
    for f in repo.all_funcs():
        for n in walk_no_nested(f.node):
            if isinstance(n, ast.Call) and isinstance(n.func, ast.Name) and n.func.id == "setattr":
                ent = SETATTR_SITES.get(f.ref)
                ok = ent is not None and unparse(n.args[0]) == ent[0]
                chk.inst("R20.3", f"{f.ref}::setattr({unparse(n.args[0])})", ok, ent[1] if ok else
                         "setattr on a registry class outside the listed registration sites", loc(f, n))
    # writes to routes / neighbors / dynamic
    for m in repo.modules.values():
        for n in ast.walk(m.tree):
            targets = []
            if isinstance(n, ast.Assign):
                targets = n.targets
            elif isinstance(n, ast.AugAssign):
                targets = [n.target]
            for t in targets:
                txt = unparse(t)
                base = t.value if isinstance(t, ast.Subscript) else t
                if isinstance(base, ast.Attribute) and base.attr in ("routes", "neighbors"):
                    ok = m.rel == NODE
                    chk.inst("R20.3", f"{m.rel}::write({txt})", ok, "routing state written inside node.py" if ok else "routing state written outside node.py", f"{m.rel}:{n.lineno}")
                if isinstance(t, ast.Subscript) and unparse(t.value) in ("dynamic", "frames.dynamic"):
                    owner = "<module>"
                    for f in m.all_funcs():
                        if n in list(ast.walk(f.node)):
                            owner = f.qualname
                    ok = f"{m.rel}::{owner}" in DYNAMIC_SITES
                    chk.inst("R20.3", f"{m.rel}::{owner}::write({txt})", ok, "frame registry written at a listed site" if ok else "frame registry written outside the listed sites", f"{m.rel}:{n.lineno}")
    # Node.__add__
    f = repo.func(NODE, "Node.__add__")
    o = f.params()[1]
    body = [unparse(s).replace(" ", "") for s in body_without_doc(f.node)]
    ok = body == [f"self.neighbors[{o}]=None", f"{o}.neighbors[self]=None", "self._update()", f"return{o}"]
    chk.inst("R20.3", f"{f.ref}", ok, "links both ways, then updates routes, returns the right operand (so chains link consecutive pairs)" if ok else f"{body}", loc(f, f.node))
    # Node.path — accepted idioms: `while True: step; append; if reached: break` and `while not reached: step; append`
    f = repo.func(NODE, "Node.path")
    g = f.params()[1]
    body = body_without_doc(f.node)
    txt = unparse(f.node).replace(" ", "")
    guard_own = any(isinstance(s_, ast.If) and unparse(s_.test).replace(" ", "") in (f"{g}==self.name", f"self.name=={g}")
                    and unparse(s_.body[-1]).replace(" ", "") == "return[self]" for s_ in body)
    guard_unknown = any(isinstance(s_, ast.If) and unparse(s_.test).replace(" ", "") == f"{g}notinself.routes"
                        and isinstance(s_.body[-1], ast.Raise) for s_ in body)
    loops = [s_ for s_ in body if isinstance(s_, ast.While)]
    ok = guard_own and guard_unknown and len(loops) == 1
    if ok:
        w = loops[0]
        wb = [unparse(x).replace(" ", "") for x in w.body]
        cur = None
        for x in w.body:
            if isinstance(x, ast.Assign) and isinstance(x.targets[0], ast.Name) and unparse(x.value).replace(" ", "") == f"{unparse(x.targets[0])}.routes[{g}].direction":
                cur = unparse(x.targets[0])
        lst = [unparse(x.value.func.value) for x in w.body if isinstance(x, ast.Expr) and isinstance(x.value, ast.Call) and isinstance(x.value.func, ast.Attribute)
               and x.value.func.attr == "append" and cur and unparse(x.value.args[0]) == cur]
        test = unparse(w.test).replace(" ", "")
        if test == "True":
            stop = any(isinstance(x, ast.If) and unparse(x.test).replace(" ", "") in (f"{cur}.name=={g}", f"{g}=={cur}.name") and isinstance(x.body[-1], ast.Break) and not x.orelse
                       for x in w.body) and isinstance(w.body[-1], ast.If)
        else:
            stop = test in (f"{cur}.name!={g}", f"{g}!={cur}.name", f"not{cur}.name=={g}") and not any(isinstance(x, (ast.Break, ast.Continue)) for y in w.body for x in ast.walk(y))
        starts = any(isinstance(s_, ast.Assign) and unparse(s_.targets[0]) == cur and unparse(s_.value) == "self" for s_ in body)
        seeded = bool(lst) and any(isinstance(s_, ast.Assign) and unparse(s_.targets[0]) == lst[0] and unparse(s_.value).replace(" ", "") in (f"[{cur}]", "[self]") for s_ in body)
        returns = bool(lst) and isinstance(body[-1], ast.Return) and unparse(body[-1].value) == lst[0]
        first = [i for i, x in enumerate(w.body) if isinstance(x, ast.Assign) and unparse(x.targets[0]) == cur]
        app = [i for i, x in enumerate(w.body) if isinstance(x, ast.Expr) and "append" in unparse(x)]
        ok = bool(cur and lst and stop and starts and seeded and returns and first and app and first[0] < app[0] and not w.orelse)
    chk.inst("R20.3", f"{f.ref}", ok, "own name → [self]; unknown goal → ValueError; otherwise follows routes[goal].direction hop by hop until the goal" if ok else "path() changed", loc(f, f.node))
    # Node.steps — accepted idioms: index loop over range(len(path) - 1); zip(path[:-1], path[1:]) / zip(path, path[1:])
    f = repo.func(NODE, "Node.steps")
    body = body_without_doc(f.node)
    g = f.params()[1]
    pname = [unparse(s_.targets[0]) for s_ in body if isinstance(s_, ast.Assign) and unparse(s_.value).replace(" ", "") == f"self.path({g})"]
    ok = len(pname) == 1
    if ok:
        P = pname[0]
        rest = [s_ for s_ in body if not (isinstance(s_, ast.Assign) and unparse(s_.targets[0]) == P)]
        zips = (f"zip({P}[:-1],{P}[1:])", f"zip({P},{P}[1:])")
        ok = False
        if len(rest) == 1 and isinstance(rest[0], ast.For) and not rest[0].orelse and len(rest[0].body) == 1 and isinstance(rest[0].body[0], ast.Expr) \
                and isinstance(rest[0].body[0].value, ast.Yield):
            fr, y = rest[0], unparse(rest[0].body[0].value.value).replace(" ", "").strip("()")
            it, tg = unparse(fr.iter).replace(" ", ""), unparse(fr.target).replace(" ", "").strip("()")
            if it == f"range(len({P})-1)" and y == f"{P}[{tg}],{P}[{tg}+1]":
                ok = True
            elif it in zips and y == tg and "," in tg:
                ok = True
        elif len(rest) == 1 and isinstance(rest[0], ast.Expr) and isinstance(rest[0].value, ast.YieldFrom) and unparse(rest[0].value.value).replace(" ", "") in zips:
            ok = True
    chk.inst("R20.3", f"{f.ref}", ok, "consecutive pairs of the path, lazily" if ok else "steps() changed", loc(f, f.node))
    chk.floor("R20.3", 6 + 3 + 3 + 3)


def r20_4(chk):
    f = chk.repo.func(NODE, "Node._update")
    lock = f.params()[1]
    body = body_without_doc(f.node)
    txt = [unparse(s).replace(" ", "") for s in body]
    ok = txt[0] == "self.routes={}"
    chk.inst("R20.4", f"{f.ref}::reset", ok, "routes rebuilt from scratch" if ok else f"first statement `{txt[0]}`", loc(f, body[0]))
    loops = [s for s in body if isinstance(s, ast.For)]
    if len(loops) != 2:
        raise AnalysisError(f"{f.ref}: two loops expected")
    merge, rec = loops
    n = unparse(merge.target)
    ok = unparse(merge.iter) == "self.neighbors" and unparse(merge.body[0]).replace(" ", "") == f"self.routes[{n}.name]=Route({n},1)"
    chk.inst("R20.4", f"{f.ref}::direct", ok, "every neighbour is one step away through itself" if ok else "changed", loc(f, merge))
    inner = [s for s in merge.body if isinstance(s, ast.For)]
    good = False
    what = "inner merge loop not recognised"
    if len(inner) == 1 and unparse(inner[0].iter) == f"{n}.routes.items()":
        nm, rt = [unparse(e) for e in inner[0].target.elts]
        ib = inner[0].body
        if len(ib) == 3 and isinstance(ib[0], ast.If) and isinstance(ib[1], ast.If):
            c1 = unparse(ib[0].test).replace(" ", "") == f"{nm}in[self.name]+[x.nameforxinself.neighbors]" and isinstance(ib[0].body[0], ast.Continue)
            c2 = unparse(ib[1].test).replace(" ", "") == f"{nm}inself.routes.keys()andself.routes[{nm}].steps<={rt}.steps" and isinstance(ib[1].body[0], ast.Continue)
            c3 = unparse(ib[2]).replace(" ", "") == f"self.routes[{nm}]=Route({n},{rt}.steps+1)"
            good = c1 and c2 and c3
            what = "skip self and direct neighbours; keep an existing route that is not longer; otherwise route through the neighbour at +1 step" if good else \
                f"skip-direct ok={c1}, keep-shorter ok={c2}, route-through-neighbour ok={c3}"
    chk.inst("R20.4", f"{f.ref}::merge", good, what, loc(f, merge))
    ok = f"if{lock}isNone:\n{lock}=set()".replace(" ", "") in unparse(f.node).replace(" ", "").replace("    ", "") and f"{lock}.add(self)" in txt
    pos_add = txt.index(f"{lock}.add(self)") if f"{lock}.add(self)" in txt else -1
    ok = ok and pos_add > body.index(merge) and pos_add < body.index(rec)
    chk.inst("R20.4", f"{f.ref}::lock", ok, "shared lock set created once and joined after the own update, before recursing" if ok else "lock handling changed", loc(f, f.node))
    r = unparse(rec.target)
    ok = unparse(rec.iter) == "self.neighbors" and unparse(rec.body[0]).replace(" ", "") == f"if{r}notin{lock}:\n{r}._update({lock})".replace(" ", "").replace("\n", "\n    ").replace(" ", "")
    ok = unparse(rec.iter) == "self.neighbors" and isinstance(rec.body[0], ast.If) and unparse(rec.body[0].test).replace(" ", "") == f"{r}notin{lock}" \
        and unparse(rec.body[0].body[0]).replace(" ", "") == f"{r}._update({lock})"
    chk.inst("R20.4", f"{f.ref}::recursion", ok, "every neighbour not yet locked is updated with the same lock set" if ok else "changed", loc(f, rec))
    # Route record
    rt = chk.repo.func(NODE, "Route.__init__")
    ok = [unparse(s).replace(" ", "") for s in body_without_doc(rt.node)] == [f"self.direction={rt.params()[1]}", f"self.steps={rt.params()[2]}"]
    chk.inst("R20.4", f"{rt.ref}", ok, "Route(direction, steps)" if ok else "changed", loc(rt, rt.node))
    chk.floor("R20.4", 6)


def r20_5(chk):
    """A link (centre, orientation, offset) is a valid step of a chain only if the offset is expressed relative to the centre
    it is linked to, along the axes it names: at every site the three arguments name one and the same frame."""
    import ast as _a
    sites = {
        "beyond/frames/stations.py::create_station": "param",       # body-fixed coordinates in the parent frame given by the caller
        "beyond/frames/frames.py::orbit2frame": "offset.frame",     # the orbit is expressed in its own frame
        "beyond/env/solarsystem.py::get_frame": "offset.FRAME",     # analytical propagators name their frame
    }
    for ref, kind in sites.items():
        rel, qn = ref.split("::")
        f = chk.repo.func(rel, qn)
        calls = [n for n in walk_no_nested(f.node) if isinstance(n, _a.Call) and isinstance(n.func, _a.Attribute) and n.func.attr == "add_link"]
        if len(calls) != 1 or len(calls[0].args) != 3:
            raise AnalysisError(f"{ref}: add_link(centre, orientation, offset) call not found")
        c, o, off = (unparse(a) for a in calls[0].args)
        root_c = c[:-len(".center")] if c.endswith(".center") else None
        root_o = o[:-len(".orientation")] if o.endswith(".orientation") else None
        ok = root_c is not None and root_c == root_o
        what = f"centre and axes both those of `{root_c}`"
        if ok and kind == "param":
            ok = root_c in f.params()
        elif ok and kind == "offset.frame":
            ok = root_c == f"{off}.frame" and off in f.params()
            what += " = the frame the offset orbit is expressed in"
        elif ok and kind == "offset.FRAME":
            defs = [s for s in walk_no_nested(f.node) if isinstance(s, _a.Assign) and unparse(s.targets[0]) == root_c]
            ok = len(defs) == 1 and unparse(defs[0].value).replace(" ", "") == f"frames.get_frame({off}.FRAME)"
            what += " = the frame named by the offset propagator"
        chk.inst("R20.5", f"{ref}::link-coherent", ok, what if ok else
                 f"the new centre is linked to `{c}` along `{o}` with offset `{off}`: centre, axes and offset no longer name one frame, "
                 "so the link is not a valid step between the two centres", loc(f, calls[0]))
    # Lagrange: offset given by LagrangePropagator(frame1, body2, n) along LagrangeOrient(frame1, body2), relative to frame2's centre
    f = chk.repo.func("beyond/frames/lagrange.py", "lagrange")
    t = unparse(f.node)
    f1, f2 = f.params()[0:2]
    ok = f"l_orient = LagrangeOrient({f1}, {f2}.center.body)" in t and f"l_prop = LagrangePropagator({f1}, {f2}.center.body, number)" in t \
        and f"l_center.add_link({f2}.center, l_orient, l_prop)" in t
    chk.inst("R20.5", f"{f.ref}::link-coherent", ok, "offset propagator and axes built from the same (frame1, body2) pair, linked to body2's centre" if ok else "changed", loc(f, f.node))
    chk.floor("R20.5", 4)


def run(chk):
    chk.rule("R20.1", "built-in graphs are trees")
    chk.rule("R20.2", "registration sites attach a node created in the call to exactly one pre-existing node (leaf attachment)")
    chk.rule("R20.3", "registries and routing state are written only at the listed sites; __add__/path/steps protocol")
    chk.rule("R20.4", "shape of the routing update (frozen by reading)")
    chk.guard(r20_1, chk)
    chk.guard(r20_2, chk)
    chk.guard(r20_3, chk)
    chk.guard(r20_4, chk)
    chk.rule("R20.5", "every link's centre, axes and offset name one frame (the offset is relative to the centre it is linked to)")
    chk.guard(r20_5, chk)
    from .common import conversion_is_a_read

    def conv_r20_6(c):
        conversion_is_a_read(c, "R20.6")
    chk.guard(conv_r20_6, chk)
    chk.assume("leaf attachment to a tree keeps it a tree, and on a tree the route is unique: routing correctness on the built-in "
               "graphs then needs only that _update reaches every node (R20.4 shape), not shortest-path selection")
