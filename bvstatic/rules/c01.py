"""C01 — orbital element forms are lossless, definition-true views of one state.

R01.1  form graph <-> conversion table (tree; both directions per edge; no orphan; cache keys; six names)
R01.2  element order of every conversion = param_names of source / target form
R01.3  alias closure: no canonical parameter name is rewritten by Form.alt
R01.4  sibling agreement: circular <-> mean-circular conversions are the same map modulo (ν↔M, u↔α)
R01.5  spherical / cylindrical: positions equal their definitions, velocities are total time-derivatives,
       and the reverse conversions give the atoms back
R01.6  M2E is Newton's iteration on the equation its sibling conversion evaluates; loop polarity (H1)
R01.8  true <-> eccentric anomaly pairs are mutual inverses; unit identities
R01.9  mean-motion pair tle <-> keplerian_mean inverse; agrees with Infos.n
R01.10 polar pairs in circular / mean-circular / equinoctial forms (thorough)
R01.11 keplerian -> cartesian against the textbook terms (thorough)
R01.12 Infos derived quantities obey their defining relations
"""
import ast
import unicodedata

from .. import terms as T
from ..graphs import edges_of, link_chains, node_ctors, tree_report
from ..model import AnalysisError, body_without_doc, cmp_triples, loc, unparse
from ..terms import Extract, F, Poly, Unsupported

FORMS = "beyond/orbits/forms.py"
SV = "beyond/orbits/statevector.py"


def nf(s):
    return unicodedata.normalize("NFKC", s)


# ---- tables read from the source ----------------------------------------------------------------------

class FormTable:
    def __init__(self, chk):
        repo = chk.repo
        self.module = repo.module(FORMS)
        self.cls = repo.cls(FORMS, "Form")
        ctors = node_ctors(self.module, {"Form"})
        self.forms = {}      # var -> (name, [param names])
        for var, call in ctors.items():
            if len(call.args) != 2 or not isinstance(call.args[0], ast.Constant) or not isinstance(call.args[1], ast.List):
                raise AnalysisError(f"{FORMS}: Form constructor of {var} has an unexpected shape")
            names = []
            for e in call.args[1].elts:
                if not isinstance(e, ast.Constant):
                    raise AnalysisError(f"{FORMS}: non-literal parameter name in {var}")
                names.append(nf(e.value))
            self.forms[var] = (call.args[0].value, names)
        self.by_name = {n: (v, p) for v, (n, p) in self.forms.items()}
        self.chains = link_chains(self.module)
        self.edges = edges_of(self.chains)
        alt = self.cls.attrs.get("alt")
        if not isinstance(alt, ast.Dict):
            raise AnalysisError(f"{FORMS}: Form.alt is not a dict literal")
        self.alt = {nf(k.value): nf(v.value) for k, v in zip(alt.keys, alt.values)}
        self.conversions = {}   # (a, b) -> Func
        for name, f in self.cls.methods.items():
            if name.startswith("_") and "_to_" in name and not name.startswith("__"):
                a, b = name[1:].split("_to_")
                self.conversions[(a, b)] = f
                repo.consulted.add((FORMS, f"Form.{name}"))
        cache = self.module.assigns.get("_cache")
        if not isinstance(cache, ast.Dict):
            raise AnalysisError(f"{FORMS}: _cache is not a dict literal")
        self.cache = {k.value: unparse(v) for k, v in zip(cache.keys, cache.values)}

    def canon(self, name):
        name = nf(name)
        return self.alt.get(name, name)


def r01_1(chk, ft):
    where = FORMS
    nodes = set(ft.forms)
    ok, why = tree_report(nodes, ft.edges)
    chk.inst("R01.1", f"{FORMS}::form-graph", ok, f"{len(nodes)} forms, {len(ft.edges)} links: {why}", where,
             detail={"chains": ft.chains})
    names = [n for n, _ in ft.forms.values()]
    chk.inst("R01.1", f"{FORMS}::form-names-distinct", len(set(names)) == len(names), f"names: {sorted(names)}", where)
    edge_names = set()
    for a, b in ft.edges:
        if a in ft.forms and b in ft.forms:
            na, nb = ft.forms[a][0], ft.forms[b][0]
            edge_names.add(frozenset((na, nb)))
            for x, y in ((na, nb), (nb, na)):
                ok = (x, y) in ft.conversions
                chk.inst("R01.1", f"{FORMS}::Form._{x}_to_{y}", ok,
                         "edge has its conversion (Form.__call__ has no reverse fallback)" if ok else
                         f"link {a}+{b} declared but Form._{x}_to_{y} is missing", where)
    for (x, y), f in sorted(ft.conversions.items()):
        if frozenset((x, y)) not in edge_names:
            chk.note(f"{f.ref} has no link in the form graph: dead conversion (never dispatched), harmless")
    # dispatch in Form.__call__
    call = chk.repo.func(FORMS, "Form.__call__")
    fstrs = [n for n in ast.walk(call.node) if isinstance(n, ast.JoinedStr)]
    pat_ok = False
    for js in fstrs:
        parts = [("L", p.value) if isinstance(p, ast.Constant) else ("V", unparse(p.value)) for p in js.values]
        if [p[0] for p in parts] == ["L", "V", "L", "V"] and parts[0][1] == "_" and parts[2][1] == "_to_":
            loopvars = None
            for n in ast.walk(call.node):
                if isinstance(n, ast.For) and isinstance(n.target, ast.Tuple) and len(n.target.elts) == 2 \
                        and isinstance(n.iter, ast.Call) and unparse(n.iter.func) == "self.steps":
                    loopvars = [unparse(e) for e in n.target.elts]
            if loopvars and parts[1][1] == f"{loopvars[0]}.name.lower()" and parts[3][1] == f"{loopvars[1]}.name.lower()":
                pat_ok = True
    chk.inst("R01.1", f"{call.ref}::dispatch", pat_ok,
             "each step (a, b) of the path dispatches to _<a>_to_<b> in path order" if pat_ok else
             "dispatch name is not built as _{a.name.lower()}_to_{b.name.lower()} over self.steps(new_form)", loc(call, call.node))
    has_reverse = any(isinstance(n, ast.Call) and unparse(n.func) == "hasattr" for n in ast.walk(call.node))
    chk.inst("R01.1", f"{call.ref}::no-reverse-fallback", not has_reverse,
             "no hasattr fallback: both directions must exist" if not has_reverse else "dispatch has a fallback; rule must be re-read",
             loc(call, call.node), nontrivial=False)
    for key, var in sorted(ft.cache.items()):
        if var not in ft.forms:
            chk.inst("R01.1", f"{FORMS}::_cache[{key}]", False, f"maps to unknown form {var}", where)
            continue
        name = ft.forms[var][0]
        ok = key == name or name == f"keplerian_{key}"
        chk.inst("R01.1", f"{FORMS}::_cache[{key}]", ok, f"-> {var} ({name})" if ok else
                 f"key '{key}' maps to form '{name}'", where)
    for var, (name, _) in sorted(ft.forms.items()):
        ok = name in ft.cache and ft.cache[name] == var
        chk.inst("R01.1", f"{FORMS}::_cache-has-{name}", ok, "form is reachable by its own name" if ok else
                 f"form '{name}' is not a key of _cache", where, nontrivial=False)
    for var, (name, params) in sorted(ft.forms.items()):
        ok = len(params) == 6 and len(set(params)) == 6
        chk.inst("R01.1", f"{FORMS}::{var}.param_names", ok, f"{params}", where)
    chk.floor("R01.1", 10 + 9 * 2 + 14)


def _unpack_of_coord(f):
    """First `a, b, ... = coord` statement: list of names, else None."""
    p = f.params()
    coord = p[1] if len(p) > 1 else "coord"
    for st in body_without_doc(f.node):
        if isinstance(st, ast.Assign) and isinstance(st.targets[0], ast.Tuple) and unparse(st.value) == coord:
            return [unparse(e) for e in st.targets[0].elts], st
    return None, None


def _returned_names(f):
    rets = [n for n in ast.walk(f.node) if isinstance(n, ast.Return)]
    out = []
    for r in rets:
        v = r.value
        if isinstance(v, ast.Call) and unparse(v.func) in ("np.array", "array", "numpy.array") and v.args and isinstance(v.args[0], ast.List):
            out.append(([unparse(e) for e in v.args[0].elts], r))
        else:
            out.append((None, r))
    return out


def r01_2(chk, ft):
    for (a, b), f in sorted(ft.conversions.items()):
        if a not in ft.by_name or b not in ft.by_name:
            continue
        src = [ft.canon(x) for x in ft.by_name[a][1]]
        dst = [ft.canon(x) for x in ft.by_name[b][1]]
        names, st = _unpack_of_coord(f)
        if names is not None:
            got = [ft.canon(x) for x in names]
            ok = got == src
            chk.inst("R01.2", f"{f.ref}::unpack", ok, f"unpacks {names} = param_names of '{a}'" if ok else
                     f"unpacks {names} but '{a}' is ordered {ft.by_name[a][1]}", loc(f, st))
        for got_names, r in _returned_names(f):
            if got_names is None:
                chk.inst("R01.2", f"{f.ref}::return", False, "return value is not an np.array([...]) literal", loc(f, r))
                continue
            got = [ft.canon(x) for x in got_names]
            ok = got == dst
            chk.inst("R01.2", f"{f.ref}::return", ok, f"returns {got_names} = param_names of '{b}'" if ok else
                     f"returns {got_names} but '{b}' is ordered {ft.by_name[b][1]}", loc(f, r))
    chk.floor("R01.2", 35)


def r01_3(chk, ft):
    for var, (name, params) in sorted(ft.forms.items()):
        for p in params:
            ok = p not in ft.alt or ft.alt[p] == p
            chk.inst("R01.3", f"{FORMS}::{var}.{p}", ok, "canonical name" if ok else
                     f"parameter '{p}' of form '{name}' is a key of Form.alt (-> '{ft.alt[p]}'): __getattr__/__setattr__ rewrite "
                     f"the name away from the form that owns it, so the element is unreachable by name", FORMS)
    chk.floor("R01.3", 60)


# ---- term-algebra helpers ----------------------------------------------------------------------------------

def find_arm(f, subject, op, const):
    """Top-level `if <subject> <op> <const>:` of f -> (prefix stmts, body, orelse). Orientation-insensitive."""
    body = body_without_doc(f.node)
    for i, st in enumerate(body):
        if isinstance(st, ast.If):
            tr = cmp_triples(st.test)
            if len(tr) == 1:
                l, o, r = tr[0]
                lt, rt = unparse(l), unparse(r)
                flip = {"<": ">", ">": "<", "<=": ">=", ">=": "<="}
                if rt == subject and lt == const and o in flip:
                    lt, rt, o = rt, lt, flip[o]
                if lt == subject and rt == const:
                    neg = {"<": ">=", ">=": "<", ">": "<=", "<=": ">"}
                    if o == op:
                        return body[:i], st.body, st.orelse, body[i + 1:]
                    if neg.get(o) == op:
                        return body[:i], st.orelse, st.body, body[i + 1:]
    raise AnalysisError(f"{f.ref}: arm `{subject} {op} {const}` not found")


def run_env(stmts, env=None, subst=None):
    ex = Extract(env=env, subst=subst)
    ex.run(stmts)
    return ex.env


def ret_vec(env, f):
    v = env.get("return")
    if not isinstance(v, list) or len(v) != 6:
        raise AnalysisError(f"{f.ref}: returned vector not extractable")
    return v


def obl_eq(chk, rule, key, lhs, rhs, good, where, reduce=None):
    try:
        ok = T.equal(lhs, rhs, reduce)
        msg = good if ok else f"{T.fmt(lhs)}  !=  {T.fmt(rhs)}"
    except Unsupported as e:
        raise AnalysisError(f"{key}: obligation not extractable ({e})")
    return chk.obl(rule, key, ok, msg, where)


def r01_4(chk, ft):
    pairs = [(("keplerian", "keplerian_circular"), ("keplerian_mean", "keplerian_mean_circular"), {"M": "ν", "α": "u"}),
             (("keplerian_circular", "keplerian"), ("keplerian_mean_circular", "keplerian_mean"), {"M": "ν", "α": "u"})]
    for k1, k2, ren in pairs:
        f1, f2 = ft.conversions.get(k1), ft.conversions.get(k2)
        if f1 is None or f2 is None:
            raise AnalysisError(f"sibling conversions {k1} / {k2} not found")
        e1 = run_env(body_without_doc(f1.node))
        env2 = {nf(a): Poly.atom(nf(b)) for a, b in ren.items()}
        # rename by pre-binding the unpacked names of f2: run with substitution after unpack
        names2, _ = _unpack_of_coord(f2)
        ex2 = Extract()
        for st in body_without_doc(f2.node):
            if isinstance(st, ast.Assign) and isinstance(st.targets[0], ast.Tuple) and unparse(st.value) == f2.params()[1]:
                for n in names2:
                    ex2.env[n] = Poly.atom(ren.get(nf(n), nf(n)))
                continue
            ex2.run([st])
        v1, v2 = ret_vec(e1, f1), ret_vec(ex2.env, f2)
        for i in range(6):
            obl_eq(chk, "R01.4", f"{f1.ref}~{f2.qualname}[{i}]", v1[i], v2[i],
                   "siblings compute the same element", loc(f2, f2.node))
    chk.floor("R01.4", 12)


def r01_5(chk, ft):
    specs = [
        ("spherical", ["r", "theta", "phi"], ["r_dot", "theta_dot", "phi_dot"],
         lambda r, th, ph: [r * T.trig("cos", ph) * T.trig("cos", th), r * T.trig("cos", ph) * T.trig("sin", th), r * T.trig("sin", ph)]),
        ("cylindrical", ["r", "θ", "z"], ["r_dot", "θ_dot", "vz"],
         lambda r, th, z: [r * T.trig("cos", th), r * T.trig("sin", th), z]),
    ]
    for form, coords, rates, definition in specs:
        fwd = ft.conversions[(form, "cartesian")]
        rev = ft.conversions[("cartesian", form)]
        names, _ = _unpack_of_coord(fwd)
        if names is None:
            raise AnalysisError(f"{fwd.ref}: no unpacking of coord")
        # canonical atoms for the six elements, in the order of the form
        cn = [nf(n) for n in names]
        env = run_env(body_without_doc(fwd.node))
        vec = ret_vec(env, fwd)
        q = [Poly.atom(cn[i]) for i in range(3)]
        qd = [Poly.atom(cn[i]) for i in range(3, 6)]
        want = definition(*q)
        table = {cn[i]: qd[i] for i in range(3)}
        for i in range(3):
            obl_eq(chk, "R01.5", f"{fwd.ref}::position[{i}]", vec[i], want[i], "position term equals its definition", loc(fwd, fwd.node))
        for i in range(3):
            obl_eq(chk, "R01.5", f"{fwd.ref}::velocity[{i}]==d/dt position[{i}]", vec[3 + i], T.deriv(vec[i], table),
                   "velocity term is the total time-derivative of its position term", loc(fwd, fwd.node))
        # reverse: substitute the forward expressions into the reverse function
        rnames, _ = _unpack_of_coord(rev)
        if rnames is None:
            raise AnalysisError(f"{rev.ref}: no unpacking of coord")
        ex = Extract()
        for st in body_without_doc(rev.node):
            if isinstance(st, ast.Assign) and isinstance(st.targets[0], ast.Tuple) and unparse(st.value) == rev.params()[1]:
                for n, v in zip(rnames, vec):
                    ex.env[n] = v
                ex.env[rev.params()[1]] = list(vec)
                continue
            try:
                ex.run([st], stop_on_unsupported=True)
            except Unsupported as e:
                # arcsin / arctan2 results are handled below through their arguments; nothing else may be skipped
                # (a skipped statement would leave the name bound to its own atom and pass vacuously)
                inv = isinstance(st, ast.Assign) and isinstance(st.value, ast.Call) and unparse(st.value.func).split(".")[-1] in ("arctan2", "arcsin", "arccos")
                if not inv:
                    raise AnalysisError(f"{rev.ref}: `{unparse(st)[:80]}` is outside the term algebra ({e})")
                ex.run([st])
        out_names = None
        for got, r in _returned_names(rev):
            out_names = got
        if out_names is None:
            raise AnalysisError(f"{rev.ref}: return not an array literal")
        where = loc(rev, rev.node)
        angle_defs = {}
        for st in body_without_doc(rev.node):
            if isinstance(st, ast.Assign) and isinstance(st.targets[0], ast.Name) and isinstance(st.value, ast.Call):
                angle_defs[st.targets[0].id] = st.value
        for idx, nm in enumerate(out_names):
            target_atom = Poly.atom(cn[idx])
            call = angle_defs.get(nm)
            fname = unparse(call.func).split(".")[-1] if call is not None else None
            if fname == "arctan2":
                s_arg, c_arg = ex.ev(call.args[0]), ex.ev(call.args[1])
                obl_eq(chk, "R01.5", f"{rev.ref}::{nf(nm)}-direction", s_arg * T.trig("cos", target_atom), c_arg * T.trig("sin", target_atom),
                       "arctan2 arguments are (k·sin, k·cos) of the angle", where)
                k = s_arg * T.trig("sin", target_atom) + c_arg * T.trig("cos", target_atom)
                pos = T.normalize(k)
                okpos = len(pos.d) == 1 and all(v > 0 for v in pos.d.values())
                chk.obl("R01.5", f"{rev.ref}::{nf(nm)}-quadrant", okpos, f"common factor k = {T.fmt(pos)} is a positive monomial" if okpos
                        else f"common factor {T.fmt(pos)} is not a positive monomial (quadrant may flip)", where)
            elif fname == "arcsin":
                obl_eq(chk, "R01.5", f"{rev.ref}::{nf(nm)}", ex.ev(call.args[0]), T.trig("sin", target_atom), "arcsin argument is sin of the angle", where)
            else:
                val = ex.env.get(nm)
                if not isinstance(val, Poly):
                    raise AnalysisError(f"{rev.ref}: element {nm} not extractable")
                obl_eq(chk, "R01.5", f"{rev.ref}::{nf(nm)}", val, target_atom, "reverse formula gives the element back", where)
    chk.floor("R01.5", 22)


def r01_6(chk, ft):
    m2e = chk.repo.func(FORMS, "Form.M2E")
    sib = ft.conversions[("keplerian_eccentric", "keplerian_mean")]
    _, ell, hyp, _ = find_arm(sib, "e", "<", "1")
    _, m_ell, m_hyp, _ = find_arm(m2e, "e", "<", "1")
    for label, sib_arm, arm in (("elliptic", ell, m_ell), ("hyperbolic", hyp, m_hyp)):
        senv = run_env(sib_arm)
        M_of_E = senv.get("M")
        if not isinstance(M_of_E, Poly):
            raise AnalysisError(f"{sib.ref}: M(E) not extractable in the {label} arm")
        fn = [s for s in arm if isinstance(s, ast.FunctionDef)]
        if len(fn) != 1:
            raise AnalysisError(f"{m2e.ref}: update function not found in the {label} arm")
        fn = fn[0]
        params = [a.arg for a in fn.args.args]
        x = params[0]
        fenv = run_env(fn.body)
        nxt = fenv.get("return")
        if not isinstance(nxt, Poly):
            raise AnalysisError(f"{m2e.ref}: update expression not extractable")
        # sibling is written with E; rename to the update's variable
        f_of_x = T.subs(M_of_E, {"E": Poly.atom(x)}) - Poly.atom("M")
        fprime = T.deriv(f_of_x, {x: Poly.const(1)})
        where = loc(m2e, fn)
        obl_eq(chk, "R01.6", f"{m2e.ref}::{label}::newton-step", (nxt - Poly.atom(x)) * fprime + f_of_x, Poly(),
               "update is x - f(x)/f'(x) for the sibling's Kepler equation", where)
        # loop polarity
        loops = [s for s in arm if isinstance(s, ast.While)]
        ok = False
        what = "no refinement loop"
        if len(loops) == 1:
            from .common import abs_compare
            ac = abs_compare(loops[0].test)
            if ac:
                _, op, thr = ac
                ok = op in (">=", ">") and unparse(thr) == "tol"
                what = f"loop continues while |increment| {op} {unparse(thr)}"
        chk.inst("R01.6", f"{m2e.ref}::{label}::loop-polarity", ok, what, loc(m2e, loops[0]) if loops else where)
        # loop body: x = x1 ; x1 = next(x, e, M); returns x1
        if len(loops) == 1:
            b = [unparse(s) for s in loops[0].body]
            ok = len(b) == 2 and b[0].split(" = ")[0] == x and b[1].startswith(f"{b[0].split(' = ')[1]} = {fn.name}({x}, ")
            chk.inst("R01.6", f"{m2e.ref}::{label}::loop-body", ok, "iterate: x <- x1; x1 <- next(x)" if ok else f"loop body {b}", loc(m2e, loops[0]))
    tol = [s for s in body_without_doc(m2e.node) if isinstance(s, ast.Assign) and unparse(s.targets[0]) == "tol"]
    ok = len(tol) == 1 and isinstance(tol[0].value, ast.Constant) and 0 < tol[0].value.value <= 1e-6
    chk.inst("R01.6", f"{m2e.ref}::tol", ok, f"tolerance {unparse(tol[0].value) if tol else '?'} rad", loc(m2e, m2e.node), nontrivial=False)
    # wiring: the mean->eccentric conversion calls M2E(e, M)
    f = ft.conversions[("keplerian_mean", "keplerian_eccentric")]
    calls = [n for n in ast.walk(f.node) if isinstance(n, ast.Call) and unparse(n.func).endswith("M2E")]
    ok = len(calls) == 1 and [unparse(a) for a in calls[0].args] == ["e", "M"]
    chk.inst("R01.6", f"{f.ref}::calls-M2E(e, M)", ok, "solver receives (e, M)" if ok else "M2E call not found / wrong arguments", loc(f, f.node))
    chk.floor("R01.6", 7)


def _pyth_reducer(c_atom, s_atom, sign=-1):
    """s^2 -> 1 + sign*c^2 for plain atoms c, s (sign=-1 circular; +1: s=cosh-like...)."""
    def red(p):
        for _ in range(8):
            d = {}
            changed = False
            for k, v in p.d.items():
                m = dict(k)
                e = m.get(s_atom, 0)
                if e >= 2 and F(e).denominator == 1:
                    m[s_atom] = e - 2
                    rest = Poly({tuple(sorted((a, x) for a, x in m.items() if x != 0)): v})
                    rep = rest.mul(Poly.const(1) + Poly.const(sign) * Poly.atom(c_atom, 2), norm=False)
                    for kk, vv in rep.d.items():
                        d[kk] = d.get(kk, 0) + vv
                    changed = True
                else:
                    d[k] = d.get(k, 0) + v
            p = T.normalize(Poly(d))
            if not changed:
                break
        return p
    return red


def r01_8(chk, ft):
    fwd = ft.conversions[("keplerian", "keplerian_eccentric")]
    inv = ft.conversions[("keplerian_eccentric", "keplerian")]
    _, f_ell, f_hyp, _ = find_arm(fwd, "e", "<", "1")
    _, i_ell, i_hyp, i_tail = find_arm(inv, "e", "<", "1")
    c, s = Poly.atom("cν"), Poly.atom("sν")
    red = _pyth_reducer("cν", "sν", -1)
    nu = nf("ν")
    for label, farm, iarm, names, funcs, unit_sign in (
            ("elliptic", f_ell, i_ell, ("cos_E", "sin_E"), ("cos", "sin"), +1),
            ("hyperbolic", f_hyp, i_hyp, ("cosh_E", "sinh_E"), ("cosh", "sinh"), -1)):
        fe = run_env(farm, subst={f"cos({nu})": c, f"sin({nu})": s})
        cE, sE = fe.get(names[0]), fe.get(names[1])
        if not isinstance(cE, Poly) or not isinstance(sE, Poly):
            raise AnalysisError(f"{fwd.ref}: {names} not extractable in the {label} arm")
        where = loc(fwd, fwd.node)
        obl_eq(chk, "R01.8", f"{fwd.ref}::{label}::unit", cE * cE + unit_sign * sE * sE, Poly.const(1),
               f"{names[0]}² {'+' if unit_sign > 0 else '-'} {names[1]}² = 1", where, red)
        ie = run_env(iarm, subst={f"{funcs[0]}(E)": cE, f"{funcs[1]}(E)": sE})
        cnu, snu = ie.get(nf("cos_ν")), ie.get(nf("sin_ν"))
        if not isinstance(cnu, Poly) or not isinstance(snu, Poly):
            raise AnalysisError(f"{inv.ref}: cos_ν/sin_ν not extractable in the {label} arm")
        wi = loc(inv, inv.node)
        obl_eq(chk, "R01.8", f"{inv.ref}::{label}::cos-roundtrip", cnu, c, "cos ν recovered", wi, red)
        obl_eq(chk, "R01.8", f"{inv.ref}::{label}::sin-roundtrip", snu, s, "sin ν recovered", wi, red)
        # other direction: start from (cE, sE) atoms, inverse then forward
        cA, sA = Poly.atom("cE"), Poly.atom("sE")
        red2 = _pyth_reducer("cE", "sE", -1 if unit_sign > 0 else +1) if unit_sign > 0 else _pyth_reducer("sE", "cE", +1)
        ie2 = run_env(iarm, subst={f"{funcs[0]}(E)": cA, f"{funcs[1]}(E)": sA})
        cnu2, snu2 = ie2.get(nf("cos_ν")), ie2.get(nf("sin_ν"))
        obl_eq(chk, "R01.8", f"{inv.ref}::{label}::unit", cnu2 * cnu2 + snu2 * snu2, Poly.const(1), "cos²ν + sin²ν = 1", wi, red2)
        fe2 = run_env(farm, subst={f"cos({nu})": cnu2, f"sin({nu})": snu2})
        obl_eq(chk, "R01.8", f"{fwd.ref}::{label}::cos-roundtrip", fe2.get(names[0]), cA, f"{names[0]} recovered", where, red2)
        obl_eq(chk, "R01.8", f"{fwd.ref}::{label}::sin-roundtrip", fe2.get(names[1]), sA, f"{names[1]} recovered", where, red2)
    # the angle is rebuilt from (sin, cos) in that order
    for f, stmts, var, sname, cname in ((fwd, f_ell, "E", "sin_E", "cos_E"), (inv, i_tail, nf("ν"), nf("sin_ν"), nf("cos_ν"))):
        found = False
        for st in stmts:
            if isinstance(st, ast.Assign) and unparse(st.targets[0]) == var:
                for n in ast.walk(st.value):
                    if isinstance(n, ast.Call) and unparse(n.func).split(".")[-1] == "arctan2":
                        found = True
                        ok = [unparse(a) for a in n.args] == [sname, cname]
                        chk.inst("R01.8", f"{f.ref}::arctan2({sname}, {cname})", ok, "angle from (sin, cos)" if ok else
                                 f"arctan2 arguments are {[unparse(a) for a in n.args]}", loc(f, st))
        if not found:
            raise AnalysisError(f"{f.ref}: arctan2 for {var} not found")
    # hyperbolic anomaly from tanh: E = arctanh(sinh_E / cosh_E)
    for st in f_hyp:
        if isinstance(st, ast.Assign) and unparse(st.targets[0]) == "E":
            ok = unparse(st.value).replace(" ", "") in ("arctanh(sinh_E/cosh_E)", "np.arctanh(sinh_E/cosh_E)")
            chk.inst("R01.8", f"{fwd.ref}::hyperbolic::arctanh", ok, "H = artanh(sinh H / cosh H)" if ok else f"E = {unparse(st.value)}", loc(fwd, st))
    chk.floor("R01.8", 15)


def r01_8b(chk, ft):
    """The anomaly returned by the true→eccentric conversion carries the sign of sin ν through its data flow (both arms),
    and no arm picks the sign from a range test on ν (the angle is not normalised by the neighbouring conversions)."""
    from ..flow import reaching
    fwd = ft.conversions[("keplerian", "keplerian_eccentric")]
    flow = reaching(fwd.node)
    nu = nf("ν")
    rets = [n for n in ast.walk(fwd.node) if isinstance(n, ast.Return)]
    if len(rets) != 1 or not isinstance(rets[0].value, ast.Call) or not isinstance(rets[0].value.args[0], ast.List):
        raise AnalysisError(f"{fwd.ref}: return shape")
    last = rets[0].value.args[0].elts[-1]
    # transitive closure of reaching definitions of the returned anomaly
    seen, todo, texts = set(), [last], []
    while todo:
        n = todo.pop()
        for x in ast.walk(n):
            if isinstance(x, ast.Name) and isinstance(x.ctx, ast.Load) and id(x) not in seen:
                seen.add(id(x))
                for d in flow.defs_of(x):
                    if d[0] in ("assign", "unpack"):
                        texts.append(unparse(d[1]))
                        todo.append(d[1])
    _, ell, hyp, _ = find_arm(fwd, "e", "<", "1")
    for label, arm in (("elliptic", ell), ("hyperbolic", hyp)):
        arm_defs = [unparse(s.value) for s in arm if isinstance(s, ast.Assign)]
        reach = [t for t in arm_defs if t in texts]
        ok = any(f"sin({nu})" in t for t in reach)
        chk.inst("R01.8", f"{fwd.ref}::{label}::sign-carried-by-sin", ok, "the anomaly is computed from an expression odd in ν (sin ν): correct on both sides of periapsis for any representative of ν" if ok else
                 "the anomaly no longer depends on sin ν by data flow: its sign must then come from a test on ν, which is not normalised (ν = u − ω from the circular form can be negative)", loc(fwd, fwd.node))
        tests = [n for s in arm for n in ast.walk(s) if isinstance(n, (ast.If, ast.IfExp)) and nu in unparse(n.test)]
        chk.inst("R01.8", f"{fwd.ref}::{label}::no-range-test-on-ν", not tests, "no branch on the value of ν" if not tests else
                 f"`{unparse(tests[0].test)}` decides the sign from the range of an un-normalised angle", loc(fwd, tests[0]) if tests else loc(fwd, fwd.node))


class PolarExtract(Extract):
    """arctan2(k·sin A, k·cos A) with a positive monomial k evaluates to A for A among the candidate angles;
    arctan(tan[B]) evaluates to B."""

    def __init__(self, candidates, positive=(), **kw):
        super().__init__(**kw)
        self.candidates = candidates
        self.positive = list(positive)     # expressions known to be positive (besides positive monomials)
        self.log = []

    def call(self, n):
        fname = unparse(n.func).split(".")[-1]
        if fname == "arctan2" and len(n.args) == 2:
            s_, c_ = self.ev(n.args[0]), self.ev(n.args[1])
            for A in self.candidates:
                sa, ca = T.trig("sin", A), T.trig("cos", A)
                if T.equal(s_ * ca, c_ * sa):
                    k = T.normalize(s_ * sa + c_ * ca)
                    if (len(k.d) == 1 and all(v > 0 for v in k.d.values())) or any(T.equal(k, q) for q in self.positive):
                        self.log.append((unparse(n), T.fmt(A), T.fmt(k)))
                        return A
            raise Unsupported(f"arctan2 arguments are not (k sin A, k cos A) of a candidate angle: {unparse(n)}")
        if fname == "arctan" and len(n.args) == 1:
            x = T.normalize(self.ev(n.args[0]))
            if len(x.d) == 1:
                (k, v), = x.d.items()
                if v == 1 and len(k) == 1 and k[0][1] == 1:
                    info = T.ATOMS.get(k[0][0])
                    if info and info[0] == "func" and info[1] == "tan":
                        return info[2]
            raise Unsupported(f"arctan argument is not tan of an angle: {unparse(n)}")
        return super().call(n)


def r01_10(chk, ft):
    """Polar pairs: the decoders of circular, mean-circular and equinoctial forms invert their encoders."""
    a, e, i, Om, om, nu, M = (Poly.atom(nf(x)) for x in ("a", "e", "i", "Ω", "ω", "ν", "M"))
    cases = [
        (("keplerian", "keplerian_circular"), ("keplerian_circular", "keplerian"), [a, e, i, Om, om, nu], [om]),
        (("keplerian_mean", "keplerian_mean_circular"), ("keplerian_mean_circular", "keplerian_mean"), [a, e, i, Om, om, M], [om]),
        (("keplerian", "keplerian_equinoctial".replace("keplerian_", "")), ("equinoctial", "keplerian"), [a, e, i, Om, om, nu], [Om, Om + om]),
    ]
    for enc_key, dec_key, atoms, cands in cases:
        enc, dec = ft.conversions[enc_key], ft.conversions[dec_key]
        names, _ = _unpack_of_coord(enc)
        ex = Extract(env={n: v for n, v in zip(names, atoms)})
        ex.run([s for s in body_without_doc(enc.node) if not (isinstance(s, ast.Assign) and isinstance(s.targets[0], ast.Tuple))])
        encoded = ret_vec(ex.env, enc)
        dnames, _ = _unpack_of_coord(dec)
        px = PolarExtract(cands, env={n: v for n, v in zip(dnames, encoded)})
        try:
            px.run([s for s in body_without_doc(dec.node) if not (isinstance(s, ast.Assign) and isinstance(s.targets[0], ast.Tuple))], stop_on_unsupported=True)
            back = ret_vec(px.env, dec)
        except Unsupported as err:
            chk.obl("R01.10", f"{dec.ref}∘{enc.qualname}", False, f"decoder does not invert the encoder: {err}", loc(dec, dec.node))
            continue
        for k in range(6):
            obl_eq(chk, "R01.10", f"{dec.ref}∘{enc.qualname}[{k}]", back[k], atoms[k], "element recovered", loc(dec, dec.node))
    chk.floor("R01.10", 18)


def r01_11(chk, ft):
    """keplerian → cartesian: position is the perifocal→inertial rotation of r(cos u, sin u); velocity is its total
    time-derivative with ν' = h/r² (all other elements constant); r = p/(1 + e cos ν), p = a(1 − e²), h = √(µ p)."""
    f = ft.conversions[("keplerian", "cartesian")]
    names, _ = _unpack_of_coord(f)
    cn = [nf(x) for x in names]
    ex = Extract()
    ex.run(body_without_doc(f.node))
    v = ret_vec(ex.env, f)
    a, e, i, Om, om, nu = (Poly.atom(x) for x in cn)
    mu = [x for x in (ex.env["h"].atoms() if isinstance(ex.env.get("h"), Poly) else []) if "body" in x]
    if not mu:
        raise AnalysisError(f"{f.ref}: h = sqrt(µ p) not found")
    MU = Poly.atom([x for x in T.ATOMS.get(mu[0], ("", "", Poly()))[1].atoms() if "body" in x][0]) if mu[0].startswith("B") else Poly.atom(mu[0])
    p_ = a * (1 - e * e)
    r = p_ / (1 + e * T.trig("cos", nu))
    h = T.power(MU * p_, F(1, 2))
    u = om + nu
    cu, su = T.trig("cos", u), T.trig("sin", u)
    cO, sO, ci, si = T.trig("cos", Om), T.trig("sin", Om), T.trig("cos", i), T.trig("sin", i)
    pos = [r * (cO * cu - sO * su * ci), r * (sO * cu + cO * su * ci), r * si * su]
    where = loc(f, f.node)
    for k in range(3):
        obl_eq(chk, "R01.11", f"{f.ref}::position[{k}]", v[k], pos[k], "r · (perifocal → inertial rotation of (cos u, sin u))", where)
    nudot = h / (r * r)
    for k in range(3):
        want = T.deriv(pos[k], {cn[5]: Poly.const(1)}) * nudot
        obl_eq(chk, "R01.11", f"{f.ref}::velocity[{k}]", v[3 + k], want, "velocity = d(position)/dν · h/r²", where)
    chk.floor("R01.11", 6)


def r01_13(chk, ft):
    """cartesian → keplerian inverts keplerian → cartesian (whose terms R01.11 ties to the textbook): with (r, v) the
    symbolic output of the forward conversion, every element is recovered.  Norms are replaced by their closed forms,
    each justified by its own squared obligation."""
    fwd = ft.conversions[("keplerian", "cartesian")]
    rev = ft.conversions[("cartesian", "keplerian")]
    names, _ = _unpack_of_coord(fwd)
    cn = [nf(x) for x in names]
    ex = Extract()
    ex.run(body_without_doc(fwd.node))
    st = ret_vec(ex.env, fwd)
    a, e, i, Om, om, nu = (Poly.atom(x) for x in cn)
    mu_atoms = [x for x in ex.env["h"].atoms()] if isinstance(ex.env.get("h"), Poly) else []
    body_mu = None
    for x in mu_atoms:
        info = T.ATOMS.get(x)
        if info and info[0] == "base":
            for y in info[1].atoms():
                if "body" in y:
                    body_mu = y
        elif "body" in x:
            body_mu = x
    if body_mu is None:
        raise AnalysisError(f"{fwd.ref}: µ not identified")
    MU = Poly.atom(body_mu)
    p_ = a * (1 - e * e)
    r_c = p_ / (1 + e * T.trig("cos", nu))
    h_c = T.power(MU * p_, F(1, 2))
    rv, vv = st[:3], st[3:]
    where = loc(rev, rev.node)
    hvec = T.cross(rv, vv)
    ok_r = T.equal(T.dot(rv, rv), r_c * r_c)
    ok_h = T.equal(T.dot(hvec, hvec), h_c * h_c)
    chk.obl("R01.13", f"{rev.ref}::|r|", ok_r, "|r|² = (p/(1+e cos ν))²" if ok_r else "norm of the forward position is not r", where)
    chk.obl("R01.13", f"{rev.ref}::|h|", ok_h, "|r × v|² = µ p" if ok_h else "norm of the angular momentum is not √(µ p)", where)
    si, ci, sO, cO = T.trig("sin", i), T.trig("cos", i), T.trig("sin", Om), T.trig("cos", Om)
    h_closed = [h_c * si * sO, -(h_c * si * cO), h_c * ci]
    ok_hv = all(T.equal(hvec[k], h_closed[k]) for k in range(3))
    chk.obl("R01.13", f"{rev.ref}::r×v", ok_hv, "r × v = h (sin i sin Ω, −sin i cos Ω, cos i)" if ok_hv else "angular momentum of the forward state is not h·n̂(i, Ω)", where)
    rdotv_closed = r_c * h_c * e / p_ * T.trig("sin", nu)
    ok_rv = T.equal(T.dot(rv, vv), rdotv_closed)
    chk.obl("R01.13", f"{rev.ref}::r·v", ok_rv, "r · v = r (h e/p) sin ν" if ok_rv else "radial rate of the forward state is not (h e/p) sin ν", where)
    v2_closed = MU * (Poly.const(2) / r_c - Poly.const(1) / a)
    ok_v = T.equal(T.dot(vv, vv), v2_closed)
    chk.obl("R01.13", f"{rev.ref}::|v|", ok_v, "|v|² = µ (2/r − 1/a) (vis-viva holds for the forward state)" if ok_v else "speed of the forward state violates vis-viva", where)
    if not (ok_r and ok_h and ok_hv and ok_rv and ok_v):
        return
    c = rev.params()[1]

    class CK(PolarExtract):
        def call(self, n):
            fname = unparse(n.func).split(".")[-1]
            t = unparse(n)
            if t in ("np.linalg.norm(r)", "norm(r)"):
                return r_c
            if t in ("np.linalg.norm(h)", "norm(h)"):
                return h_c
            if t in ("np.linalg.norm(v)", "norm(v)"):
                return T.power(v2_closed, F(1, 2))
            if t in ("np.cross(r, v)", "cross(r, v)"):
                return list(h_closed)
            if t in ("np.dot(v, r)", "np.dot(r, v)", "v @ r", "r @ v"):
                return rdotv_closed
            if fname == "arccos" and len(n.args) == 1:
                x = self.ev(n.args[0])
                for A in self.candidates + [i]:
                    if T.equal(x, T.trig("cos", A)):
                        return A
                raise Unsupported(f"arccos argument is not the cosine of a candidate angle: {t}")
            return super().call(n)

        def ev(self, n):
            t = unparse(n)
            if t == f"{c}[:3]":
                return list(rv)
            if t == f"{c}[3:]":
                return list(vv)
            return super().ev(n)
    ck = CK([Om, om + nu, nu, om], positive=[r_c, r_c * e, h_c * si], env={})
    try:
        ck.run(body_without_doc(rev.node), stop_on_unsupported=True)
        back = ret_vec(ck.env, rev)
    except Unsupported as err:
        chk.obl("R01.13", f"{rev.ref}∘{fwd.qualname}", False, f"the reverse conversion does not invert the forward one: {err}", where)
        return
    want = [a, e, i, Om, om, nu]
    for k in range(6):
        obl_eq(chk, "R01.13", f"{rev.ref}∘{fwd.qualname}[{cn[k]}]", back[k], want[k], "element recovered", where)
    chk.floor("R01.13", 11)


def r01_9(chk, ft):
    f1 = ft.conversions[("tle", "keplerian_mean")]
    f2 = ft.conversions[("keplerian_mean", "tle")]
    e1 = run_env(body_without_doc(f1.node))
    a_of_n = e1.get("a")
    ex = Extract(env={"a": a_of_n})
    for st in body_without_doc(f2.node):
        if isinstance(st, ast.Assign) and isinstance(st.targets[0], ast.Tuple):
            continue
        ex.run([st])
    n_back = ex.env.get("n")
    if not isinstance(a_of_n, Poly) or not isinstance(n_back, Poly):
        raise AnalysisError("mean-motion pair not extractable")
    obl_eq(chk, "R01.9", f"{f2.ref}∘{f1.qualname}::n", n_back, Poly.atom("n"), "n(a(n)) = n", loc(f2, f2.node))
    e2 = run_env(body_without_doc(f2.node))
    mu = [a for a in e2["n"].atoms() if "body" in a]
    inf = chk.repo.func(SV, "Infos.n")
    ienv = run_env(body_without_doc(inf.node), env={"self.mu": Poly.atom(mu[0]) if mu else Poly.atom("mu"), "self.kep.a": Poly.atom("a")})
    obl_eq(chk, "R01.9", f"{inf.ref}~{f2.qualname}::n", ienv.get("return"), e2["n"], "Infos.n is the same mean motion", loc(inf, inf.node))
    chk.floor("R01.9", 2)


# ---- R01.12 Infos ------------------------------------------------------------------------------------------------

class InfosExtract(Extract):
    """Inlines properties of Infos: `self.<prop>` is replaced by the property's returned expression."""

    def __init__(self, cls, depth=0):
        super().__init__()
        self.cls = cls
        self.depth = depth

    def ev(self, n):
        if isinstance(n, ast.Attribute):
            t = unparse(n)
            if t == "self.mu":
                return Poly.atom("mu")
            if t.startswith("self.kep.") or t.startswith("self.sphe."):
                name = nf(t.split(".")[-1])
                alias = {"nu": nf("ν")}
                return Poly.atom(alias.get(name, name))
            if t == "self.orb.frame.center.body.r":
                return Poly.atom("R_body")
            if isinstance(n.value, ast.Name) and n.value.id == "self" and n.attr in self.cls.methods:
                if self.depth > 6:
                    raise Unsupported("property recursion")
                f = self.cls.methods[n.attr]
                sub = InfosExtract(self.cls, self.depth + 1)
                sub.run([s for s in body_without_doc(f.node) if isinstance(s, (ast.Assign, ast.Return))])
                if "return" not in sub.env:
                    raise Unsupported(f"property {n.attr} has no extractable return")
                return sub.env["return"]
        return super().ev(n)

    def call(self, n):
        if unparse(n.func) == "timedelta":
            for k in n.keywords:
                if k.arg == "seconds":
                    return self.ev(k.value)
        return super().call(n)


def r01_12(chk):
    cls = chk.repo.cls(SV, "Infos")
    mu, a, e, r = Poly.atom("mu"), Poly.atom("a"), Poly.atom("e"), Poly.atom("r")
    nu = Poly.atom(nf("ν"))
    half = F(1, 2)
    n = T.power(mu / T.power(a, 3), half)
    ra, rp = a * (1 + e), a * (1 - e)
    v = T.power(mu * (Poly.const(2) / r - Poly.const(1) / a), half)
    p = a * (1 - e * e)
    relations = {
        "energy": -mu / (2 * a),
        "n": n,
        "period": 2 * Poly.atom(T.PI) / n,
        "apocenter": ra, "pericenter": rp, "ra": ra, "rp": rp,
        "r": r,
        "zp": rp - Poly.atom("R_body"), "za": ra - Poly.atom("R_body"),
        "v": v,
        "va": T.power(mu * (Poly.const(2) / ra - Poly.const(1) / a), half),
        "vp": T.power(mu * (Poly.const(2) / rp - Poly.const(1) / a), half),
        "vinf": T.power(mu / a, half),
        "cos_fpa": T.power(mu / p, half) * (1 + e * T.trig("cos", nu)) / v,
        "sin_fpa": T.power(mu / p, half) * e * T.trig("sin", nu) / v,
        "delay": r / Poly.atom("c"),
    }
    for name, want in relations.items():
        f = cls.methods.get(name)
        if f is None:
            raise AnalysisError(f"{SV}::Infos.{name} not found")
        ex = InfosExtract(cls)
        try:
            ex.run([s for s in body_without_doc(f.node) if isinstance(s, (ast.Assign, ast.Return))], stop_on_unsupported=True)
            got = ex.env["return"]
        except (Unsupported, KeyError) as err:
            raise AnalysisError(f"{f.ref}: not extractable ({err})")
        obl_eq(chk, "R01.12", f"{f.ref}::definition", got, want, "obeys its defining relation", loc(f, f.node))
    # dinf: |a e| sqrt(1 - 1/e²) = |a| sqrt(e² - 1): compare squares (abs is the identity on positive atoms)
    f = cls.methods["dinf"]
    ex = InfosExtract(cls)
    ex.run([s for s in body_without_doc(f.node) if isinstance(s, (ast.Assign, ast.Return))])
    got = ex.env["return"]
    obl_eq(chk, "R01.12", f"{f.ref}::definition", got * got, a * a * (e * e - 1), "dinf² = a²(e² − 1) (impact parameter)", loc(f, f.node))
    # fpa = arctan2(sin_fpa, cos_fpa)
    f = cls.methods["fpa"]
    rets = [s for s in body_without_doc(f.node) if isinstance(s, ast.Return)]
    ok = len(rets) == 1 and unparse(rets[0].value).replace("np.", "") == "arctan2(self.sin_fpa, self.cos_fpa)"
    chk.inst("R01.12", f"{f.ref}::arctan2(sin, cos)", ok, "angle from (sin, cos)" if ok else f"returns {unparse(rets[0].value) if rets else '?'}", loc(f, f.node))
    # guards: quantities defined only for bound orbits raise on `not self.elliptic`
    for name, flag in (("period", "elliptic"), ("apocenter", "elliptic"), ("va", "elliptic"), ("vinf", "hyperbolic"), ("dinf", "hyperbolic")):
        f = cls.methods[name]
        first = body_without_doc(f.node)[0]
        ok = isinstance(first, ast.If) and unparse(first.test) == f"not self.{flag}" and any(isinstance(s, ast.Raise) for s in first.body)
        chk.inst("R01.12", f"{f.ref}::guard", ok, f"refuses unless {flag}" if ok else "guard missing", loc(f, f.node))
    for name, op in (("elliptic", "<"), ("parabolic", "=="), ("hyperbolic", ">")):
        f = cls.methods[name]
        rets = [s for s in body_without_doc(f.node) if isinstance(s, ast.Return)]
        tr = cmp_triples(rets[0].value) if rets else []
        ok = len(tr) == 1 and unparse(tr[0][0]) == "self.kep.e" and tr[0][1] == op and unparse(tr[0][2]) == "1"
        chk.inst("R01.12", f"{f.ref}::classification", ok, f"e {op} 1" if ok else f"returns {unparse(rets[0].value) if rets else '?'}", loc(f, f.node))
    # kep / sphe caches are the orbit converted to those forms
    for name, form in (("kep", "keplerian"), ("sphe", "spherical")):
        f = cls.methods[name]
        ok = any(isinstance(n, ast.Call) and unparse(n) == f"self.orb.copy(form='{form}')" for n in ast.walk(f.node))
        chk.inst("R01.12", f"{f.ref}::form", ok, f"view in {form} form" if ok else "unexpected source", loc(f, f.node))
    f = cls.methods["mu"]
    rets = [s for s in body_without_doc(f.node) if isinstance(s, ast.Return)]
    ok = len(rets) == 1 and nf(unparse(rets[0].value)) in ("self.orb.frame.center.body.mu", nf("self.orb.frame.center.body.µ"))
    chk.inst("R01.12", f"{f.ref}::source", ok, "gravitational parameter of the frame's central body" if ok else "unexpected source", loc(f, f.node))
    chk.floor("R01.12", 30)


def run(chk):
    chk.rule("R01.1", "form graph is a tree and matches the conversion table, dispatch and caches")
    chk.rule("R01.2", "element order of every conversion equals param_names of its source/target form")
    chk.rule("R01.3", "no canonical parameter name is a key of Form.alt")
    chk.rule("R01.4", "circular and mean-circular sibling conversions are the same map")
    chk.rule("R01.5", "spherical/cylindrical: definitions, rates = d/dt, reverse gives the atoms back (term algebra)")
    chk.rule("R01.6", "M2E is Newton on the sibling's Kepler equation; loop leaves below tolerance")
    chk.rule("R01.8", "true <-> eccentric anomaly conversions are mutual inverses (term algebra)")
    chk.rule("R01.9", "mean motion <-> semi-major axis pair inverse and equal to Infos.n")
    chk.rule("R01.12", "Infos quantities obey their defining relations (term algebra)")
    ft = FormTable(chk)
    chk.guard(r01_1, chk, ft)
    chk.guard(r01_2, chk, ft)
    chk.guard(r01_3, chk, ft)
    chk.guard(r01_4, chk, ft)
    chk.guard(r01_5, chk, ft)
    chk.guard(r01_6, chk, ft)
    chk.guard(r01_8, chk, ft)
    chk.guard(r01_8b, chk, ft)
    chk.guard(r01_9, chk, ft)
    chk.rule("R01.10", "polar-pair decoders (circular, mean-circular, equinoctial) invert their encoders (term algebra)")
    chk.guard(r01_10, chk, ft)
    chk.rule("R01.11", "keplerian → cartesian equals the textbook position and its time-derivative (term algebra)")
    chk.guard(r01_11, chk, ft)
    chk.rule("R01.13", "cartesian → keplerian inverts keplerian → cartesian symbolically (term algebra, polar decoders)")
    chk.guard(r01_13, chk, ft)
    chk.guard(r01_12, chk)
    chk.assume("positive-atom assumption: sqrt(x²)=x and |x|=x for the atoms r, a, e, cos φ (elements in their documented ranges)")
    chk.assume("angles are compared modulo 2π")
    chk.assume("textbook definitions: vis-viva, p = a(1−e²), flight-path angle cos γ = sqrt(µ/p)(1+e cos ν)/v, sin γ = sqrt(µ/p) e sin ν / v")
