"""C04 — results depend on the instant, never on the Date's scale label (rule C; decided whole).

Rule C.  Members of `Date` are *invariant* or *label-relative* (table A1, re-derived from date.py on every
run).  A label-relative read outside class Date is admissible only if its receiver is
 (a) `X.change_scale(<literal>)`, directly or through locals all of whose reaching definitions are such calls,
 (b) a Date built in place (`Date.now()`, `Date(...)`),
 (c) inside dates/date.py,
 (d) in a record writer that emits the scale *of the same date object* in the same record, or normalised with
     `X.change_scale(<label date>.scale...)`.
C.2: the elapsed time of every propagate/iter is computed from invariant members.
C.3: no control flow depends on `.scale` outside date.py.
"""
import ast

from ..flow import reaching
from ..model import Func, call_name, dotted, loc, unparse, walk_no_nested
from .common import (DATE_MODULE, Origins, check_date_table, date_reads_in, is_change_scale,
                     label_paths_of)

EXEMPT_MODULES = {DATE_MODULE: "(c) implementation of Date itself; decided by R03.2/R03.5"}


def module_level_func(module):
    """Module-level statements (outside defs/classes and outside `if __name__ == '__main__'`) as a pseudo function."""
    body = []
    for st in module.tree.body:
        if isinstance(st, (ast.FunctionDef, ast.AsyncFunctionDef, ast.ClassDef)):
            continue
        if isinstance(st, ast.If) and "__name__" in unparse(st.test):
            continue
        body.append(st)
    if not body:
        return None
    node = ast.FunctionDef(name="<module>", args=ast.arguments(posonlyargs=[], args=[], vararg=None, kwonlyargs=[],
                                                               kw_defaults=[], kwarg=None, defaults=[]),
                           body=body, decorator_list=[], returns=None, type_comment=None, lineno=1, col_offset=0)
    return Func(module, None, "<module>", node)


def emitter_table(repo):
    """Functions that emit a scale label, with the parameter-rooted paths of the dates whose label they emit."""
    table = {}
    for f in repo.all_funcs():
        if f.module.rel in EXEMPT_MODULES:
            continue
        lp = label_paths_of(f)
        if lp:
            table[(f.module.rel, f.qualname)] = (f, lp)
    return table


def label_paths_for(repo, func, flow, emitters):
    """Paths (in func's own terms) of the dates whose label ends up in the record func writes."""
    org = Origins(flow)
    own = set(emitters.get((func.module.rel, func.qualname), (None, set()))[1])
    for call in [n for n in ast.walk(func.node) if isinstance(n, ast.Call)]:
        name = call_name(call)
        if name is None or not isinstance(call.func, ast.Name):
            continue
        r = repo.resolve_name(func.module, name)
        if not isinstance(r, Func):
            continue
        ent = emitters.get((r.module.rel, r.qualname))
        if not ent:
            continue
        g, paths = ent
        params = g.params()
        for p in paths:
            root, _, rest = p.partition(".")
            root_name = root.split("[")[0]
            if root_name not in params:
                continue
            i = params.index(root_name)
            arg = None
            if i < len(call.args):
                arg = call.args[i]
            else:
                for k in call.keywords:
                    if k.arg == root_name:
                        arg = k.value
            if arg is None:
                continue
            for o in org.of(arg):
                if o[0] == "path":
                    own.add(o[1] + root[len(root_name):] + ("." + rest if rest else ""))
    return own


def run(chk):
    repo = chk.repo
    chk.rule("C.0", "table A1 (label-relative members of Date) re-derived from date.py equals the frozen table")
    chk.rule("C.1", "every label-relative read of a Date outside date.py has a normalised / built-in-place / same-record-label receiver")
    chk.rule("C.2", "elapsed time in propagate/iter is a difference of Dates (invariant), not of label-relative readings")
    chk.rule("C.3", "no branch or comparison on a Date's .scale outside date.py")
    tainted = check_date_table(chk)
    chk.inst("C.0", "A1", True, f"label-relative members: {sorted(t for t in tainted if not t.startswith('_'))}",
             DATE_MODULE, nontrivial=True)

    emitters = emitter_table(repo)
    n_funcs = 0
    n_exempt = 0
    for m in repo.modules.values():
        funcs = list(m.all_funcs())
        ml = module_level_func(m)
        if ml is not None:
            funcs.append(ml)
        for f in funcs:
            n_funcs += 1
            reads, flow = date_reads_in(repo, f)
            if m.rel in EXEMPT_MODULES:
                n_exempt += len(reads)
                continue
            if reads:
                lps = label_paths_for(repo, f, flow, emitters)
                org = Origins(flow)
                for r in reads:
                    origins = org.of(r.receiver)
                    verdicts = []
                    for o in origins:
                        if o[0] == "norm":
                            verdicts.append((True, f"(a) normalised to {o[1]}"))
                        elif o[0] == "normexpr":
                            # admissible when the scale expression is the label date's own scale
                            allowed = {f"{lp}.scale" for lp in lps} | {f"{lp}.scale.name" for lp in lps}
                            ok = bool(o[1]) and all(x in allowed for x in o[1].split("|"))
                            verdicts.append((ok, f"(d) normalised to {o[1]}" if ok else f"normalised to a non-literal scale {o[1]}"))
                        elif o[0] == "built":
                            verdicts.append((True, "(b) built in place"))
                        elif o[0] == "dtvalue":
                            verdicts.append((True, "value of a .datetime read counted at its own site"))
                        elif o[0] == "path":
                            ok = o[1] in lps
                            verdicts.append((ok, f"(d) label of {o[1]} is emitted in the same record" if ok
                                             else f"raw read of {o[1]} (label paths of this record: {sorted(lps) or 'none'})"))
                        else:  # pragma: no cover
                            verdicts.append((False, f"receiver of unknown origin: {o}"))
                    ok = bool(verdicts) and all(v[0] for v in verdicts)
                    recv = unparse(r.receiver)
                    key = f"{f.ref}::{recv}.{r.member}"
                    chk.inst("C.1", key, ok, "; ".join(sorted({v[1] for v in verdicts})), r.where,
                             detail={"receiver": recv, "member": r.member, "origins": sorted(map(str, origins))})
            # C.2 elapsed-time expressions
            if f.name in ("propagate", "_propagate", "_iter", "iter", "_make_step", "_accel"):
                for n in ast.walk(f.node):
                    if isinstance(n, ast.Call) and isinstance(n.func, ast.Attribute) and n.func.attr == "total_seconds":
                        recv = n.func.value
                        bad = [a for a in ast.walk(recv) if isinstance(a, ast.Attribute) and a.attr in
                               ("datetime", "d", "s", "mjd", "jd")]
                        chk.inst("C.2", f"{f.ref}::{unparse(recv)}", not bad,
                                 "elapsed time from invariant Date difference / timedelta" if not bad else
                                 f"elapsed time built from label-relative reading(s) {[unparse(b) for b in bad]}", loc(f, n))
            # C.3 branching on the label
            if m.rel not in EXEMPT_MODULES:
                for n in ast.walk(f.node):
                    tests = []
                    if isinstance(n, (ast.If, ast.While, ast.IfExp)):
                        tests.append(n.test)
                    elif isinstance(n, ast.Compare):
                        tests.append(n)
                    for t in tests:
                        for a in ast.walk(t):
                            if isinstance(a, ast.Attribute) and a.attr == "scale" and isinstance(a.ctx, ast.Load):
                                chk.inst("C.3", f"{f.ref}::{unparse(t)}", False,
                                         "control flow depends on the scale label of a Date", loc(f, t))
    # census of `.scale` reads for evidence (each must be a label emission or an argument of change_scale/scale=)
    n_scale = 0
    for f in repo.all_funcs():
        if f.module.rel in EXEMPT_MODULES:
            continue
        pm = None
        for n in ast.walk(f.node):
            if isinstance(n, ast.Attribute) and n.attr == "scale" and isinstance(n.ctx, ast.Load):
                n_scale += 1
    chk.inst("C.3", "census", True, f"{n_scale} reads of .scale outside date.py, none in a test position", "", nontrivial=False)
    chk.extra.update({"functions_scanned": n_funcs, "reads_inside_date_py_exempt": n_exempt,
                      "label_emitters": sorted(f"{k[0]}::{k[1]}" for k in emitters)})
    # C.4 — the dual of C.1 on the reading side of a record: a function that is handed the label of the dates it builds
    # (a `scale` parameter) passes it to every Date it builds; a builder without it falls back to UTC, so the instant read
    # depends on which syntactic variant of the timestamp was met
    chk.rule("C.4", "a function that receives the scale of the dates it builds hands it to every Date constructor it calls")
    n4 = 0
    for f in repo.all_funcs():
        if f.module.rel in EXEMPT_MODULES or "scale" not in f.params():
            continue
        builders = [n for n in ast.walk(f.node) if isinstance(n, ast.Call) and unparse(n.func) in ("Date", "Date.strptime", "Date.strptime", "Date.fromisoformat")]
        for b in builders:
            passed = any(k.arg == "scale" and unparse(k.value).split(".")[0] == "scale" for k in b.keywords) or \
                any(isinstance(a, ast.Name) and a.id == "scale" for a in b.args)
            n4 += 1
            chk.inst("C.4", f"{f.ref}::{unparse(b.func)}({', '.join(unparse(a) for a in b.args[1:2])})", passed,
                     "built in the scale the caller named" if passed else
                     f"`{unparse(b)[:90]}` ignores the `scale` it was given: the date is built in UTC whatever the label of the record", loc(f, b))
    chk.floor("C.4", 3)
    chk.floor("C.1", 30)
    chk.floor("C.2", 4)
    chk.assume("receivers of the ambiguous names .d/.s are Dates unless listed in NON_DATE_RECEIVERS (sgp4beta Init)")
    chk.assume("R03.2/R03.5 (C03) for the implementation of Date itself")
