"""Dependency cone of a property: everything the code it is anchored in can reach.

A whole-package reference graph over the units E8 fingerprints — functions (vgraph keys `f`, `C.m`, `C.p:setter`),
class bodies (`C.<class>`), module bodies (`<module>`) and literal module constants (`const:NAME`).  Edges are resolved
as far as the source allows and over-approximated by name beyond that:

  bare name            → the module's own function / class / assignment, or the import target (followed through re-exports);
                         a class adds its body, the bodies of its bases and `__init__` / `__new__`;
                         a module-level singleton `x = K()` adds every method of K (the state the reader sees is written there)
  `mod.name`           → resolved in that module
  `self.a` / `cls.a` / `K.a` / `super().a`
                       → every definition of `a` in the class, its bases and its subclasses (method, property getter, class
                         attribute → class body); `__getattr__` of the hierarchy when nothing defines it
  `x.a` (unknown x)    → every method / getter / class attribute named `a` in the package; every `__getattr__` when none
  `x.a = …`, `del x.a` → every setter / deleter named `a`, every `__setattr__`
  operators, subscripts, calls of values, iteration, `with`, `len()`/`abs()`/…  → the dunder methods of that name
  `getattr(self, <computed>)`  → every method of the hierarchy (form and scale conversions are dispatched this way)

The cone of a set of entry units is the reflexive-transitive closure.  It is recomputed from the current tree on every run."""
import ast

from .model import Class, Func

BIN = {ast.Add: "add", ast.Sub: "sub", ast.Mult: "mul", ast.Div: "truediv", ast.MatMult: "matmul", ast.Mod: "mod",
       ast.Pow: "pow", ast.FloorDiv: "floordiv", ast.BitAnd: "and", ast.BitOr: "or", ast.BitXor: "xor",
       ast.LShift: "lshift", ast.RShift: "rshift"}
CMP = {ast.Lt: ("__lt__", "__gt__"), ast.LtE: ("__le__", "__ge__"), ast.Gt: ("__gt__", "__lt__"), ast.GtE: ("__ge__", "__le__"),
       ast.Eq: ("__eq__",), ast.NotEq: ("__ne__", "__eq__"), ast.In: ("__contains__",), ast.NotIn: ("__contains__",)}
UNARY = {ast.USub: "__neg__", ast.UAdd: "__pos__", ast.Invert: "__invert__"}
BUILTIN_DUNDER = {"len": "__len__", "abs": "__abs__", "iter": "__iter__", "next": "__next__", "float": "__float__",
                  "int": "__int__", "bool": "__bool__", "hash": "__hash__", "reversed": "__reversed__", "round": "__round__",
                  "sorted": "__lt__", "min": "__lt__", "max": "__gt__", "list": "__iter__", "tuple": "__iter__", "set": "__hash__"}


def _foreign_attrs():
    import datetime
    import collections
    out = set()
    for t in (dict, list, tuple, set, frozenset, str, bytes, int, float, complex, datetime.datetime, datetime.timedelta, datetime.date,
              collections.OrderedDict, type, object, Exception, slice, range):
        out.update(dir(t))
    try:
        import numpy as np
        out.update(dir(np.ndarray))
        out.update(dir(np.float64))
    except Exception:      # pragma: no cover
        pass
    return out


FOREIGN_ATTRS = _foreign_attrs()
MAX_OWNERS = 3


def _is_number(n):
    return isinstance(n, ast.Constant) and isinstance(n.value, (int, float, complex)) and not isinstance(n.value, bool)


class Graph:
    def __init__(self, repo, precise=False):
        self.repo = repo
        self.precise = precise
        self.units = {}          # (rel, key) -> (ast node | None, model Class | None, kind)
        self.by_attr = {}        # name -> {unit}  methods, getters, class attributes
        self.by_set = {}         # name -> {unit}  setters / deleters
        self.module_funcs = {}   # name -> {unit}  module-level functions (for values passed around by name)
        self.edges = {}          # unit -> {unit: line}
        self.unresolved = 0
        self.consts = {}
        self._index()
        for u in list(self.units):
            self.edges[u] = self._refs(u)

    # ---- index --------------------------------------------------------------------------
    def _index(self):
        from . import vgraph
        for rel, m in self.repo.modules.items():
            tree = ast.parse(m.source)
            self.consts[rel] = set(vgraph.module_constants(tree))
            groups = {}
            for st in tree.body:
                if isinstance(st, (ast.FunctionDef, ast.AsyncFunctionDef)):
                    self.units[(rel, st.name)] = (st, None, "func")
                    self.module_funcs.setdefault(st.name, set()).add((rel, st.name))
                elif isinstance(st, ast.ClassDef):
                    self._index_class(rel, m, st, "")
                elif isinstance(st, (ast.Import, ast.ImportFrom)):
                    continue
                else:
                    names = {t.id for t in ast.walk(st) if isinstance(t, ast.Name) and isinstance(t.ctx, ast.Store)} - self.consts[rel]
                    for nm in (names or {"*"}):
                        groups.setdefault(nm, []).append(st)
            groups.setdefault("*", [])
            for nm, sts in groups.items():
                self.units[(rel, "<module>#" + nm)] = (ast.Module(body=sts, type_ignores=[]), None, "scope")
            for nm in self.consts[rel]:
                self.units[(rel, "const:" + nm)] = (None, None, "const")

    def _index_class(self, rel, m, c, prefix):
        mc = m.classes.get(c.name) if not prefix else None
        scope = prefix + c.name + ".<class>#"
        groups = {"*": [ast.Expr(value=b) for b in c.bases] + [ast.Expr(value=d) for d in c.decorator_list] + [ast.Expr(value=k.value) for k in c.keywords]}
        for st in c.body:
            if isinstance(st, (ast.FunctionDef, ast.AsyncFunctionDef)):
                decs = [ast.unparse(d) for d in st.decorator_list]
                suffix = "".join(":" + d.rsplit(".", 1)[1] for d in decs if d.endswith((".setter", ".deleter", ".getter")))
                u = (rel, f"{prefix}{c.name}.{st.name}{suffix}")
                self.units[u] = (st, mc, "func")
                if suffix in (":setter", ":deleter"):
                    self.by_set.setdefault(st.name, set()).add(u)
                else:
                    self.by_attr.setdefault(st.name, set()).add(u)
            elif isinstance(st, ast.ClassDef):
                self._index_class(rel, m, st, prefix + c.name + ".")
                self.by_attr.setdefault(st.name, set()).add((rel, prefix + c.name + "." + st.name + ".<class>#*"))
            else:
                names = {t.id for t in ast.walk(st) if isinstance(t, ast.Name) and isinstance(t.ctx, ast.Store)}
                for nm in (names or {"*"}):
                    groups.setdefault(nm, []).append(st)
                    if nm != "*":
                        self.by_attr.setdefault(nm, set()).add((rel, scope + nm))
        for nm, sts in groups.items():
            self.units[(rel, scope + nm)] = (ast.Module(body=sts, type_ignores=[]), mc, "scope")

    # ---- resolution ---------------------------------------------------------------------
    def unit_of_func(self, f):
        return (f.module.rel, f.qualname + (":setter" if f.is_setter else ""))

    def class_units(self, k):
        """Using a class: its body and its bases' bodies, construction."""
        out = set()
        for b in self.repo.mro(k):
            out.add((b.module.rel, b.name + ".<class>#*"))
        for nm in ("__init__", "__new__", "__init_subclass__"):
            f = self.repo.lookup_method(k, nm)
            if f is not None:
                out.add(self.unit_of_func(f))
        return out

    def hierarchy(self, k):
        seen, out = set(), []
        for c in list(self.repo.mro(k)) + list(self.repo.subclasses(k, strict=True)):
            if c.ref not in seen:
                seen.add(c.ref)
                out.append(c)
        return out

    def lookup(self, k, attr, store=False, classes=None):
        out = set()
        for c in (classes if classes is not None else self.hierarchy(k)):
            if store:
                if attr in c.setters:
                    out.add(self.unit_of_func(c.setters[attr]))
                dk = (c.module.rel, f"{c.name}.{attr}:deleter")
                if dk in self.units:
                    out.add(dk)
            else:
                if attr in c.methods:
                    out.add(self.unit_of_func(c.methods[attr]))
                if (c.module.rel, c.name + ".<class>#" + attr) in self.units:
                    out.add((c.module.rel, c.name + ".<class>#" + attr))
        if not out:
            hook = "__setattr__" if store else "__getattr__"
            for c in (classes if classes is not None else self.hierarchy(k)):
                if hook in c.methods:
                    out.add(self.unit_of_func(c.methods[hook]))
        return out

    def all_methods(self, k, subclasses=True, classes=None):
        out = set()
        for c in (classes if classes is not None else self.hierarchy(k) if subclasses else self.repo.mro(k)):
            for f in list(c.methods.values()) + list(c.setters.values()):
                out.add(self.unit_of_func(f))
            out.update(u for u in self.units if u[0] == c.module.rel and u[1].startswith(c.name + ".<class>#"))
        return out

    def resolved(self, r):
        """Units behind a `Repo.resolve_name` result."""
        if isinstance(r, Class):
            return self.class_units(r)
        if isinstance(r, Func):
            return {self.unit_of_func(r)}
        if isinstance(r, tuple) and r[0] == "assign":
            _, mod, node = r
            out = set()
            for nm, v in mod.assigns.items():
                if v is node:
                    out.add((mod.rel, "const:" + nm) if nm in self.consts.get(mod.rel, ()) else (mod.rel, "<module>#" + nm))
            k = self.singleton_class(mod, node)
            if k is not None:
                out |= self.all_methods(k, subclasses=False)
            return out or {(mod.rel, "<module>#*")}
        return set()

    def singleton_class(self, mod, node):
        if isinstance(node, ast.Call):
            k = self.repo.resolve_class_expr(mod, ast.unparse(node.func)) if isinstance(node.func, (ast.Name, ast.Attribute)) else None
            return k
        return None

    def unique(self, attr, store=False):
        """An unknown receiver: the attribute name decides when exactly one class of the package defines it and no
        builtin / numpy / datetime object has an attribute of that name."""
        if attr in FOREIGN_ATTRS:
            return set()
        cands = (self.by_set if store else self.by_attr).get(attr, ())
        owners = {(u[0], u[1].split(":")[0].rsplit(".", 1)[0]) for u in cands}
        return set(cands) if 1 <= len(owners) <= MAX_OWNERS else set()

    def name_based(self, attr, store=False):
        if store:
            return set(self.by_set.get(attr, ())) | set(self.by_attr.get("__setattr__", ()))
        out = set(self.by_attr.get(attr, ()))
        if not out and not (attr.startswith("__") and attr.endswith("__")):
            out = set(self.by_attr.get("__getattr__", ()))
        return out

    # ---- references of one unit ---------------------------------------------------------
    def _refs(self, unit):
        node, cls, kind = self.units[unit]
        out = {}
        if node is None:
            return out
        rel = unit[0]
        mod = self.repo.modules[rel]

        def add(targets, at):
            for t in targets:
                if t in self.units and t != unit:
                    out.setdefault(t, getattr(at, "lineno", 0))

        local, first, limports = set(), None, {}
        if kind == "func":
            a = node.args
            params = [x.arg for x in a.posonlyargs + a.args]
            decs = [ast.unparse(d) for d in node.decorator_list]
            if cls is not None and params and "staticmethod" not in decs:
                first = params[0]
            glob = set()
            for n in ast.walk(node):
                if isinstance(n, ast.arg):
                    local.add(n.arg)
                elif isinstance(n, ast.Name) and isinstance(n.ctx, (ast.Store, ast.Del)):
                    local.add(n.id)
                elif isinstance(n, (ast.FunctionDef, ast.AsyncFunctionDef, ast.ClassDef)) and n is not node:
                    local.add(n.name)
                elif isinstance(n, ast.ExceptHandler) and n.name:
                    local.add(n.name)
                elif isinstance(n, (ast.Global, ast.Nonlocal)):
                    glob.update(n.names)
                elif isinstance(n, ast.Import):
                    for al in n.names:
                        limports[al.asname or al.name.split(".")[0]] = (al.name, None)
                elif isinstance(n, ast.ImportFrom):
                    base = n.module or ""
                    if n.level:
                        pkg = mod._pkg().split(".")
                        if n.level > 1:
                            pkg = pkg[: -(n.level - 1)]
                        base = ".".join(pkg + ([n.module] if n.module else []))
                    for al in n.names:
                        limports[al.asname or al.name] = (base, al.name)
            local -= glob
            if cls is not None:
                add({(rel, cls.name + ".<class>#*")}, node)     # a method lives in its class (bases, class decorators)
        elif kind == "scope":
            if "#" in unit[1] and not unit[1].endswith("#*"):
                add({(rel, unit[1].split("#")[0] + "#*")}, node)
            if cls is not None:
                for b in self.repo.bases(cls):
                    add({(b.module.rel, b.name + ".<class>#*")}, node)

        def resolve(name):
            if name in limports:
                base, attr = limports[name]
                if attr is None:
                    tgt = self.repo.by_name.get(base)
                    return ("module", tgt) if tgt else None
                sub = self.repo.by_name.get(f"{base}.{attr}")
                if sub is not None:
                    return ("module", sub)
                tgt = self.repo.by_name.get(base)
                return self.repo.resolve_name(tgt, attr) if tgt else None
            if name in local:
                return "local"
            return self.repo.resolve_name(mod, name)

        def base_classes(v):
            """The model classes a receiver expression certainly belongs to, or None."""
            if isinstance(v, ast.Name):
                if v.id == first and cls is not None and v.id not in limports:
                    return self.hierarchy(cls)
                r = resolve(v.id)
                if isinstance(r, Class):
                    return self.hierarchy(r)
                if isinstance(r, tuple) and r[0] == "assign":
                    k = self.singleton_class(r[1], r[2])
                    if k is not None:
                        return self.repo.mro(k)
            elif isinstance(v, ast.Call) and isinstance(v.func, ast.Name) and v.func.id == "super" and cls is not None:
                return self.repo.mro(cls)[1:]
            elif isinstance(v, ast.Call) and isinstance(v.func, ast.Name):
                r = resolve(v.func.id)
                if isinstance(r, Class):
                    return self.hierarchy(r)
            elif isinstance(v, ast.Attribute) and v.attr == "__class__" and isinstance(v.value, ast.Name) and v.value.id == first and cls is not None:
                return self.hierarchy(cls)
            return None

        def attribute(v, attr, at, store=False):
            if isinstance(v, ast.Name) and (v.id in limports or v.id not in local):
                r = resolve(v.id)
                if isinstance(r, tuple) and r[0] == "module" and r[1] is not None:
                    if not store:
                        add(self.resolved(self.repo.resolve_name(r[1], attr)), at)
                    else:
                        add({(r[1].rel, "<module>#" + attr), (r[1].rel, "<module>#*")}, at)
                    return
                if r is None or (isinstance(r, tuple) and r[0] == "external"):
                    return                      # numpy, math, a builtin …
            ks = base_classes(v)
            if ks is not None:
                add(self.lookup(None, attr, store, classes=ks), at)
                return
            if not self.precise:
                add(self.name_based(attr, store), at)
            else:
                add(self.unique(attr, store), at)

        def dunder(name, at):
            if not self.precise:
                add(self.by_attr.get(name, ()), at)

        for n in ast.walk(node):
            if isinstance(n, ast.Name) and isinstance(n.ctx, ast.Load):
                if n.id in limports or n.id not in local:
                    r = resolve(n.id)
                    if r != "local":
                        add(self.resolved(r), n)
            elif isinstance(n, ast.Attribute):
                attribute(n.value, n.attr, n, store=not isinstance(n.ctx, ast.Load))
            elif isinstance(n, ast.BinOp):
                if type(n.op) in BIN and not (_is_number(n.left) and _is_number(n.right)):
                    nm = BIN[type(n.op)]
                    if not _is_number(n.left):
                        dunder(f"__{nm}__", n)
                    if not _is_number(n.right):
                        dunder(f"__r{nm}__", n)
            elif isinstance(n, ast.AugAssign):
                if type(n.op) in BIN:
                    nm = BIN[type(n.op)]
                    for d in (f"__i{nm}__", f"__{nm}__", f"__r{nm}__"):
                        dunder(d, n)
                if isinstance(n.target, ast.Subscript):
                    dunder("__getitem__", n)
                elif isinstance(n.target, ast.Attribute):
                    attribute(n.target.value, n.target.attr, n, store=False)
            elif isinstance(n, ast.UnaryOp) and type(n.op) in UNARY:
                if not _is_number(n.operand):
                    dunder(UNARY[type(n.op)], n)
            elif isinstance(n, ast.Compare):
                operands = [n.left] + n.comparators
                for i, op in enumerate(n.ops):
                    if isinstance(operands[i + 1], ast.Constant) and operands[i + 1].value is None:
                        continue
                    for d in CMP.get(type(op), ()):
                        dunder(d, n)
            elif isinstance(n, ast.Subscript):
                dunder({ast.Load: "__getitem__", ast.Store: "__setitem__", ast.Del: "__delitem__"}[type(n.ctx)], n)
                if isinstance(n.ctx, ast.Load):
                    dunder("__class_getitem__", n)
            elif isinstance(n, (ast.For, ast.comprehension)):
                dunder("__iter__", n.iter)
                dunder("__next__", n.iter)
            elif isinstance(n, ast.Starred):
                dunder("__iter__", n)
            elif isinstance(n, ast.With):
                for it in n.items:
                    dunder("__enter__", it.context_expr)
                    dunder("__exit__", it.context_expr)
            elif isinstance(n, (ast.If, ast.While, ast.IfExp, ast.BoolOp)) or (isinstance(n, ast.UnaryOp) and isinstance(n.op, ast.Not)):
                dunder("__bool__", n)
                dunder("__len__", n)
            elif isinstance(n, ast.Call):
                f = n.func
                if isinstance(f, ast.Name) and f.id not in local and f.id not in limports and resolve(f.id) is None:
                    if f.id in BUILTIN_DUNDER:
                        dunder(BUILTIN_DUNDER[f.id], n)
                    if f.id in ("getattr", "hasattr", "setattr", "delattr") and len(n.args) >= 2:
                        tgt, nm = n.args[0], n.args[1]
                        store = f.id in ("setattr", "delattr")
                        if isinstance(nm, ast.Constant) and isinstance(nm.value, str):
                            attribute(tgt, nm.value, n, store)
                        else:
                            ks = base_classes(tgt)
                            if ks is not None and store:
                                add(self.lookup(None, "__setattr__", False, classes=ks), n)
                            elif ks is not None:
                                for k in ks:
                                    add(self.all_methods(k, classes=[k]), n)
                            else:
                                self.unresolved += 1
                    if f.id in ("str", "repr", "format", "print"):
                        pass                    # display only
                elif not isinstance(f, (ast.Name, ast.Attribute)) or (isinstance(f, ast.Name) and f.id in local):
                    dunder("__call__", n)       # a value is called
                elif isinstance(f, ast.Attribute):
                    dunder("__call__", n)       # x.attr(...) where attr holds a callable object (Form, Interp, listeners)
        return out

    # ---- closure ------------------------------------------------------------------------
    def cone(self, entries):
        """→ {unit: (parent unit or None, line of the reference in the parent)} for every unit reachable from `entries`."""
        seen = {}
        todo = []
        for e in sorted(entries):
            if e in self.units and e not in seen:
                seen[e] = (None, 0)
                todo.append(e)
        i = 0
        while i < len(todo):
            u = todo[i]
            i += 1
            for t, line in sorted(self.edges.get(u, {}).items()):
                if t not in seen:
                    seen[t] = (u, line)
                    todo.append(t)
        return seen

    def path(self, cone, unit):
        out = []
        while unit is not None:
            parent, line = cone[unit]
            out.append((unit, line))
            unit = parent
        return list(reversed(out))
