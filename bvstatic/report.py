"""Rule-instance bookkeeping, known findings, evidence and replay files."""
import json
import os
import re
import time
from pathlib import Path

from .model import AnalysisError, Repo

VERIF = Path(__file__).resolve().parent.parent
EVIDENCE_DIR = Path(os.environ.get("BVSTATIC_EVIDENCE", VERIF / "evidence"))
KNOWN_FILE = VERIF / "known_findings.json"


def slug(s, n=70):
    return re.sub(r"[^A-Za-z0-9_.-]+", "_", s)[:n].strip("_")


class Instance:
    __slots__ = ("rule", "key", "ok", "what", "where", "detail", "nontrivial", "obligation")

    def __init__(self, rule, key, ok, what, where, detail, nontrivial, obligation):
        self.rule, self.key, self.ok, self.what = rule, key, ok, what
        self.where, self.detail, self.nontrivial, self.obligation = where, detail, nontrivial, obligation

    def as_dict(self):
        d = {"rule": self.rule, "instance": self.key, "verdict": "holds" if self.ok else "FAILS",
             "where": self.where, "what": self.what}
        if self.detail:
            d["detail"] = self.detail
        return d


class Check:
    """One run of one property's rules."""

    def __init__(self, prop, tier="quick", repo=None, only=None):
        self.prop = prop
        self.tier = tier
        self.repo = repo or Repo()
        self.instances = []
        self.floors = []          # (rule, n)
        self.rules = {}           # rule id -> description
        self.notes = []
        self.assumptions = []
        self.only = only          # replay filter: (rule, key)
        self.t0 = time.time()
        self.analysed = {"modules": len(self.repo.modules),
                         "classes": sum(len(m.classes) for m in self.repo.modules.values()),
                         "functions": sum(1 for _ in self.repo.all_funcs())}
        self.extra = {}
        self.errors = []          # AnalysisError raised by individual rule functions (guarded)
        self.errored_rules = set()

    @property
    def thorough(self):
        return self.tier == "thorough"

    # ---- recording -----------------------------------------------------------------
    def rule(self, rid, text):
        self.rules[rid] = text

    def guard(self, fn, *args):
        """Run one rule function; an AnalysisError inside it is recorded (exit 2 unless another rule reports a
        violation, which is then not masked)."""
        before = {i.rule for i in self.instances}
        try:
            fn(*args)
        except AnalysisError as e:
            self.errors.append(f"{fn.__name__}: {e}")
            self.errored_rules.add(fn.__name__)
        except Exception as e:  # an extractor tripping on an unexpected shape is an analysis error of that rule only
            import traceback
            self.errors.append(f"{fn.__name__}: internal {type(e).__name__}: {e} [{traceback.format_exc().splitlines()[-3].strip()}]")
            self.errored_rules.add(fn.__name__)

    def inst(self, rule, key, ok, what, where="", detail=None, nontrivial=True, obligation=False):
        """Record one rule instance.  `key` must be stable under refactoring (no line numbers)."""
        if self.only and (rule, key) != self.only:
            return bool(ok)
        self.instances.append(Instance(rule, key, bool(ok), what, where, detail, nontrivial, obligation))
        return bool(ok)

    def obl(self, rule, key, ok, what, where="", detail=None):
        return self.inst(rule, key, ok, what, where, detail, True, True)

    def floor(self, rule, n):
        """The rule must have matched at least n instances (else the rule is vacuous: exit 2)."""
        self.floors.append((rule, n))

    def count(self, rule):
        return sum(1 for i in self.instances if i.rule == rule)

    def note(self, s):
        self.notes.append(s)

    def assume(self, s):
        if s not in self.assumptions:
            self.assumptions.append(s)

    # ---- finishing --------------------------------------------------------------------
    def _known(self):
        if not KNOWN_FILE.exists():
            return []
        data = json.loads(KNOWN_FILE.read_text())
        return [k for k in data.get("known", []) if k["property"] == self.prop]

    def finish(self):
        if not self.only and not self.errors:
            for rule, n in self.floors:
                c = self.count(rule)
                if c < n:
                    self.errors.append(f"rule {rule} matched {c} instances, floor confirmed by hand is {n} "
                                       f"(a rule that matches nothing passes vacuously)")
        known = self._known()
        failing = [i for i in self.instances if not i.ok]
        violations, known_hits = [], []
        for i in failing:
            k = next((k for k in known if k["rule"] == i.rule and k["instance"] == i.key), None)
            (known_hits if k else violations).append((i, k))
        # A failing shape rule (or an extractor that could not read a restructured function) says "this is not the text I
        # know", not "this is wrong".  Before reporting, try to prove the tree equal to the reference tree function by
        # function (E8, vgraph.py); if every function is proven equal the reference verdict is carried over.
        self.carried = None
        if (violations or self.errors) and not self.only and not os.environ.get("BVSTATIC_NO_E8"):
            try:
                from . import equiv
                if equiv.is_reference_tree(self.repo):
                    # the tree *is* the reference: a failing rule is a defect of the rule or of its frozen data
                    eq = {"equivalent": False, "unproven": ["(the tree is textually the reference tree: nothing is carried over)"], "functions": 0}
                else:
                    eq = equiv.compare(self.repo)
            except Exception as e:      # the prover failing must never hide a report
                eq = {"equivalent": False, "unproven": [f"E8 failed: {type(e).__name__}: {e}"], "functions": 0}
            if eq["equivalent"]:
                self.carried = {"dismissed": [f"{i.rule} {i.key}" for i, _ in violations], "errors_dismissed": list(self.errors),
                                "functions_compared": eq["functions"]}
                for i, _ in violations:
                    i.ok = True
                    i.what = "shape not recognised, but the function is proven equal to the reference (E8): " + i.what
                violations, self.errors = [], []
                self.assume("E8 (vgraph.py): equal value-graph fingerprints imply equal behaviour, given its purity tables (numpy / math "
                            "functions and the listed builtin / str / dict methods do not mutate), that results of scalar mathematics have "
                            "no identity, that `!=` complements `==`, and that a logger call or a dead attribute load is not behaviour")
            else:
                self.extra["e8_unproven"] = eq["unproven"][:12]
        per_rule = {}
        for i in self.instances:
            r = per_rule.setdefault(i.rule, {"instances": 0, "failing": 0})
            r["instances"] += 1
            r["failing"] += (not i.ok)
        print(f"[{self.prop}] tier={self.tier} repo={self.repo.root} modules={self.analysed['modules']} "
              f"classes={self.analysed['classes']} functions={self.analysed['functions']}")
        for rid in sorted(per_rule):
            r = per_rule[rid]
            print(f"  rule {rid:<8} instances={r['instances']:<4} failing={r['failing']:<3} {self.rules.get(rid, '')}")
        for n in self.notes:
            print(f"  note: {n}")
        if self.carried:
            print(f"  note: {len(self.carried['dismissed'])} instance(s) / {len(self.carried['errors_dismissed'])} extractor(s) did not recognise the shape of the code, "
                  f"but all {self.carried['functions_compared']} functions of the tree are proven equal to the reference tree (E8 value graphs): "
                  "the reference verdict is carried over")
            # known findings of the reference tree still hold on an equal tree
            hit = {(i.rule, i.key) for i, _ in known_hits}
            for k in known:
                if (k["rule"], k["instance"]) not in hit:
                    print(f"KNOWN-FINDING: property={self.prop} rule={k['rule']} {k['instance']} — {k.get('what_fails', '')} [carried over]")
        for i, k in known_hits:
            print(f"KNOWN-FINDING: property={self.prop} rule={i.rule} {i.key} — {k.get('what_fails', i.what)} [{i.where}]")
        replay_dir = EVIDENCE_DIR / "replay"
        for i, _ in violations:
            replay_dir.mkdir(parents=True, exist_ok=True)
            path = replay_dir / f"{self.prop}.{i.rule}.{slug(i.key)}.json"
            path.write_text(json.dumps({"property": self.prop, "rule": i.rule, "instance": i.key,
                                        "where": i.where, "what": i.what, "detail": i.detail,
                                        "rule_text": self.rules.get(i.rule, "")}, indent=1, ensure_ascii=False, default=str))
            print(f"  FAIL rule={i.rule} instance={i.key} at {i.where}: {i.what}")
            print(f"VIOLATION property={self.prop} replay={path}")
        self._write_evidence(per_rule, violations, known_hits)
        for e in self.errors:
            print(f"ANALYSIS-ERROR property={self.prop} {e}")
        if violations:
            return 1
        return 2 if self.errors else 0

    def _write_evidence(self, per_rule, violations, known_hits):
        if self.only:
            return
        insts = self.instances
        distinct = len({(i.rule, i.key) for i in insts if i.nontrivial})
        obls = [i for i in insts if i.obligation]
        # samples: up to 3 per rule, failing first
        samples, per = [], {}
        for i in sorted(insts, key=lambda x: x.ok):
            if per.get(i.rule, 0) < 3:
                per[i.rule] = per.get(i.rule, 0) + 1
                samples.append(i.as_dict())
        cov = {
            "explanation": f"static analysis of {self.repo.root}/beyond by ast; rules: " +
                           "; ".join(f"{r}: {t}" for r, t in sorted(self.rules.items())),
            "evaluations": len(insts),
            "distinct_nontrivial": distinct,
            "rule": "one evaluation = one rule instance (a filled rule template at one construct of the source, "
                    "keyed by file::qualname + slot); distinct = distinct (rule, key); non-trivial = verdict required "
                    "inspecting the construct (not a bare existence test)",
            "samples": samples,
            "per_rule": per_rule,
            "analysed": {**self.analysed, **self.extra},
            "exhaustive": True,
            "known_findings_reported": [f"{i.rule} {i.key}" for i, _ in known_hits],
        }
        if getattr(self, "carried", None):
            cov["carried_over_by_equivalence"] = self.carried
        if obls:
            cov["obligations"] = len(obls)
            cov["discharged"] = sum(1 for i in obls if i.ok)
        ev = {
            "property_id": self.prop,
            "tier": self.tier,
            "seed": int(os.environ.get("VERIF_SEED", "0") or 0),
            "level": "other",
            "coverage": cov,
            "assumptions": ["CPython ast parses the repository as the interpreter does",
                            "the extractors and normalisers of /verif/bvstatic"] + self.assumptions,
            "wall_s": round(time.time() - self.t0, 3),
            "violations": len(violations),
        }
        EVIDENCE_DIR.mkdir(parents=True, exist_ok=True)
        (EVIDENCE_DIR / f"{self.prop}.json").write_text(json.dumps(ev, indent=1, ensure_ascii=False, default=str))
