"""E5 — column layout of str.format templates with static widths (under "each value fits its field")."""
import ast
import re
import string

STRFTIME_WIDTH = {"%Y": 4, "%y": 2, "%m": 2, "%d": 2, "%H": 2, "%M": 2, "%S": 2, "%f": 6, "%j": 3}


class LayoutError(Exception):
    pass


def spec_width(spec):
    """Static width of a format spec, or None if the spec gives none."""
    if not spec:
        return None
    if "%" in spec:
        w = 0
        i = 0
        while i < len(spec):
            if spec[i] == "%":
                d = spec[i:i + 2]
                if d not in STRFTIME_WIDTH:
                    raise LayoutError(f"strftime directive {d}")
                w += STRFTIME_WIDTH[d]
                i += 2
            else:
                w += 1
                i += 1
        return w
    m = re.match(r"^(?:(.)?([<>=^]))?([+\- ])?(#)?(0)?(\d+)?([,_])?(?:\.(\d+))?([a-zA-Z%])?$", spec)
    if not m:
        raise LayoutError(f"format spec {spec!r}")
    width = m.group(6)
    return int(width) if width else None


def template_layout(template, width_of=None):
    """[(kind, text_or_field, start, end)] for the template; kind in {'lit','field'}.
    `width_of(field_name, spec)` may supply widths for fields whose spec has none."""
    pos = 0
    out = []
    for lit, fname, spec, conv in string.Formatter().parse(template):
        if lit:
            out.append(("lit", lit, pos, pos + len(lit)))
            pos += len(lit)
        if fname is None:
            continue
        w = spec_width(spec) if spec and "{" not in spec else None
        if w is None and width_of:
            w = width_of(fname, spec)
        if w is None:
            raise LayoutError(f"field {{{fname}:{spec}}} has no static width")
        out.append(("field", fname, pos, pos + w))
        pos += w
    return out, pos


def float_format_slice_width(node):
    """Width of `"{:.Nf}".format(x)[k:]` for 0 <= x < 10: N + 2 - k."""
    if isinstance(node, ast.Subscript) and isinstance(node.slice, ast.Slice) and node.slice.upper is None \
            and isinstance(node.slice.lower, ast.Constant) and isinstance(node.value, ast.Call):
        c = node.value
        if isinstance(c.func, ast.Attribute) and c.func.attr == "format" and isinstance(c.func.value, ast.Constant):
            m = re.match(r"^\{:\.(\d+)f\}$", c.func.value.value)
            if m:
                return int(m.group(1)) + 2 - node.slice.lower.value
    return None
