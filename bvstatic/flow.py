"""E3 — structured forward dataflow on the AST (no CFG library needed).

`reaching(fnode)` computes, for every `ast.Name` in Load context inside the function, the set
of definitions that may reach it.  The walk is syntax-directed: if/else joins by union,
loops are iterated to a fixpoint (two passes suffice for a union lattice of finite height
bounded by the number of definitions — we iterate until stable), `return/raise` kill the
state, `break/continue` are routed to the loop exit / head, `try` bodies may be left after
any statement.

A definition is a tuple:
  ("param", name)
  ("assign", value_node)                 x = value
  ("unpack", value_node, index)          a, b = value   (index = position, or None if starred/nested)
  ("for", iter_node, index)              for x in iter / for a, b in iter (index as above)
  ("aug", target_name, op, value_node, prev_defs)   x += value
  ("with", context_expr)
  ("except", type_node)
  ("import", text)
  ("def", node)                          nested function / class
"""
import ast


class Flow:
    def __init__(self, fnode):
        self.fnode = fnode
        self.uses = {}        # Name node -> frozenset(defs)
        self.stmt_env = {}    # stmt node -> env at entry (dict name -> frozenset)
        self.exit_env = None  # env at normal fall-off / union of return points
        self.return_envs = []
        self._run()

    # -- public helpers ----------------------------------------------------------------
    def defs_of(self, name_node):
        return self.uses.get(name_node, frozenset())

    def env_at(self, stmt):
        return self.stmt_env.get(stmt, {})

    # -- engine ------------------------------------------------------------------------
    def _run(self):
        env = {}
        a = self.fnode.args
        for arg in a.posonlyargs + a.args + a.kwonlyargs:
            env[arg.arg] = frozenset([("param", arg.arg)])
        if a.vararg:
            env[a.vararg.arg] = frozenset([("param", a.vararg.arg)])
        if a.kwarg:
            env[a.kwarg.arg] = frozenset([("param", a.kwarg.arg)])
        for d in a.defaults + [k for k in a.kw_defaults if k is not None]:
            self._expr(d, {})
        out = self._block(self.fnode.body, env, None)
        envs = [e for e in self.return_envs + [out] if e is not None]
        self.exit_env = self._join(envs) if envs else {}

    @staticmethod
    def _join(envs):
        envs = [e for e in envs if e is not None]
        if not envs:
            return None
        out = {}
        for e in envs:
            for k, v in e.items():
                out[k] = out.get(k, frozenset()) | v
        return out

    def _record_stmt(self, st, env):
        prev = self.stmt_env.get(st)
        self.stmt_env[st] = self._join([prev, env]) if prev is not None else dict(env)

    def _expr(self, node, env):
        if node is None:
            return
        if isinstance(node, ast.Name):
            if isinstance(node.ctx, ast.Load):
                self.uses[node] = self.uses.get(node, frozenset()) | env.get(node.id, frozenset())
            return
        if isinstance(node, (ast.ListComp, ast.SetComp, ast.GeneratorExp, ast.DictComp)):
            env2 = dict(env)
            for g in node.generators:
                self._expr(g.iter, env2)
                self._bind(g.target, ("for", g.iter), env2, loop=True)
                for c in g.ifs:
                    self._expr(c, env2)
            if isinstance(node, ast.DictComp):
                self._expr(node.key, env2)
                self._expr(node.value, env2)
            else:
                self._expr(node.elt, env2)
            return
        if isinstance(node, ast.Lambda):
            env2 = dict(env)
            for arg in node.args.args:
                env2[arg.arg] = frozenset([("param", arg.arg)])
            self._expr(node.body, env2)
            return
        if isinstance(node, ast.NamedExpr):
            self._expr(node.value, env)
            env[node.target.id] = frozenset([("assign", node.value)])
            return
        for c in ast.iter_child_nodes(node):
            if isinstance(c, ast.expr) or isinstance(c, (ast.keyword, ast.comprehension, ast.FormattedValue, ast.JoinedStr,
                                                         ast.Starred, ast.Slice)):
                self._expr(c, env)
            elif isinstance(c, ast.AST) and not isinstance(c, (ast.expr_context, ast.operator, ast.unaryop, ast.cmpop, ast.boolop)):
                self._expr(c, env)

    def _bind(self, target, origin, env, loop=False):
        """origin = ("assign", value) or ("for", iter)"""
        if isinstance(target, ast.Name):
            if origin[0] == "assign":
                env[target.id] = frozenset([("assign", origin[1])])
            else:
                env[target.id] = frozenset([("for", origin[1], None)])
        elif isinstance(target, (ast.Tuple, ast.List)):
            for i, t in enumerate(target.elts):
                idx = i
                if isinstance(t, ast.Starred):
                    t, idx = t.value, None
                if isinstance(t, ast.Name):
                    if origin[0] == "assign":
                        env[t.id] = frozenset([("unpack", origin[1], idx)])
                    else:
                        env[t.id] = frozenset([("for", origin[1], idx)])
                else:
                    self._bind(t, (origin[0], origin[1]), env)
        elif isinstance(target, ast.Starred):
            self._bind(target.value, origin, env)
        else:
            # attribute / subscript store: evaluate the receiver expression
            self._expr(target, env)

    def _block(self, stmts, env, loop):
        """Returns env after the block or None if the end is unreachable.
        `loop` is a dict {'breaks': [], 'continues': []} of the innermost loop."""
        for st in stmts:
            if env is None:
                # dead code: still record uses with an empty env so that every Name has an entry
                env_dead = {}
                self._record_stmt(st, env_dead)
                self._stmt(st, env_dead, loop)
                continue
            env = self._stmt(st, env, loop)
        return env

    def _stmt(self, st, env, loop):
        self._record_stmt(st, env)
        env = dict(env)
        if isinstance(st, ast.Assign):
            self._expr(st.value, env)
            for t in st.targets:
                self._bind(t, ("assign", st.value), env)
            return env
        if isinstance(st, ast.AnnAssign):
            if st.value is not None:
                self._expr(st.value, env)
                self._bind(st.target, ("assign", st.value), env)
            return env
        if isinstance(st, ast.AugAssign):
            self._expr(st.value, env)
            if isinstance(st.target, ast.Name):
                prev = env.get(st.target.id, frozenset())
                # a synthetic Load use of the target
                env[st.target.id] = frozenset([("aug", st.target.id, type(st.op).__name__, st.value, prev)])
            else:
                self._expr(st.target, env)
            return env
        if isinstance(st, (ast.Expr,)):
            self._expr(st.value, env)
            return env
        if isinstance(st, ast.Return):
            self._expr(st.value, env)
            self.return_envs.append(env)
            return None
        if isinstance(st, ast.Raise):
            self._expr(st.exc, env)
            self._expr(st.cause, env)
            return None
        if isinstance(st, (ast.Pass, ast.Global, ast.Nonlocal)):
            return env
        if isinstance(st, ast.Delete):
            for t in st.targets:
                if isinstance(t, ast.Name):
                    env.pop(t.id, None)
                else:
                    self._expr(t, env)
            return env
        if isinstance(st, ast.Assert):
            self._expr(st.test, env)
            self._expr(st.msg, env)
            return env
        if isinstance(st, (ast.Import, ast.ImportFrom)):
            for a in st.names:
                env[a.asname or a.name.split(".")[0]] = frozenset([("import", a.name)])
            return env
        if isinstance(st, (ast.FunctionDef, ast.AsyncFunctionDef, ast.ClassDef)):
            env[st.name] = frozenset([("def", st)])
            # nested function bodies see the enclosing env (approximation: env at definition)
            if not isinstance(st, ast.ClassDef):
                sub = dict(env)
                for arg in st.args.posonlyargs + st.args.args + st.args.kwonlyargs:
                    sub[arg.arg] = frozenset([("param", arg.arg)])
                saved = self.return_envs
                self.return_envs = []
                self._block(st.body, sub, None)
                self.return_envs = saved
            return env
        if isinstance(st, ast.If):
            self._expr(st.test, env)
            a = self._block(st.body, dict(env), loop)
            b = self._block(st.orelse, dict(env), loop)
            return self._join([a, b])
        if isinstance(st, (ast.For, ast.AsyncFor, ast.While)):
            return self._loop(st, env, loop)
        if isinstance(st, (ast.With, ast.AsyncWith)):
            for item in st.items:
                self._expr(item.context_expr, env)
                if item.optional_vars is not None:
                    if isinstance(item.optional_vars, ast.Name):
                        env[item.optional_vars.id] = frozenset([("with", item.context_expr)])
                    else:
                        self._bind(item.optional_vars, ("assign", item.context_expr), env)
            return self._block(st.body, env, loop)
        if isinstance(st, ast.Try):
            return self._try(st, env, loop)
        if isinstance(st, ast.Break):
            if loop is not None:
                loop["breaks"].append(env)
            return None
        if isinstance(st, ast.Continue):
            if loop is not None:
                loop["continues"].append(env)
            return None
        if hasattr(ast, "Match") and isinstance(st, ast.Match):  # pragma: no cover
            self._expr(st.subject, env)
            outs = []
            for case in st.cases:
                outs.append(self._block(case.body, dict(env), loop))
            return self._join(outs + [env])
        # unknown statement kind: evaluate sub-expressions conservatively
        for c in ast.iter_child_nodes(st):
            if isinstance(c, ast.expr):
                self._expr(c, env)
        return env

    def _loop(self, st, env, outer):
        is_for = not isinstance(st, ast.While)
        head = dict(env)
        if is_for:
            self._expr(st.iter, head)
        exits = []
        for _ in range(6):  # fixpoint: union lattice, converges quickly
            info = {"breaks": [], "continues": []}
            cur = dict(head)
            if is_for:
                self._bind(st.target, ("for", st.iter), cur, loop=True)
            else:
                self._expr(st.test, cur)
            out = self._block(st.body, cur, info)
            back = self._join([out] + info["continues"])
            new_head = self._join([head, back]) if back is not None else head
            exits = info["breaks"]
            if new_head == head:
                break
            head = new_head
        # loop exit: condition false / iterator exhausted (from head, or after body)
        after_else = self._block(st.orelse, dict(head), outer) if st.orelse else dict(head)
        infinite = (not is_for) and isinstance(st.test, ast.Constant) and bool(st.test.value)
        parts = list(exits)
        if not infinite:
            parts.append(after_else)
        return self._join(parts)

    def _try(self, st, env, loop):
        # the body may be abandoned after any statement: handlers see the union of all prefixes
        prefixes = [dict(env)]
        cur = dict(env)
        for s in st.body:
            if cur is None:
                self._record_stmt(s, {})
                self._stmt(s, {}, loop)
                continue
            cur = self._stmt(s, cur, loop)
            if cur is not None:
                prefixes.append(dict(cur))
        body_out = cur
        hin = self._join(prefixes)
        outs = []
        if st.orelse:
            body_out = self._block(st.orelse, body_out, loop) if body_out is not None else None
        outs.append(body_out)
        for h in st.handlers:
            henv = dict(hin)
            if h.type is not None:
                self._expr(h.type, henv)
            if h.name:
                henv[h.name] = frozenset([("except", h.type)])
            outs.append(self._block(h.body, henv, loop))
        out = self._join(outs)
        if st.finalbody:
            fin_in = self._join([out, hin]) if out is not None else hin
            fout = self._block(st.finalbody, dict(fin_in), loop)
            if out is None:
                return None
            return fout
        return out


def reaching(fnode):
    return Flow(fnode)


# ---- small syntactic predicates used by several rules --------------------------------------

def terminates(stmts):
    """True if the statement list always leaves by return/raise/continue/break."""
    for st in stmts:
        if isinstance(st, (ast.Return, ast.Raise, ast.Continue, ast.Break)):
            return True
        if isinstance(st, ast.If) and st.orelse and terminates(st.body) and terminates(st.orelse):
            return True
    return False


def always_raises(stmts):
    for st in stmts:
        if isinstance(st, ast.Raise):
            return True
        if isinstance(st, ast.If) and st.orelse and always_raises(st.body) and always_raises(st.orelse):
            return True
        if isinstance(st, (ast.Return, ast.Continue, ast.Break)):
            return False
    return False
