"""Tree equivalence: is every function of the current tree proven equal (E8, vgraph.py) to the function of the same name
in the reference tree whose fingerprints are pinned in data/vgraph.json?"""
import ast
import json
from pathlib import Path

from . import vgraph

DATA = Path(__file__).resolve().parent / "data"


def _identifiers(trees):
    out = set()
    for t in trees.values():
        for n in ast.walk(t):
            if isinstance(n, ast.Name):
                out.add(n.id)
            elif isinstance(n, ast.Attribute):
                out.add(n.attr)
            elif isinstance(n, (ast.FunctionDef, ast.AsyncFunctionDef, ast.ClassDef)):
                out.add(n.name)
            elif isinstance(n, ast.arg):
                out.add(n.arg)
            elif isinstance(n, ast.keyword) and n.arg:
                out.add(n.arg)
            elif isinstance(n, ast.alias):
                out.add((n.asname or n.name).split(".")[0])
            elif isinstance(n, ast.Constant) and isinstance(n.value, str) and n.value.isidentifier():
                out.add(n.value)
    return out


def _member_identifiers(trees):
    """Names through which a class member can be reached: attribute names, string constants (getattr / setattr / dict
    keys), keyword names (`Body(**kwargs)` sets attributes from them) and class-level assigned names.  A local variable or a
    parameter called `line1` cannot reach a method `Tle.line1`."""
    out = set()
    for t in trees.values():
        for n in ast.walk(t):
            if isinstance(n, ast.Attribute):
                out.add(n.attr)
            elif isinstance(n, ast.keyword) and n.arg:
                out.add(n.arg)
            elif isinstance(n, ast.Constant) and isinstance(n.value, str) and n.value.isidentifier():
                out.add(n.value)
            elif isinstance(n, ast.ClassDef):
                for st in n.body:
                    if isinstance(st, (ast.FunctionDef, ast.AsyncFunctionDef)):
                        out.add(st.name)
                    elif isinstance(st, (ast.Assign, ast.AnnAssign)):
                        for tg in (st.targets if isinstance(st, ast.Assign) else [st.target]):
                            if isinstance(tg, ast.Name):
                                out.add(tg.id)
    return out


def tree_fingerprints(repo):
    known = set(repo.by_name)
    trees = {m.name: ast.parse(m.source) for m in repo.modules.values()}     # un-restored source: E8 ignores local names

    def subclass_defines(mod, cls, name):
        m = repo.by_name.get(mod)
        c = m.classes.get(cls) if m else None
        if c is None:
            return True
        for sub in repo.subclasses(c, strict=True):
            if name in sub.methods or name in sub.setters or name in getattr(sub, "attrs", {}):
                return True
        return False
    inl = vgraph.inlinable_helpers(trees, subclass_defines)
    out = {}
    for rel, m in sorted(repo.modules.items()):
        out[rel] = vgraph.module_fingerprints(trees[m.name], m.name, m.is_pkg, known, inl)
    helpers = sorted(f"{rel}::{h}" for rel, m in out.items() for h in m["inlined"])      # evaluated inside a caller
    transparent = sorted(f"{rel}::{h}" for rel, m in out.items() for h in m["transparent"])   # every use evaluated in place
    import hashlib
    sources = {rel: hashlib.sha256(m.source.encode()).hexdigest()[:16] for rel, m in repo.modules.items()}
    return {"modules": out, "sources": sources, "helpers": helpers, "transparent": transparent, "identifiers": sorted(_identifiers(trees)),
            "member_identifiers": sorted(_member_identifiers(trees))}


_REF = None


def reference():
    global _REF
    if _REF is None:
        _REF = json.loads((DATA / "vgraph.json").read_text())
    return _REF


def module_fingerprints(repo, rel):
    """E8 fingerprints of one module of the current tree (cached on the repo object)."""
    cache = repo.__dict__.setdefault("_e8_modules", {})
    if rel not in cache:
        if "_e8_inl" not in repo.__dict__:
            trees = {m.name: ast.parse(m.source) for m in repo.modules.values()}

            def subclass_defines(mod, cls, name):
                m = repo.by_name.get(mod)
                c = m.classes.get(cls) if m else None
                if c is None:
                    return True
                return any(name in sub.methods or name in sub.setters or name in sub.attrs for sub in repo.subclasses(c, strict=True))
            repo.__dict__["_e8_trees"] = trees
            repo.__dict__["_e8_inl"] = vgraph.inlinable_helpers(trees, subclass_defines)
        m = repo.module(rel)
        cache[rel] = vgraph.module_fingerprints(repo.__dict__["_e8_trees"][m.name], m.name, m.is_pkg, set(repo.by_name), repo.__dict__["_e8_inl"])
    return cache[rel]


def unit_fp(mod, key):
    """Fingerprint of a unit of one module's fingerprint table: a function (`f`, `C.m`, `C.p:setter`), a name bound in a
    module or class body (`<module>#X`, `C.<class>#X`) or a literal module constant (`const:X`)."""
    if key.startswith("const:"):
        return mod.get("consts", {}).get(key[6:])
    if "#" in key:
        return mod.get("scopes", {}).get(key)
    return mod.get("funcs", {}).get(key)


def reference_units(rel):
    m = reference()["modules"].get(rel, {})
    return sorted(m.get("funcs", {})) + sorted(m.get("scopes", {})) + sorted("const:" + k for k in m.get("consts", {}))


def same_as_reference(chk, rule, rel, key, what, missing_ok=False):
    """Rule instance: the unit `key` of module `rel` is proven equal (E8) to its reference version.  Used for small
    accessors and gates that have no independent oracle: any behavioural change of the function fires; renames, extracted
    temporaries, early returns, helper extraction … do not (see vgraph.py)."""
    from .model import AnalysisError
    ref = unit_fp(reference()["modules"].get(rel, {}), key)
    if ref is None:
        raise AnalysisError(f"no reference fingerprint for {rel}::{key}")
    cur = unit_fp(module_fingerprints(chk.repo, rel), key) if rel in chk.repo.modules else None
    if cur is None:
        if missing_ok:
            return True
        raise AnalysisError(f"anchor function {rel}::{key} not found")
    ok = cur == ref
    if not ok and "#" not in key and not key.startswith("const:"):
        # a new optional parameter whose default keeps the old behaviour: the function with the added parameters bound to
        # their defaults is compared (old callers cannot pass them; a caller that does is a changed function itself)
        try:
            sp = specialised_fp(chk.repo, rel, key)
        except Exception:
            sp = None
        if sp is not None and sp == ref:
            ok = True
            what = what + "; with the added optional parameter(s) at their default"
    where = rel
    if "#" not in key and not key.startswith("const:"):
        q = key.split(":")[0]
        f = chk.repo.try_func(rel, q, setter=key.endswith(":setter"))
        where = f"{rel}:{f.node.lineno}" if f is not None else rel
    chk.inst(rule, f"{rel}::{key}::same-as-reference", ok, f"proven equal to the reference version ({what})" if ok else
             f"no longer proven equal to the reference version — {what}", where)
    return ok


def tree_of(repo):
    """Fingerprints of the whole current tree (cached on the repo object)."""
    if "_e8_tree" not in repo.__dict__:
        repo.__dict__["_e8_tree"] = tree_fingerprints(repo)
    return repo.__dict__["_e8_tree"]


def definition_changes(repo, rel):
    """Units of module `rel` that exist in only one of the two trees and are not accounted for:
      ('removed', key)  a reference function or class- / module-level name that is gone.  Excused: a private helper that
                        was evaluated inside its callers (their fingerprints contain its body) and whose name is gone from
                        the package; a class- or module-level name that no longer occurs anywhere in the package.
      ('added', key)    a new function or bound name.  Excused: a helper every caller evaluates in place; any unit under a
                        name the reference tree never used and that is not a special method (new API, nothing can reach it
                        by an old name).  What is left is a definition that *shadows or overrides* something — a method
                        added to or removed from a class of a hierarchy changes which implementation is picked without
                        changing the text of any existing function."""
    ref = reference()
    r = ref["modules"].get(rel)
    if r is None or rel not in repo.modules:
        return []
    c = module_fingerprints(repo, rel)
    out = []
    missing = [k for kind in ("funcs", "scopes") for k in r.get(kind, {}) if k not in c.get(kind, {})]
    added = [k for kind in ("funcs", "scopes") for k in c.get(kind, {}) if k not in r.get(kind, {})]
    if not missing and not added:
        return out
    cur = tree_of(repo)
    ref_helpers, cur_helpers = set(ref["helpers"]), set(cur["helpers"])
    ref_ids, cur_ids = set(ref["identifiers"]), set(cur["identifiers"])
    ref_member_ids = set(ref.get("member_identifiers", []))

    def bare(key):
        return key.split("#")[-1] if "#" in key else key.split(".")[-1].split(":")[0]
    for k in missing:
        name = bare(k)
        if name == "*":
            continue
        if "#" in k:
            if name not in cur_ids:
                continue
        elif f"{rel}::{k}" in ref_helpers and name not in cur_ids:
            continue
        out.append(("removed", k))
    for k in added:
        name = bare(k)
        if name == "*":
            continue
        if "#" not in k and f"{rel}::{k}" in cur_helpers and name not in ref_ids:
            continue
        # a class member is reachable through attribute names / strings only; a module-level unit through any identifier
        is_member = ("." in k.split("#")[0]) if "#" in k else ("." in k)
        used = ref_member_ids if (is_member and ref_member_ids) else ref_ids
        if name not in used and not (name.startswith("__") and name.endswith("__")):
            # new API under a name nobody could have used -- unless binding it RUNS something: a module- or class-level
            # statement executes at import (wave m: `for _name in ("Moon", "Sun"): get_frame(_name)` at the end of
            # solarsystem.py registered two more centres called Moon and Sun; `X = Frame("EME2000", ...)` would re-register)
            # ... or unless the name is one a COMPUTED look-up can produce: `getattr(self, f"_scale_{two}_minus_{one}")`,
            # `f"_{a}_to_{b}"`, `f"{a}_to_{b}"` pick a method by a name that occurs nowhere as an identifier (wave m: a new
            # `Timescale._scale_utc_minus_tai` took over every TAI -> UTC step by its mere presence)
            if any(rx.fullmatch(name) for rx in _computed_name_patterns(repo)):
                out.append(("added", k))
                continue
            if "#" not in k or _binding_is_effect_free(repo, rel, k):
                continue
        out.append(("added", k))
    return out


def _computed_name_patterns(repo):
    """Regular expressions of the attribute names the package builds at run time: f-strings that reach the name argument
    of getattr / hasattr / setattr, directly or through a local of the same function."""
    import re
    if "_e8_dyn_names" in repo.__dict__:
        return repo.__dict__["_e8_dyn_names"]
    pats = set()

    def rx_of(js):
        parts = []
        for v in js.values:
            if isinstance(v, ast.Constant):
                parts.append(re.escape(str(v.value)))
            else:
                parts.append(".+")
        return "".join(parts)
    for m in repo.modules.values():
        tree = ast.parse(m.source)
        for fn in ast.walk(tree):
            if not isinstance(fn, (ast.FunctionDef, ast.AsyncFunctionDef)):
                continue
            local = {}
            for n in ast.walk(fn):
                if isinstance(n, ast.Assign) and len(n.targets) == 1 and isinstance(n.targets[0], ast.Name) and isinstance(n.value, ast.JoinedStr):
                    local.setdefault(n.targets[0].id, []).append(n.value)
            for n in ast.walk(fn):
                if isinstance(n, ast.Call) and isinstance(n.func, ast.Name) and n.func.id in ("getattr", "hasattr", "setattr") and len(n.args) >= 2:
                    a = n.args[1]
                    if isinstance(a, ast.JoinedStr):
                        pats.add(rx_of(a))
                    elif isinstance(a, ast.Name):
                        for js in local.get(a.id, []):
                            pats.add(rx_of(js))
    out = [re.compile(p) for p in sorted(pats) if p.replace(".+", "")]       # a pattern of wildcards only says nothing
    repo.__dict__["_e8_dyn_names"] = out
    return out


_PURE_ROOTS = {"np", "numpy", "math"}


_PURE_CTORS = None


def _pure_constructors(repo):
    """Classes of the package whose construction touches nothing but the new object: `__init__` (and no `__new__`, no
    metaclass, no base with an impure one) only stores into `self` and calls `setattr(self, ...)` / `super().__init__`.
    `Body(...)` is one; `Frame(...)`, `Center(...)`, `Orientation(...)`, `Form(...)` register themselves and are not."""
    out = set()
    for m in repo.modules.values():
        for c in m.classes.values():
            ok = True
            for k in repo.mro(c) if hasattr(repo, "mro") else [c]:
                if "__new__" in k.methods:
                    ok = False
                init = k.methods.get("__init__")
                if init is None:
                    continue
                for n in ast.walk(init.node):
                    if isinstance(n, (ast.Assign, ast.AugAssign)):
                        for t in (n.targets if isinstance(n, ast.Assign) else [n.target]):
                            root = t
                            while isinstance(root, (ast.Attribute, ast.Subscript)):
                                root = root.value
                            if isinstance(t, (ast.Attribute, ast.Subscript)) and not (isinstance(root, ast.Name) and root.id == "self"):
                                ok = False
                    elif isinstance(n, ast.Call):
                        f = ast.unparse(n.func)
                        if f == "setattr" and n.args and isinstance(n.args[0], ast.Name) and n.args[0].id == "self":
                            continue
                        if f in ("super().__init__", "isinstance", "len", "float", "int", "str", "ValueError", "TypeError", "kwargs.items", "kwargs.get", "kwargs.pop"):
                            continue
                        ok = False
                    elif isinstance(n, (ast.Global, ast.Nonlocal)):
                        ok = False
            if ok and not c.node.keywords and len(c.node.bases) <= 1 and all(isinstance(b, ast.Name) for b in c.node.bases):
                out.add(c.name)
    return out


def _expr_effect_free(n):
    if isinstance(n, ast.Call) and isinstance(n.func, ast.Name) and _PURE_CTORS and n.func.id in _PURE_CTORS:
        return all(_expr_effect_free(a) for a in n.args) and all(_expr_effect_free(kw.value) for kw in n.keywords)
    if isinstance(n, (ast.Constant, ast.Name)):
        return True
    if isinstance(n, ast.Attribute):
        return _expr_effect_free(n.value)
    if isinstance(n, (ast.Tuple, ast.List, ast.Set)):
        return all(_expr_effect_free(e) for e in n.elts)
    if isinstance(n, ast.Dict):
        return all(e is None or _expr_effect_free(e) for e in n.keys) and all(_expr_effect_free(e) for e in n.values)
    if isinstance(n, ast.BinOp):
        return _expr_effect_free(n.left) and _expr_effect_free(n.right)
    if isinstance(n, ast.UnaryOp):
        return _expr_effect_free(n.operand)
    if isinstance(n, ast.Subscript):
        return _expr_effect_free(n.value) and _expr_effect_free(n.slice)
    if isinstance(n, ast.Call):
        f = n.func
        root = f
        while isinstance(root, ast.Attribute):
            root = root.value
        pure = (isinstance(root, ast.Name) and root.id in _PURE_ROOTS and isinstance(f, ast.Attribute)) or \
               (isinstance(f, ast.Name) and f.id in ("timedelta", "datetime", "float", "int", "str", "tuple", "frozenset", "len", "abs", "min", "max", "round", "object"))
        return pure and all(_expr_effect_free(a) for a in n.args) and all(_expr_effect_free(kw.value) for kw in n.keywords)
    return False


def _binding_is_effect_free(repo, rel, key):
    """Every module- / class-level statement that binds the name of `key` ('<module>#X' or 'K.<class>#X') is a plain
    assignment of an expression that runs no package code."""
    global _PURE_CTORS
    if "_e8_pure_ctors" not in repo.__dict__:
        try:
            repo.__dict__["_e8_pure_ctors"] = _pure_constructors(repo)
        except Exception:
            repo.__dict__["_e8_pure_ctors"] = set()
    _PURE_CTORS = repo.__dict__["_e8_pure_ctors"]
    name = key.split("#")[-1]
    scope = key.split("#")[0]
    tree = ast.parse(repo.modules[rel].source)
    if scope == "<module>":
        body = tree.body
    else:
        cls_path = scope[:-len(".<class>")].split(".")
        body = tree.body
        for cn in cls_path:
            nxt = [c for c in body if isinstance(c, ast.ClassDef) and c.name == cn]
            if not nxt:
                return False
            body = nxt[-1].body
    found = False
    for st in body:
        if isinstance(st, (ast.FunctionDef, ast.AsyncFunctionDef, ast.ClassDef, ast.Import, ast.ImportFrom)):
            continue
        binds = {t.id for t in ast.walk(st) if isinstance(t, ast.Name) and isinstance(t.ctx, ast.Store)}
        if name not in binds:
            continue
        found = True
        if isinstance(st, ast.Assign) and all(isinstance(t, ast.Name) for t in st.targets) and _expr_effect_free(st.value):
            continue
        if isinstance(st, ast.AnnAssign) and isinstance(st.target, ast.Name) and (st.value is None or _expr_effect_free(st.value)):
            continue
        return False
    return found


def is_reference_tree(repo):
    """The source text of every module is the reference text: nothing to prove (and nothing to excuse)."""
    import hashlib
    ref = reference().get("sources", {})
    cur = {rel: hashlib.sha256(m.source.encode()).hexdigest()[:16] for rel, m in repo.modules.items()}
    return bool(ref) and cur == ref


def compare(repo):
    """→ dict(equivalent=bool, unproven=[...], functions=n, textual=k).  `unproven` names every function (or module
    residue) that E8 could not prove equal to its reference version."""
    ref = json.loads((DATA / "vgraph.json").read_text())
    cur = tree_fingerprints(repo)
    ref_helpers, cur_helpers = set(ref["helpers"]), set(cur["helpers"])
    ref_ids, cur_ids = set(ref["identifiers"]), set(cur["identifiers"])
    ref_transparent, cur_transparent = set(ref.get("transparent", [])), set(cur.get("transparent", []))
    unproven, n = [], 0
    for rel, r in ref["modules"].items():
        c = cur["modules"].get(rel)
        if c is None:
            unproven.append(f"{rel} (module removed)")
            continue
        if c["residue"] != r["residue"]:
            unproven.append(f"{rel} (module- or class-level statements)")
        for nm, hv in r.get("consts", {}).items():
            if c.get("consts", {}).get(nm) != hv:
                unproven.append(f"{rel}::{nm} (module constant changed or removed)")
        for nm in c.get("consts", {}):
            if nm not in r.get("consts", {}) and nm in ref_ids:
                unproven.append(f"{rel}::{nm} (new module constant under a name the reference tree already uses)")
        for key, fp in r["funcs"].items():
            n += 1
            ident = f"{rel}::{key}"
            name = key.split(".")[-1].split(":")[0].split("#")[0]
            if key not in c["funcs"]:
                # a private helper that was evaluated inside its callers may disappear (inlined by hand, or renamed):
                # the callers' fingerprints already contain its body; its name must be gone from the package
                if ident in ref_helpers and name not in cur_ids:
                    continue
                unproven.append(f"{ident} (removed)")
            elif c["funcs"][key] != fp:
                if ident in ref_transparent and ident in cur_transparent:
                    continue            # reachable only through callers, every one of which evaluates it in place
                try:
                    if specialised_fp(repo, rel, key) == fp:
                        continue        # a new optional parameter; equal when it takes its default
                except Exception:
                    pass
                unproven.append(ident)
    for rel, c in cur["modules"].items():
        rfuncs = ref["modules"].get(rel, {"funcs": {}})["funcs"]
        if rel not in ref["modules"]:
            unproven.append(f"{rel} (new module)")
        for key in c["funcs"]:
            if key in rfuncs:
                continue
            ident = f"{rel}::{key}"
            name = key.split(".")[-1].split(":")[0].split("#")[0]
            # a new private helper that every caller evaluates in place, under a name the reference tree never used
            if ident in cur_helpers and name not in ref_ids:
                continue
            unproven.append(f"{ident} (added)")
    return {"equivalent": not unproven, "unproven": unproven, "functions": n}


# ---- a new optional parameter at its default ----------------------------------------------------------------------------

class _Bind(ast.NodeTransformer):
    def __init__(self, values):
        self.values = values

    def visit_Name(self, n):
        if isinstance(n.ctx, ast.Load) and n.id in self.values:
            return ast.copy_location(ast.Constant(value=self.values[n.id]), n)
        return n


def _const_truth(n):
    """(known, value) of an expression made of constants only, for the handful of tests a defaulted flag is used in."""
    if isinstance(n, ast.Constant):
        return True, n.value
    if isinstance(n, ast.UnaryOp) and isinstance(n.op, ast.Not):
        k, v = _const_truth(n.operand)
        return (k, (not v) if k else None)
    if isinstance(n, ast.Compare) and len(n.ops) == 1:
        k1, a = _const_truth(n.left)
        k2, b = _const_truth(n.comparators[0])
        if k1 and k2:
            op = n.ops[0]
            try:
                if isinstance(op, ast.Is):
                    return True, (a is b) if (a is None or b is None or isinstance(a, bool) or isinstance(b, bool)) else (a == b and type(a) is type(b))
                if isinstance(op, ast.IsNot):
                    return True, not ((a is b) if (a is None or b is None or isinstance(a, bool) or isinstance(b, bool)) else (a == b and type(a) is type(b)))
                if isinstance(op, ast.Eq):
                    return True, a == b
                if isinstance(op, ast.NotEq):
                    return True, a != b
            except Exception:
                return False, None
    return False, None


class _Fold(ast.NodeTransformer):
    """Removes the arms a constant test cannot take.  `and` / `or` with a constant first operand fold the Python way."""

    def visit_If(self, n):
        self.generic_visit(n)
        k, v = _const_truth(n.test)
        if k:
            return (n.body if v else n.orelse) or [ast.copy_location(ast.Pass(), n)]
        return n

    def visit_IfExp(self, n):
        self.generic_visit(n)
        k, v = _const_truth(n.test)
        if k:
            return n.body if v else n.orelse
        return n

    def visit_BoolOp(self, n):
        self.generic_visit(n)
        vals = list(n.values)
        while len(vals) > 1:
            k, v = _const_truth(vals[0])
            if not k:
                break
            if isinstance(n.op, ast.And):
                if v:
                    vals.pop(0)
                else:
                    return vals[0]
            else:
                if v:
                    return vals[0]
                vals.pop(0)
        if len(vals) == 1:
            return vals[0]
        n.values = vals
        return n


def specialised_fp(repo, rel, key):
    """Fingerprint of function `key` of the current tree with the parameters the reference version does not have bound to
    their (constant) defaults and the dead arms removed -- or None when that reading does not apply: the reference
    parameters must be a prefix (positional) / subset (keyword-only) of the current ones, every added parameter must have a
    constant default and must never be re-bound in the body."""
    ref_params = reference()["modules"].get(rel, {}).get("params", {}).get(key)
    if ref_params is None or ":" in key:
        return None
    m = repo.module(rel)
    tree = ast.parse(m.source)
    path = key.split(".")
    body, fn = tree.body, None
    for i, part in enumerate(path):
        last = i == len(path) - 1
        cands = [x for x in body if isinstance(x, (ast.ClassDef if not last else (ast.FunctionDef, ast.AsyncFunctionDef))) and x.name == part]
        if not cands:
            return None
        if last:
            fn = cands[-1]
        else:
            body = cands[-1].body
    a = fn.args
    if any(d for d in fn.decorator_list if ast.unparse(d).endswith((".setter", ".deleter", ".getter"))):
        return None
    pos = [x.arg for x in a.posonlyargs + a.args]
    ref_pos = [x for x in ref_params if not x.startswith(("*", "="))]
    ref_kwo = [x[1:] for x in ref_params if x.startswith("=")]
    ref_var = [x for x in ref_params if x.startswith("*")]
    cur_var = (["*" + a.vararg.arg] if a.vararg else []) + (["**" + a.kwarg.arg] if a.kwarg else [])
    if pos[:len(ref_pos)] != ref_pos or cur_var != ref_var or any(k not in [x.arg for x in a.kwonlyargs] for k in ref_kwo):
        return None
    values = {}
    extra_pos = pos[len(ref_pos):]
    ndef = len(a.defaults)
    for name in extra_pos:
        idx = pos.index(name) - (len(pos) - ndef)
        if idx < 0 or not isinstance(a.defaults[idx], ast.Constant):
            return None
        values[name] = a.defaults[idx].value
    for x, d in zip(a.kwonlyargs, a.kw_defaults):
        if x.arg not in ref_kwo:
            if not isinstance(d, ast.Constant):
                return None
            values[x.arg] = d.value
    if not values:
        return None
    for n in ast.walk(fn):
        if isinstance(n, ast.Name) and n.id in values and isinstance(n.ctx, (ast.Store, ast.Del)):
            return None
        if isinstance(n, (ast.Global, ast.Nonlocal)) and set(n.names) & set(values):
            return None
    # drop the added parameters, bind their names, fold
    keep = len(ref_pos)
    all_pos = a.posonlyargs + a.args
    drop_defaults = len(extra_pos)
    a.defaults = a.defaults[:len(a.defaults) - drop_defaults] if drop_defaults else a.defaults
    a.posonlyargs = [x for x in a.posonlyargs if x.arg in ref_pos]
    a.args = [x for x in a.args if x.arg in ref_pos]
    kw = [(x, d) for x, d in zip(a.kwonlyargs, a.kw_defaults) if x.arg in ref_kwo]
    a.kwonlyargs, a.kw_defaults = [x for x, _ in kw], [d for _, d in kw]
    fn.body = [_Fold().visit(_Bind(values).visit(st)) for st in fn.body]
    flat = []
    for st in fn.body:
        flat.extend(st if isinstance(st, list) else [st])
    fn.body = flat or [ast.Pass()]
    ast.fix_missing_locations(tree)
    module_fingerprints(repo, rel)          # fills the caches of helper tables
    fp = vgraph.module_fingerprints(tree, m.name, m.is_pkg, set(repo.by_name), repo.__dict__["_e8_inl"])
    return fp["funcs"].get(key)
