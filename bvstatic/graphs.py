"""Node graphs declared at module level: `A = Cls("name", ...)` constructors and `A + B + C` link expressions."""
import ast

from .model import AnalysisError, unparse


def node_ctors(module, ctor_names):
    """{var: Call node} for module-level `VAR = Ctor(...)` with Ctor in ctor_names."""
    out = {}
    for st in module.tree.body:
        if isinstance(st, ast.Assign) and len(st.targets) == 1 and isinstance(st.targets[0], ast.Name) \
                and isinstance(st.value, ast.Call) and unparse(st.value.func) in ctor_names:
            out[st.targets[0].id] = st.value
    return out


def link_chains(module):
    """Module-level expression statements `A + B + C` -> [['A','B','C'], ...] (operands unparsed)."""
    chains = []
    for st in module.tree.body:
        if isinstance(st, ast.Expr) and isinstance(st.value, ast.BinOp) and isinstance(st.value.op, ast.Add):
            ops = []
            n = st.value
            ok = True
            while isinstance(n, ast.BinOp) and isinstance(n.op, ast.Add):
                ops.append(unparse(n.right))
                n = n.left
            ops.append(unparse(n))
            chains.append(list(reversed(ops)))
    return chains


def edges_of(chains):
    edges = []
    for ch in chains:
        for a, b in zip(ch, ch[1:]):
            edges.append((a, b))
    return edges


def tree_report(nodes, edges):
    """Returns (is_tree, reason)."""
    und = set()
    for a, b in edges:
        if a == b:
            return False, f"self-loop on {a}"
        k = frozenset((a, b))
        if k in und:
            return False, f"duplicate edge {a}–{b}"
        und.add(k)
    for a, b in edges:
        for x in (a, b):
            if x not in nodes:
                return False, f"edge endpoint {x} is not a declared node"
    if len(und) != len(nodes) - 1:
        return False, f"|E|={len(und)} but |V|-1={len(nodes) - 1}"
    # connectivity
    adj = {n: set() for n in nodes}
    for a, b in edges:
        adj[a].add(b)
        adj[b].add(a)
    seen = set()
    todo = [next(iter(nodes))]
    while todo:
        x = todo.pop()
        if x in seen:
            continue
        seen.add(x)
        todo.extend(adj[x] - seen)
    if seen != set(nodes):
        return False, f"not connected: unreachable {sorted(set(nodes) - seen)}"
    return True, "tree"
