"""Runs the per-property corpora: every mutation variant (one instance broken, still compiles) must make the
check exit 1 and name the expected rule; every refactor variant (behaviour preserved) must stay silent.
Scratch copies live under a fresh tempfile.mkdtemp() and are removed in a finally."""
import os
import shutil
import subprocess
import sys
import tempfile
from concurrent.futures import ThreadPoolExecutor
from pathlib import Path

from ..model import repo_root


def _apply(root, edits):
    for rel, old, new in edits:
        p = Path(root) / rel
        s = p.read_text(encoding="utf-8")
        if s.count(old) != 1:
            return f"anchor text occurs {s.count(old)} times in {rel}: {old[:60]!r}"
        p.write_text(s.replace(old, new), encoding="utf-8")
        try:
            compile(p.read_text(encoding="utf-8"), str(p), "exec")
        except SyntaxError as e:
            return f"variant does not compile: {e}"
    return None


def _one(prop, variant, base, tmp):
    name, kind, edits, rule = variant
    root = Path(tmp) / f"{prop}_{name}"
    shutil.copytree(base / "beyond", root / "beyond", ignore=shutil.ignore_patterns("__pycache__"))
    err = _apply(root, edits)
    if err:
        return name, kind, "BROKEN-VARIANT", err
    env = dict(os.environ, BVSTATIC_REPO=str(root), BVSTATIC_EVIDENCE=str(root / "evidence"), BVSTATIC_NO_SELFTEST="1")
    p = subprocess.run([sys.executable, "-B", "-m", "bvstatic", prop, "--tier", "quick"], cwd=str(Path(__file__).resolve().parents[2]),
                       env=env, capture_output=True, text=True)
    out = p.stdout
    shutil.rmtree(root, ignore_errors=True)
    if kind == "fire":
        ok = p.returncode == 1 and "VIOLATION" in out and (rule is None or f"rule={rule} " in out)
        return name, kind, "ok" if ok else "MISSED", "" if ok else f"rc={p.returncode}; expected rule {rule}; got: " + "; ".join(l for l in out.splitlines() if "FAIL" in l or "ANALYSIS" in l)[:400]
    ok = p.returncode == 0 and "VIOLATION" not in out
    return name, kind, "ok" if ok else "FALSE-ALARM", "" if ok else "; ".join(l for l in out.splitlines() if "FAIL" in l or "ANALYSIS" in l)[:400]


VERIF = Path(__file__).resolve().parents[2]
# behaviour-preserving patches of the typical-maintenance corpora that are known to alarm (DESIGN section 9.4), by path
NEUTRAL_KNOWN_ALARMS = {
    "neutral2/C13/patch_3.diff",     # `for k in d.keys(): ... d[k]` -> `items()` with a mutation of another object in between: E8 cannot prove it
    "neutral3/C13/patch_8.diff",     # the same edit in omm.py
}


def _patch_variants(prop):
    """Filed seeded changes written against this property (must fire) and the typical-maintenance patches written for it
    (neutral2 / neutral3, must stay silent), as (name, kind, patch path)."""
    import json
    out = []
    for d in sorted((VERIF / "seeded").glob("*")):
        m = d / "meta.json"
        if m.exists() and (d / "patch.diff").exists():
            try:
                if json.loads(m.read_text()).get("property") == prop:
                    out.append((f"seed:{d.name}", "fire", d / "patch.diff"))
            except ValueError:
                pass
    for corpus_dir in ("neutral2", "neutral3"):
        for pth in sorted((VERIF / corpus_dir / prop).glob("patch_*.diff")):
            rel = f"{corpus_dir}/{prop}/{pth.name}"
            if rel not in NEUTRAL_KNOWN_ALARMS:
                out.append((f"{corpus_dir}:{pth.name}", "silent", pth))
    return out


def _one_patch(prop, variant, base, tmp):
    name, kind, patch = variant
    root = Path(tmp) / (f"{prop}_" + name.replace(":", "_").replace("/", "_"))
    shutil.copytree(base / "beyond", root / "beyond", ignore=shutil.ignore_patterns("__pycache__"))
    r = subprocess.run(["git", "apply", "--include=beyond/*", str(patch)], cwd=str(root), capture_output=True, text=True)
    if r.returncode:
        r = subprocess.run(["patch", "-p1", "-s", "--no-backup-if-mismatch", "-i", str(patch)], cwd=str(root), capture_output=True, text=True)
        if r.returncode:
            shutil.rmtree(root, ignore_errors=True)
            return name, kind, "STALE-PATCH", "does not apply to the current tree (skipped, not counted)"
    env = dict(os.environ, BVSTATIC_REPO=str(root), BVSTATIC_EVIDENCE=str(root / "evidence"), BVSTATIC_NO_SELFTEST="1")
    p = subprocess.run([sys.executable, "-B", "-m", "bvstatic", prop, "--tier", "quick"], cwd=str(VERIF), env=env, capture_output=True, text=True)
    out = p.stdout
    shutil.rmtree(root, ignore_errors=True)
    fails = "; ".join(l.strip()[:160] for l in out.splitlines() if "FAIL" in l or "ANALYSIS" in l)[:400]
    if kind == "fire":
        ok = p.returncode == 1 and "VIOLATION" in out
        return name, kind, "ok" if ok else "MISSED", "" if ok else f"rc={p.returncode}: {fails}"
    ok = p.returncode == 0 and "VIOLATION" not in out
    return name, kind, "ok" if ok else "FALSE-ALARM", "" if ok else fails


def run(prop, jobs=16):
    from . import corpus
    variants = corpus.CORPUS.get(prop, [])
    if not variants:
        print(f"[{prop}] selftest: no corpus")
        return 0
    results = []
    base = repo_root()
    tmp = tempfile.mkdtemp(prefix="bvselftest_")
    bad = 0
    try:
        with ThreadPoolExecutor(max_workers=jobs) as ex:
            results = list(ex.map(lambda v: _one(prop, v, base, tmp), variants))
        for name, kind, verdict, msg in results:
            if verdict != "ok":
                bad += 1
                print(f"  SELFTEST {verdict} {prop}/{name} ({kind}) {msg}")
        n_fire = sum(1 for v in variants if v[1] == "fire")
        print(f"[{prop}] selftest: {len(variants)} variants ({n_fire} mutations must fire, {len(variants) - n_fire} refactors must stay silent): {len(variants) - bad} ok, {bad} bad")
        # replay of the filed seeded changes and of the typical-maintenance patches written for this property
        pv = _patch_variants(prop)
        with ThreadPoolExecutor(max_workers=jobs) as ex:
            presults = list(ex.map(lambda v: _one_patch(prop, v, base, tmp), pv))
        pbad = 0
        for name, kind, verdict, msg in presults:
            if verdict not in ("ok", "STALE-PATCH"):
                pbad += 1
                print(f"  SELFTEST {verdict} {prop}/{name} ({kind}) {msg}")
        stale = sum(1 for r in presults if r[2] == "STALE-PATCH")
        print(f"[{prop}] replay: {sum(1 for v in pv if v[1] == 'fire')} seeded changes must fire, {sum(1 for v in pv if v[1] == 'silent')} maintenance patches must stay silent: "
              f"{len(pv) - pbad - stale} ok, {pbad} bad, {stale} stale")
        bad += pbad
        results = results + presults
        variants = variants + [(v[0], v[1], None, None) for v in pv]
    finally:
        shutil.rmtree(tmp, ignore_errors=True)
    _annotate(prop, variants, results, bad)
    if bad:
        print(f"ANALYSIS-ERROR property={prop} checker self-test failed ({bad} variants)")
        return 2
    return 0


def _annotate(prop, variants, results, bad):
    """Record the self-test in the evidence file the main run has just written."""
    import json
    from ..report import EVIDENCE_DIR
    p = EVIDENCE_DIR / f"{prop}.json"
    if not p.exists():
        return
    ev = json.loads(p.read_text())
    ev["coverage"]["selftest"] = {
        "mutation_variants": sum(1 for v in variants if v[1] == "fire"),
        "refactor_variants": sum(1 for v in variants if v[1] == "silent"),
        "bad": bad,
        "variants": [{"name": r[0], "kind": r[1], "verdict": r[2]} for r in results],
    }
    p.write_text(json.dumps(ev, indent=1, ensure_ascii=False))
