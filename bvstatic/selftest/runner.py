"""Runs the per-property corpora: every mutation variant (one instance broken, still compiles) must make the
check exit 1 and name the expected rule; every refactor variant (behaviour preserved) must stay silent.
Scratch copies live under a fresh tempfile.mkdtemp() and are removed in a finally."""
import os
import shutil
import subprocess
import sys
import tempfile
from concurrent.futures import ThreadPoolExecutor
from pathlib import Path

from ..model import repo_root


def _apply(root, edits):
    for rel, old, new in edits:
        p = Path(root) / rel
        s = p.read_text(encoding="utf-8")
        if s.count(old) != 1:
            return f"anchor text occurs {s.count(old)} times in {rel}: {old[:60]!r}"
        p.write_text(s.replace(old, new), encoding="utf-8")
        try:
            compile(p.read_text(encoding="utf-8"), str(p), "exec")
        except SyntaxError as e:
            return f"variant does not compile: {e}"
    return None


def _one(prop, variant, base, tmp):
    name, kind, edits, rule = variant
    root = Path(tmp) / f"{prop}_{name}"
    shutil.copytree(base / "beyond", root / "beyond", ignore=shutil.ignore_patterns("__pycache__"))
    err = _apply(root, edits)
    if err:
        return name, kind, "BROKEN-VARIANT", err
    env = dict(os.environ, BVSTATIC_REPO=str(root), BVSTATIC_EVIDENCE=str(root / "evidence"), BVSTATIC_NO_SELFTEST="1")
    p = subprocess.run([sys.executable, "-B", "-m", "bvstatic", prop, "--tier", "quick"], cwd=str(Path(__file__).resolve().parents[2]),
                       env=env, capture_output=True, text=True)
    out = p.stdout
    shutil.rmtree(root, ignore_errors=True)
    if kind == "fire":
        ok = p.returncode == 1 and "VIOLATION" in out and (rule is None or f"rule={rule} " in out)
        return name, kind, "ok" if ok else "MISSED", "" if ok else f"rc={p.returncode}; expected rule {rule}; got: " + "; ".join(l for l in out.splitlines() if "FAIL" in l or "ANALYSIS" in l)[:400]
    ok = p.returncode == 0 and "VIOLATION" not in out
    return name, kind, "ok" if ok else "FALSE-ALARM", "" if ok else "; ".join(l for l in out.splitlines() if "FAIL" in l or "ANALYSIS" in l)[:400]


def run(prop, jobs=16):
    from . import corpus
    variants = corpus.CORPUS.get(prop, [])
    if not variants:
        print(f"[{prop}] selftest: no corpus")
        return 0
    results = []
    base = repo_root()
    tmp = tempfile.mkdtemp(prefix="bvselftest_")
    bad = 0
    try:
        with ThreadPoolExecutor(max_workers=jobs) as ex:
            results = list(ex.map(lambda v: _one(prop, v, base, tmp), variants))
        for name, kind, verdict, msg in results:
            if verdict != "ok":
                bad += 1
                print(f"  SELFTEST {verdict} {prop}/{name} ({kind}) {msg}")
        n_fire = sum(1 for v in variants if v[1] == "fire")
        print(f"[{prop}] selftest: {len(variants)} variants ({n_fire} mutations must fire, {len(variants) - n_fire} refactors must stay silent): {len(variants) - bad} ok, {bad} bad")
    finally:
        shutil.rmtree(tmp, ignore_errors=True)
    _annotate(prop, variants, results, bad)
    if bad:
        print(f"ANALYSIS-ERROR property={prop} checker self-test failed ({bad} variants)")
        return 2
    return 0


def _annotate(prop, variants, results, bad):
    """Record the self-test in the evidence file the main run has just written."""
    import json
    from ..report import EVIDENCE_DIR
    p = EVIDENCE_DIR / f"{prop}.json"
    if not p.exists():
        return
    ev = json.loads(p.read_text())
    ev["coverage"]["selftest"] = {
        "mutation_variants": sum(1 for v in variants if v[1] == "fire"),
        "refactor_variants": sum(1 for v in variants if v[1] == "silent"),
        "bad": bad,
        "variants": [{"name": r[0], "kind": r[1], "verdict": r[2]} for r in results],
    }
    p.write_text(json.dumps(ev, indent=1, ensure_ascii=False))
