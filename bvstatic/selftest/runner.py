"""Runs the per-property corpora.  Filled in as corpora are added (see corpus.py)."""


def run(prop):
    try:
        from . import corpus
    except ImportError:
        print(f"[{prop}] selftest: no corpus yet")
        return 0
    return corpus.run(prop)
