"""Checker self-test: mutation corpus (must fire) and refactor corpus (must stay silent) on scratch copies."""


def run_selftest(prop):
    from .runner import run
    return run(prop)
