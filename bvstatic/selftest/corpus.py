"""Mutation corpus (must fire, naming the rule) and refactor corpus (must stay silent).
Each variant: (name, 'fire'|'silent', [(file, old, new), ...], expected rule or None)."""

CORPUS = {}


def M(prop, name, rel, old, new, rule):
    CORPUS.setdefault(prop, []).append((name, "fire", [(rel, old, new)], rule))


def R(prop, name, rel, old, new):
    CORPUS.setdefault(prop, []).append((name, "silent", [(rel, old, new)], None))


LIMITS = {}


def L(prop, name, rel, old, new):
    """A rewrite the formula rules accept (real algebra: a distributed product, a commuted sum of two unknowns, a chained
    comparison read from the other end, a slice widened over a blank column) but E8 does not prove: E8 numbers
    floating-point computations operation by operation (it folds literals and treats a product as the multiset of its
    factors, no more), so the ANCHOR / FILE clauses report these functions as no longer proven equal.  Kept as the
    documented limit of the generic clauses; not part of the must-stay-silent corpus."""
    LIMITS.setdefault(prop, []).append((name, "limit", [(rel, old, new)], None))


NODE = "beyond/utils/node.py"
ORIENT = "beyond/frames/orient.py"
CENTER = "beyond/frames/center.py"
STATIONS = "beyond/frames/stations.py"
FORMS = "beyond/orbits/forms.py"
DATE = "beyond/dates/date.py"
CW = "beyond/propagators/cw.py"

# ---- C20
M("C20", "add-oneway", NODE, "        other.neighbors[self] = None\n", "", "R20.3")
M("C20", "update-noreset", NODE, "        self.routes = {}\n        for node in self.neighbors:", "        for node in self.neighbors:", "R20.4")
M("C20", "route-steps", NODE, "Route(node, route.steps + 1)", "Route(node, route.steps)", "R20.4")
M("C20", "lock-dropped", NODE, "                node._update(already_updated)", "                node._update()", "R20.4")
M("C20", "path-neighbor", NODE, "obj = obj.routes[goal].direction", "obj = next(iter(obj.neighbors))", "R20.3")
M("C20", "orbitframe-parent-centre", "beyond/frames/frames.py", "        ref_orbit.frame.center,\n", "        parent.center,\n", "R20.5")
M("C20", "station-axes-other-frame", "beyond/frames/stations.py", "        parent_frame.orientation,\n        coordinates,", "        orient.ITRF,\n        coordinates,", "R20.5")
R("C20", "orbitframe-args-one-line", "beyond/frames/frames.py", "    center_obj.add_link(\n        ref_orbit.frame.center,\n        ref_orbit.frame.orientation,\n        ref_orbit,\n    )", "    center_obj.add_link(ref_orbit.frame.center, ref_orbit.frame.orientation, ref_orbit)")
M("C20", "station-other-parent", STATIONS, "        o + parent_frame.orientation", "        o + orient.EME2000", "R20.2")
M("C20", "loo-key-reversed", ORIENT, 'mtd = f"{name}_to_{parent.orientation.name}"', 'mtd = f"{parent.orientation.name}_to_{name}"', "R20.2")
M("C20", "center-key", CENTER, 'f"{self.name}_to_{center.name}"', 'f"{center.name}_to_{self.name}"', "R20.2")
M("C20", "forms-cycle", FORMS, "CART + CYL\n", "CART + CYL\nCYL + SPHE\n", "R20.1")
M("C20", "scales-disconnected", DATE, "TDB + TT + TAI\n", "TDB + TT\n", "R20.1")
M("C20", "routes-written-outside", CENTER, "        self.offset = offset\n", "        self.offset = offset\n        self.node.routes = {}\n", "R20.3")
R("C20", "comment-only", NODE, "        self._update()\n        return other", "        # refresh\n        self._update()\n        return other")

SV = "beyond/orbits/statevector.py"
ORB = "beyond/orbits/orbit.py"
COVF = "beyond/orbits/cov.py"
MATRIX = "beyond/utils/matrix.py"
I80 = "beyond/frames/iau1980.py"
I10 = "beyond/frames/iau2010.py"
EOP = "beyond/dates/eop.py"
FRAMES = "beyond/frames/frames.py"
KEP = "beyond/propagators/kepler.py"
J2 = "beyond/propagators/j2.py"
KN = "beyond/propagators/keplernum.py"
BASE = "beyond/propagators/base.py"
SGP4 = "beyond/propagators/sgp4.py"
BETA = "beyond/propagators/sgp4beta.py"
TLE = "beyond/io/tle.py"
OPM = "beyond/io/ccsds/opm.py"
OEM = "beyond/io/ccsds/oem.py"
OMM = "beyond/io/ccsds/omm.py"
TDM = "beyond/io/ccsds/tdm.py"
CCOV = "beyond/io/ccsds/cov.py"
COMMONS = "beyond/io/ccsds/commons.py"
EPH = "beyond/orbits/ephem.py"
INTERP = "beyond/utils/interp.py"
LIS = "beyond/propagators/listeners.py"
LOCAL = "beyond/frames/local.py"
MAN = "beyond/orbits/man.py"
SOL = "beyond/env/solarsystem.py"
JPL = "beyond/env/jpl.py"
LAM = "beyond/utils/lambert.py"
LEO = "beyond/utils/leo.py"
LTAN = "beyond/utils/ltan.py"
CONS = "beyond/utils/constellation.py"
BETAU = "beyond/utils/beta.py"
INTER = "beyond/utils/interplanetary.py"
MEAS = "beyond/utils/measures.py"

# ---- C01
M("C01", "cyl-velocity-sign", FORMS, "vx = r_dot * cos(θ) - r * sin(θ) * θ_dot", "vx = r_dot * cos(θ) + r * sin(θ) * θ_dot", "R01.5")
M("C01", "sphe-phi-dot", FORMS, "vz = r_dot * z / r + r * phi_dot * cos(phi)", "vz = r_dot * z / r + r * phi_dot * sin(phi)", "R01.5")
M("C01", "hyp-anomaly-sign", FORMS, "sin_ν = -(sinh(E) * sqrt(e ** 2 - 1)) / (1 - e * cosh(E))", "sin_ν = (sinh(E) * sqrt(e ** 2 - 1)) / (1 - e * cosh(E))", "R01.8")
M("C01", "ecc-anomaly-cos", FORMS, "cos_E = (e + cos(ν)) / (1 + e * cos(ν))\n            sin_E", "cos_E = (e + cos(ν)) / (1 - e * cos(ν))\n            sin_E", "R01.8")
M("C01", "newton-step", FORMS, "return E + (M - E + e * sin(E)) / (1 - e * cos(E))", "return E + (M - E + e * sin(E)) / (1 + e * cos(E))", "R01.6")
M("C01", "newton-loop-polarity", FORMS, "while abs(E1 - E) >= tol:", "while abs(E1 - E) <= tol:", "R01.6")
M("C01", "tle-mean-motion", FORMS, "a = (body.µ / n ** 2) ** (1 / 3)", "a = (body.µ / n ** 3) ** (1 / 2)", "R01.9")
M("C01", "return-order", FORMS, "return np.array([a, ex, ey, ix, iy, l], dtype=float)", "return np.array([a, ey, ex, ix, iy, l], dtype=float)", "R01.2")
M("C01", "unpack-order", FORMS, "        a, ex, ey, i, Ω, u = coord\n", "        a, ex, ey, Ω, i, u = coord\n", "R01.2")
M("C01", "sibling-drift", FORMS, "        α = (ω + M) % (2 * np.pi)", "        α = (ω - M) % (2 * np.pi)", "R01.4")
M("C01", "alias-hijack", FORMS, '        "maol": "α",\n', '        "maol": "α",\n        "M": "ν",\n', "R01.3")
M("C01", "cache-wrong-form", FORMS, '    "mean": KEPL_M,', '    "mean": KEPL_E,', "R01.1")
M("C01", "edge-missing-conversion", FORMS, "    def _keplerian_mean_circular_to_keplerian_mean(cls, coord, body):", "    def _keplerian_mean_circular_to_keplerian_meann(cls, coord, body):", "R01.1")
M("C01", "infos-energy", SV, "return -self.mu / (2 * self.kep.a)", "return -self.mu / self.kep.a", "R01.12")
M("C01", "infos-apocenter", SV, "return self.kep.a * (1 + self.kep.e)", "return self.kep.a * (1 + self.kep.e ** 2)", "R01.12")
M("C01", "infos-vp", SV, "return np.sqrt(self.mu * (2 / (self.rp) - 1 / self.kep.a))", "return np.sqrt(self.mu * (2 / (self.ra) - 1 / self.kep.a))", "R01.12")
M("C01", "infos-hyperbolic-flag", SV, "        return self.kep.e > 1", "        return self.kep.e >= 1", "R01.12")
L("C01", "refactor-temp", FORMS, "        ex = e * cos(ω)\n        ey = e * sin(ω)\n        u = (ω + ν) % (np.pi * 2)", "        co = cos(ω)\n        ex = e * co\n        ey = sin(ω) * e\n        u = (ν + ω) % (np.pi * 2)")
L("C01", "refactor-infos", SV, "return self.kep.a * (1 - self.kep.e)", "a = self.kep.a\n        return a - a * self.kep.e")

# ---- C02
M("C02", "rot2-sign", MATRIX, "            [np.cos(theta), 0, -np.sin(theta)],\n            [0, 1, 0],\n            [np.sin(theta), 0, np.cos(theta)],", "            [np.cos(theta), 0, np.sin(theta)],\n            [0, 1, 0],\n            [-np.sin(theta), 0, np.cos(theta)],", "R02.4")
M("C02", "expand-coupling-sign", MATRIX, "        out[3:, :3] = -R @ m", "        out[3:, :3] = R @ m", "R02.4")
M("C02", "skew-entry", MATRIX, "[[0, -rate[2], rate[1]], [rate[2], 0, -rate[0]], [-rate[1], rate[0], 0]]", "[[0, -rate[2], rate[1]], [rate[2], 0, -rate[0]], [rate[1], -rate[0], 0]]", "R02.4")
M("C02", "inverse-before-expand", ORIENT, "M = np.linalg.inv(expand(*getattr(self, reverse)(date)))", "M = expand(np.linalg.inv(getattr(self, reverse)(date)[0]))", "R02.3")
M("C02", "accumulate-right", ORIENT, "            m = M @ m", "            m = m @ M", "R02.3")
M("C02", "rate-dropped", ORIENT, "        m = iau2010.sideral(date)\n        return m, -iau2010.rate(date)", "        m = iau2010.sideral(date)\n        return m, None", "R02.2")
M("C02", "rate-sign", ORIENT, "        return m, -iau1980.rate(date)", "        return m, iau1980.rate(date)", "R02.2")
M("C02", "center-reverse-sign", CENTER, "                offset = -getattr(self, reverse)(date, orientation)", "                offset = getattr(self, reverse)(date, orientation)", "R02.3")
M("C02", "offset-old-orientation", FRAMES, "            orbit.date, new_frame.center, new_frame.orientation\n", "            orbit.date, new_frame.center, self.orientation\n", "R02.3")
M("C02", "gmst-scale", I80, '    t = date.change_scale("UT1").julian_century', '    t = date.change_scale("UTC").julian_century', "R02.5")
M("C02", "era-raw-date", I10, '    jd = date.change_scale("UT1").jd', "    jd = date.jd", "R02.5")
M("C02", "eop-column", EOP, '"ut1_utc": float(line[58:68]),', '"ut1_utc": float(line[59:68]),', "R02.6")
M("C02", "eop-unit", I80, "        delta_psi += date.eop.dpsi / 3600000.0", "        delta_psi += date.eop.dpsi / 3600.0", "R02.6")
M("C02", "polar-motion-order", I10, "    return rot3(-s_prime) @ rot2(x_p) @ rot1(y_p)", "    return rot3(-s_prime) @ rot1(y_p) @ rot2(x_p)", "R02.7")
M("C02", "g50-matrix-entry", ORIENT, "[0.0111814832391717, 0.9999374848933135, -0.0000271625947142]", "[0.0111814832391717, 0.9999374848933135, 0.0000271625947142]", "R02.7")
M("C02", "provider-duplicate", ORIENT, "    def MOD_to_EME2000(self, date):", "    def EME2000_to_MOD(self, date):\n        return iau1980.precesion(date), None\n\n    def MOD_to_EME2000(self, date):", "R02.1")
L("C02", "slice-with-blank", EOP, '"x": float(line[18:27]),', '"x": float(line[17:27]),')

# ---- C03
M("C03", "tt-tai-constant", DATE, "        return 32.184", "        return 32.148", "R03.1")
M("C03", "offset-orientation", DATE, "                delta -= getattr(self, roper)(mjd, eop)", "                delta += getattr(self, roper)(mjd, eop)", "R03.1")
M("C03", "provider-reversed", DATE, "    def _scale_tai_minus_gps(self, mjd, eop):", "    def _scale_gps_minus_tai(self, mjd, eop):", "R03.1")
M("C03", "eq-on-label", DATE, "        return self._mjd == other._mjd", "        return self.mjd == other.mjd", "R03.2")
M("C03", "lt-wrong-op", DATE, "        return self._mjd < other._mjd", "        return self._mjd <= other._mjd", "R03.2")
M("C03", "hash-pair", DATE, "        return hash(self._mjd)", "        return hash((self._d, self._s))", "R03.2")
M("C03", "contains-onesided", DATE, "                return self.stop < date <= self.start", "                return self.start <= date < self.stop", None)
M("C03", "policy-warn-raises", EOP, "                log.warning(msg)\n            elif cls.policy() == cls.ERROR:\n                raise", "                log.warning(msg)\n                raise\n            elif cls.policy() == cls.ERROR:\n                raise", "R03.4")
M("C03", "fallback-missing-field", EOP, "x=0, y=0, dx=0, dy=0, deps=0, dpsi=0, lod=0, ut1_utc=0, tai_utc=0", "x=0, y=0, dx=0, dy=0, deps=0, dpsi=0, lod=0, ut1_utc=0, tai_utc=37", "R03.4")
M("C03", "add-drops-scale", DATE, "return self.__class__(self.d + int(days), sec, scale=self.scale)", "return self.__class__(self.d + int(days), sec)", "R03.5")
M("C03", "sub-on-label", DATE, "            return self._datetime - other._datetime", "            return self.datetime - other.datetime", "R03.5")
M("C03", "convert-carry", DATE, "        d -= int((s + self._offset) // 86400)", "        d -= int((self._s + self._offset) // 86400)", "R03.6")
M("C03", "len-not-inclusive", DATE, "        if self.inclusive and self.dur % self.step == timedelta(0):", "        if self.dur % self.step == timedelta(0):", "R03.3")
M("C03", "iter-backward-op", DATE, '            oper = "__ge__" if self.inclusive else "__gt__"', '            oper = "__gt__" if self.inclusive else "__ge__"', "R03.3")
M("C03", "leap-table-strict", EOP, "            if date <= mjd:\n                return value", "            if date < mjd:\n                return value", "R03.8")
L("C03", "refactor-contains", DATE, "            if self.inclusive:\n                return self.stop <= date <= self.start", "            if self.inclusive:\n                return self.start >= date >= self.stop")

# ---- C04
M("C04", "sgp4-own-scale", SGP4, '        utc = date.change_scale("UTC")\n', "        utc = date\n", "C.1")
M("C04", "tle-own-scale", TLE, 'date = orbit.date.change_scale("UTC").datetime', "date = orbit.date.datetime", "C.1")
M("C04", "beta-naive", BETA, "tdiff = (date - self.tle.date).total_seconds() / 60.0", "tdiff = (date.datetime - self.tle.date.datetime).total_seconds() / 60.0", "C.1")
M("C04", "opm-man-epoch", OPM, "            date = date.change_scale(data.date.scale.name)\n\n            text +=", "            text +=", "C.1")
M("C04", "oem-stop-time", OEM, '"STOP_TIME": data.stop.change_scale(scale).strftime(DATE_FMT_DEFAULT),', '"STOP_TIME": data.stop.strftime(DATE_FMT_DEFAULT),', "C.1")
M("C04", "kepler-mjd-diff", KEP, "delta_t = (date - self.orbit.date).total_seconds()", "delta_t = (date.mjd - self.orbit.date.mjd) * 86400", "C.1")
M("C04", "moon-raw-date", SOL, '        date = date.change_scale("TDB")\n        t_tdb = date.julian_century', "        t_tdb = date.julian_century", "C.1")
M("C04", "branch-on-scale", KEP, "        n = self.orbit.infos.n\n", '        n = self.orbit.infos.n\n        if date.scale.name == "TAI":\n            delta_t -= 37\n', "C.3")
M("C04", "wrong-label-scale", TDM, "date=m.date.change_scale(measure_set.start.scale.name),", "date=m.date.change_scale(measure_set.stop.scale.name),", "C.1")
R("C04", "refactor-local", SGP4, '        utc = date.change_scale("UTC")\n        _date = [float(x) for x in f"{utc:%Y %m %d %H %M %S.%f}".split()]', '        _date = [float(x) for x in f"{date.change_scale(\'UTC\'):%Y %m %d %H %M %S.%f}".split()]')

# ---- C05
M("C05", "kepler-writes-omega", KEP, "        new[5] = self.orbit[5] + delta", "        new[4] = self.orbit[4] + delta", "R05.1")
M("C05", "kepler-half-rate", KEP, "        delta = n * delta_t", "        delta = n * delta_t / 2", "R05.2")
M("C05", "j2-node-sin", J2, "        dΩ = -3 / 2 * com * np.cos(i)", "        dΩ = -3 / 2 * com * np.sin(i)", "R05.2")
M("C05", "j2-perigee-coeff", J2, "        dω = 3 / 4 * com * (4 - 5 * np.sin(i) ** 2)", "        dω = 3 / 4 * com * (5 - 4 * np.sin(i) ** 2)", "R05.2")
M("C05", "j2-common", J2, "com = n * re ** 2 * Earth.J2 / (a ** 2 * (1 - e ** 2) ** 2)", "com = n * re ** 2 * Earth.J2 / (a ** 2 * (1 - e ** 2))", "R05.2")
M("C05", "j2-increment-order", J2, "delta = np.array([0.0, 0.0, 0.0, dΩ, dω, dM + n]) * delta_t", "delta = np.array([0.0, 0.0, 0.0, dω, dΩ, dM + n]) * delta_t", "R05.1")
M("C05", "j2-writes-snapshot", J2, "        new = self.orbit[:] + delta\n", "        new = self.orbit\n        new[:] = new + delta\n", None)
M("C05", "setter-by-reference", KEP, '        self._orbit = orbit.copy(form="keplerian_mean")', '        orbit.form = "keplerian_mean"\n        self._orbit = orbit', "R05.1")
R("C05", "refactor-rate", J2, "        dΩ = -3 / 2 * com * np.cos(i)", "        dΩ = -1.5 * np.cos(i) * com")

# ---- C06
M("C06", "rk4-weight", KN, '"b": array([1 / 6, 1 / 3, 1 / 3, 1 / 6]),', '"b": array([1 / 6, 1 / 3, 1 / 6, 1 / 3]),', "R06.1")
M("C06", "dopri-a-entry", KN, "array([19372 / 6561, -25360 / 2187, 64448 / 6561, -212 / 729]),", "array([19372 / 6561, -25360 / 2187, 64448 / 6561, -212 / 792]),", "R06.1")
M("C06", "rkf-bstar", KN, '"b_star": array([25 / 216, 0, 1408 / 2565, 2197 / 4104, -1 / 5, 0]),', '"b_star": array([25 / 216, 0, 1408 / 2565, 2197 / 4104, -1 / 5, 1 / 100]),', "R06.1")
M("C06", "stage-date", KN, "                y_n_prime.date += step * c", "                y_n_prime.date += step", "R06.2")
M("C06", "acceptance", KN, "            if p_error <= self.tol:", "            if p_error >= self.tol:", "R06.2")
M("C06", "gravity-power", KN, "            norm = linalg.norm(diff) ** 3", "            norm = linalg.norm(diff) ** 2", "R06.3")
M("C06", "march-nominal-step", KN, "            real_step, orb = self._make_step(orb, self.step)\n            ephem.append(orb)\n            date += real_step\n\n        ephem = Ephem(ephem)\n\n        if kwargs", "            real_step, orb = self._make_step(orb, self.step)\n            ephem.append(orb)\n            date += self.step\n\n        ephem = Ephem(ephem)\n\n        if kwargs", "R06.2")
M("C06", "copy-drops-method", KN, "self.step, self.bodies, method=self.method, frame=self.frame, tol=self.tol", "self.step, self.bodies, frame=self.frame, tol=self.tol", "R06.4")
R("C06", "refactor-tableau", KN, '"c": array([0, 1 / 2, 1 / 2, 1]),', '"c": array([0, 0.5, 0.5, 1]),')

# ---- C07
M("C07", "wgs-constant", BETA, "    µ_e = 3.986008e5  # in km³.s⁻²\n    r_e = 6378.135  # km\n    k_e = 60.0", "    µ_e = 3.986005e5  # in km³.s⁻²\n    r_e = 6378.135  # km\n    k_e = 60.0", "R07.2")
M("C07", "model-84", BETA, "    MODEL = WGS72", "    MODEL = WGS84", "R07.2")
M("C07", "kepler-step", BETA, "                1 - ayN * sin(Epω) - axN * cos(Epω)", "                1 + ayN * sin(Epω) - axN * cos(Epω)", "R07.2")
M("C07", "coefficient", BETA, "134.0 * delta_1 ** 3 / 81.0", "143.0 * delta_1 ** 3 / 81.0", "R07.3")
M("C07", "km-to-m-positions-only", SGP4, "        result = [x * 1000 for x in p + v]", "        result = [x * 1000 for x in p] + list(v)", "R07.1")
M("C07", "gravity-model-lib", SGP4, "from sgp4.earth_gravity import wgs72\n", "from sgp4.earth_gravity import wgs84 as wgs72\n", "R07.1")

# ---- C08
M("C08", "kepler-writes-snapshot", KEP, "        new = self.orbit.copy()\n", "        new = self.orbit\n", "D3")
M("C08", "none-no-copy", "beyond/propagators/none.py", "        orb = self.orbit.copy()\n", "        orb = self.orbit\n", None)
M("C08", "ephem-exclusive-stop", EPH, "                while date <= stop:", "                while date < stop:", "R08.1")
M("C08", "frontend-sign", BASE, "            if start > kwargs[\"stop\"] and step.total_seconds() > 0:\n                kwargs[\"step\"] = -step\n\n        listeners", "            if start > kwargs[\"stop\"] and step.total_seconds() > 0:\n                pass\n\n        listeners", "R08.2")
M("C08", "sgp4-by-reference", SGP4, "        self._orbit = orbit.copy()", "        self._orbit = orbit", "D4")
M("C08", "ephem-no-invalidate", EPH, "        for orb in self:\n            orb.form = form\n        self._reset_interp()", "        for orb in self:\n            orb.form = form", "D4")
M("C08", "cw-copy-drops-frame", CW, "        return self.__class__(self.sma, frame=self.frame)", "        return self.__class__(self.sma)", "D8")
M("C08", "dates-attr", KN, "            dates = list(dates)\n            start = dates[0]\n            stop = dates[-1]", "            start = dates.start\n            stop = dates.stop", "R08.6")
M("C08", "native-step-no-copy", EPH, "                    yield orb.copy()", "                    yield orb", "R08.1")
M("C08", "inclusive-dropped", BASE, "            for date in Date.range(start, stop, step, inclusive=True):", "            for date in Date.range(start, stop, step):", "R08.1")

# ---- C09
M("C09", "range-exclusive", INTERP, "        if not (self.xs[0] <= x <= self.xs[-1]):", "        if not (self.xs[0] <= x < self.xs[-1]):", "R09.1")
M("C09", "swallowed", INTERP, "            else:\n                raise e", "            else:\n                return None", "R09.1")
M("C09", "label-mjd", INTERP, "            return super().__call__(date._mjd)", "            return super().__call__(date.mjd)", "R09.1")
M("C09", "bisect-nonstrict", INTERP, "            if x > xs[k]:", "            if x >= xs[k]:", "R09.4")
M("C08", "bisect-nonstrict", INTERP, "            if x > xs[k]:", "            if x >= xs[k]:", "R09.4")
M("C09", "isclose-bounds", INTERP, "        if not (self.xs[0] <= x <= self.xs[-1]):", "        if not (self.xs[0] <= x <= self.xs[-1] or np.isclose(x, self.xs[-1])):", "R09.1")
M("C09", "window-stop", INTERP, "        stop = prev_idx + 1 + self.order // 2 + self.order % 2", "        stop = prev_idx + 1 + self.order // 2", "R09.3")
M("C09", "edge-shift", INTERP, "            start -= stop - len(self.ys)", "            start -= stop - len(self.ys) + 1", "R09.3")
M("C09", "linear-formula", INTERP, "        return y0 + (y1 - y0) * (x - x0) / (x1 - x0)", "        return y0 + (y1 - y0) * (x - x1) / (x1 - x0)", "R09.4")
M("C09", "wrong-frame-label", EPH, "        return StateVector(self.interp(date), date, self.form, self.frame)", "        return StateVector(self.interp(date), date, self.form, self._orbits[-1].frame)", "R09.2")

# ---- C10
M("C10", "visibility-converts-in-place", STATIONS, "            point = point.copy(frame=self, form=\"spherical\")\n", "            point.frame = self\n            point.form = \"spherical\"\n", "R10.8")
M("C10", "clear-conditional", BASE, "        self.clear_listeners(listeners)\n", "        if listeners:\n            pass\n", "R10.1")
M("C10", "prev-only-on-event", LIS, "            # Saving of the current value for the next iteration\n            listener.prev = orb", "                # Saving of the current value for the next iteration\n                listener.prev = orb", "R10.2")
M("C10", "unsorted", LIS, "        return sorted(results, key=lambda x: x.date)", "        return results", "R10.2")
M("C10", "bisect-side", LIS, "            if listener(begin) * listener(orb) > 0:\n                begin = orb\n            else:\n                end = orb", "            if listener(begin) * listener(orb) > 0:\n                end = orb\n            else:\n                begin = orb", "R10.3")
M("C10", "bisect-polarity", LIS, "        while abs(step) >= self._eps_bisect:", "        while abs(step) <= self._eps_bisect:", "R10.3")
M("C10", "check-override-replaces", LIS, "        if orb2.phi <= 0 or orb2.phi_dot > 0:\n            return False\n        else:\n            return super().check(orb)", "        if orb2.phi <= 0 or orb2.phi_dot > 0:\n            return False\n        else:\n            return True", "R10.4")
M("C10", "node-label", LIS, 'return NodeEvent(self, "Desc Node" if orb.phi_dot < 0 else "Asc Node")', 'return NodeEvent(self, "Desc Node" if orb.phi_dot > 0 else "Asc Node")', "R10.5")
M("C10", "node-label-frame", LIS, '        orb = orb.copy(frame=self.frame, form="spherical")\n        return NodeEvent(', '        orb = orb.copy(form="spherical")\n        return NodeEvent(', "R10.5")
M("C10", "visibility-mutates", STATIONS, '        listeners = kwargs["listeners"] = list(kwargs.get("listeners", []))', '        listeners = kwargs.setdefault("listeners", [])', "R10.6")
M("C10", "events-after-sample", BASE, "            for listen_orb in self.listen(orb, listeners):\n                yield listen_orb\n            yield orb", "            yield orb\n            for listen_orb in self.listen(orb, listeners):\n                yield listen_orb", "R10.2")

# ---- C11
M("C11", "axes-lon-sign", ORIENT, "        self._m = rot3(-lon) @ rot2(lat - np.pi / 2.0) @ rot3(np.pi)", "        self._m = rot3(lon) @ rot2(lat - np.pi / 2.0) @ rot3(np.pi)", "R11.1")
M("C11", "geodetic-z", STATIONS, "        S = C * (1 - Earth.e**2)", "        S = C * (1 - Earth.e)", "R11.2")
M("C11", "radians-all", STATIONS, "    latlonalt[:2] = np.radians(latlonalt[:2])", "    latlonalt[:3] = np.radians(latlonalt[:3])", "R11.3")
M("C11", "mask-wrap", STATIONS, "        if next_i - 1 == -1:\n            x0 = 0", "        if next_i - 1 == -1:\n            x0 = x0", "R11.4")
M("C11", "range-legs", MEAS, "orb.copy(frame=self.frame, form=\"spherical\").r * (len(self.path) - 1),", "orb.copy(frame=self.frame, form=\"spherical\").r * len(self.path),", "R11.5")
M("C11", "azimut-phi", MEAS, 'self.path, orb.date, orb.copy(frame=self.frame, form="spherical").theta', 'self.path, orb.date, orb.copy(frame=self.frame, form="spherical").phi', "R11.5")

# ---- C12
M("C12", "reader-slice", TLE, "        self.revolutions = int(second[63:68])", "        self.revolutions = int(second[64:68])", "R12.1")
M("C12", "writer-width", TLE, "{M:8.4f} {n:11.8f}{revolutions:>5}", "{M:8.4f} {n:12.8f}{revolutions:>4}", "R12.1")
M("C12", "unfloat-separate-rounding", TLE, '    num, _, exp = f"{flt:.{precision - 1}e}".partition("e")\n    exp = int(exp)\n    num = num.replace(".", "")\n', '    exp = int(np.floor(np.log10(abs(flt))))\n    num = f"{flt / 10 ** exp:.{precision - 1}f}".replace(".", "")\n', "R12.2")
M("C12", "float-sign-lost", TLE, '        text = f"{text[0]}.{text[1:]}"', '        text = f"+.{text[1:]}"', "R12.2")
R("C12", "unfloat-renamed-locals", TLE, '    num, _, exp = f"{flt:.{precision - 1}e}".partition("e")\n    exp = int(exp)\n    num = num.replace(".", "")\n\n    return f"{num}{exp+1:+d}"', '    mant, _, expo = f"{flt:.{precision - 1}e}".partition("e")\n    expo = int(expo)\n    mant = mant.replace(".", "")\n\n    return f"{mant}{expo+1:+d}"')
M("C12", "ndot-scale", TLE, "        self.ndot = float(first[33:43]) * 2", "        self.ndot = float(first[33:43])", "R12.2")
M("C12", "validation-late", TLE, "        self._check_validity(text)\n        self.text", "        self.text", "R12.3")
M("C12", "checksum-minus", TLE, 'no_letters = line[:68].translate(tr_table).replace("-", "1")', 'no_letters = line[:68].translate(tr_table).replace("-", "0")', "R12.3")
M("C12", "cache-not-reset", TLE, "                        log.warning(str(e))\n\n                cache = []", "                        log.warning(str(e))\n                        continue\n\n                cache = []", "R12.3")
M("C12", "length-68", TLE, "            if len(line) != 69:", "            if len(line) < 69:", "R12.1")

# ---- C13
M("C13", "xml-key-typo", OPM, '    epoch = ET.SubElement(statevector, "EPOCH")', '    epoch = ET.SubElement(statevector, "EPOCH_")', "B2")
M("C13", "kvn-only-key", OMM, "MEAN_ANOMALY         = {M:8.4f} [deg]", "MEAN_ANOMALI         = {M:8.4f} [deg]", "B2")
M("C13", "unit-mismatch", OPM, '        vx = decode_unit(data, "X_DOT", "km/s")\n        vy = decode_unit(data, "Y_DOT", "km/s")\n        vz = decode_unit(data, "Z_DOT", "km/s")\n        x = decode_unit(data, "X", "km")', '        vx = decode_unit(data, "X_DOT", "km/s")\n        vy = decode_unit(data, "Y_DOT", "km/s")\n        vz = decode_unit(data, "Z_DOT", "km/s")\n        x = decode_unit(data, "X", "s")', "B3")
M("C13", "cov-key-swap", CCOV, '            data["CZ_DOT_X"].text,\n        ],\n        [\n            data["CY_X"].text,', '            data["CZ_DOT_Y"].text,\n        ],\n        [\n            data["CY_X"].text,', "B4")
M("C13", "cov-alias-dropped", OEM, '                    if frame == "QSW":\n                        frame = "RSW"\n                    cov_text.append', '                    cov_text.append', "B5")
M("C13", "man-alias-dropped", OPM, '        if man_frame in ("RSW", "RTN"):\n            man_frame = "QSW"\n        man["frame"]', '        man["frame"]', "B5")
M("C13", "singleton", OEM, "            if isinstance(statevectors, dict):\n                statevectors = [statevectors]\n", "", "B7")
M("C13", "doppler-reader", TDM, '            elif key == "DOPPLER_INSTANTANEOUS":\n                obj = Doppler(path, date, value)\n', "", "B9")
M("C13", "body-deref", OPM, "        kep\n        and cart.frame.center.body is not None\n        and cart.frame.orientation in (G50, EME2000, GCRF, MOD, TOD, TEME, CIRF)\n    ):\n        kep = data.copy(form=\"keplerian\")\n        text +=", "        kep\n        and cart.frame.orientation in (G50, EME2000, GCRF, MOD, TOD, TEME, CIRF)\n    ):\n        kep = data.copy(form=\"keplerian\")\n        text +=", "N1")
M("C13", "dispatch-swap", "beyond/io/ccsds/ccsds.py", '    elif type == "opm":\n        func = opm.loads', '    elif type == "opm":\n        func = omm.loads', "B1")
M("C13", "center-rule", COMMONS, '    if re.search(r"Barycenter|L\\d", center_txt):', '    if "Barycenter" in center_txt:', "B1")
M("C13", "omm-ndot-factor", OMM, '                "ndot": decode_unit(tle_params, "MEAN_MOTION_DOT", "rev/day**2") * 2,', '                "ndot": decode_unit(tle_params, "MEAN_MOTION_DOT", "rev/day**2"),', "B3")
M("C13", "oem-row", OEM, '                    cov["CY_X"] = Field(values[0], {})\n                    cov["CY_Y"] = Field(values[1], {})', '                    cov["CY_Y"] = Field(values[0], {})\n                    cov["CY_X"] = Field(values[1], {})', "B4")

# ---- C14
M("C14", "snapshot-moved", COVF, '        self._data["frame"] = frame\n\n    @property\n    def _frame', '        self._data["frame"] = frame\n        if frame not in ("TNW", "QSW"):\n            self.orb.frame = frame\n\n    @property\n    def _frame', "R14.1")
M("C14", "m1-no-transpose", COVF, "            m1 = to_local(self.frame, self.orb).T", "            m1 = to_local(self.frame, self.orb)", "R14.2")
M("C14", "congruence-order", COVF, "        M = m2 @ m1", "        M = m1 @ m2", "R14.2")
M("C14", "no-transpose-right", COVF, "        cov = M @ self.base @ M.T", "        cov = M @ self.base @ M", "R14.2")
M("C14", "drag-new-frame", SV, "        if self.cov is not None and self.cov.frame == old_frame:", "        if self.cov is not None and self.cov.frame == new_frame:", "R14.3")
M("C14", "orb-frame-reassigned", COVF, "        self.base.setfield(cov, dtype=float)\n", "        self.base.setfield(cov, dtype=float)\n        self._orb_frame = frame\n", "R14.1")

# ---- C15
M("C15", "copy-shallow", SV, "            new_compl[k] = v.copy() if hasattr(v, \"copy\") else v", "            new_compl[k] = v", "R15.1")
M("C15", "as-orbit-shallow", SV, "        new_dict = self.copy()._data\n        new_dict[\"propagator\"]", "        new_dict = self._data.copy()\n        new_dict[\"propagator\"]", "R15.1")
M("C15", "form-label-first", SV, "        self.base.setfield(self._data[\"form\"](self, new_form), dtype=float)\n        self._data[\"form\"] = new_form", "        old = self._data[\"form\"]\n        self._data[\"form\"] = new_form\n        self.base.setfield(old(self, new_form), dtype=float)", "R15.2")
M("C15", "frame-no-finally", SV, "            finally:\n                self.form = old_form", "            except Exception:\n                raise\n            self.form = old_form", "R15.2")
M("C15", "setattr-no-alias", SV, "            name = Form.alt.get(name, name)\n\n            # Verification if the variable is available in the current form\n            if name in self.form.param_names:\n                i = self.form.param_names.index(name)\n                self[i] = value", "            # Verification if the variable is available in the current form\n            if name in self.form.param_names:\n                i = self.form.param_names.index(name)\n                self[i] = value", "R15.3")
M("C15", "finalize-shares-dict", SV, '        object.__setattr__(self, "_data", obj._data.copy())', '        object.__setattr__(self, "_data", obj._data)', "R15.4")
M("C15", "setstate-key", SV, '        object.__setattr__(self, "_data", state["data"])', '        object.__setattr__(self, "_data", state["_data"])', "R15.4")
M("C15", "copy-writes-self", SV, "        if frame and frame != self.frame:\n            new_obj.frame = frame", "        if frame and frame != self.frame:\n            self.frame = frame\n            new_obj.frame = frame", "R15.1")

# ---- C16
M("C16", "phi-entry", CW, "[6 * n * (cs - 1), 0, 0, -2 * sn, 4 * cs - 3, 0],", "[6 * n * (cs - 1), 0, 0, -2 * sn, 4 * cs - 4, 0],", "R16.1")
M("C16", "psi-entry", CW, "[2 / n * (cs - 1), (4 * sn - 3 * nt) / n, 0],\n                [0, 0, sn / n],\n            ]\n        )\n\n        if self.frame", "[2 / n * (cs - 1), (4 * sn - 3 * nt) / n ** 2, 0],\n                [0, 0, sn / n],\n            ]\n        )\n\n        if self.frame", "R16.1")
M("C16", "permutation", CW, "    QSW2TNW = np.array([[0, 1, 0], [-1, 0, 0], [0, 0, 1]])", "    QSW2TNW = np.array([[0, 1, 0], [1, 0, 0], [0, 0, 1]])", "R16.2")
M("C16", "window-onesided", CW, "if isinstance(man, ImpulsiveMan) and self.orbit.date < man.date <= date:", "if isinstance(man, ImpulsiveMan) and man.date <= date:", "R16.3")
M("C16", "window-closed-at-epoch", CW, "if isinstance(man, ImpulsiveMan) and self.orbit.date < man.date <= date:", "if isinstance(man, ImpulsiveMan) and self.orbit.date <= man.date <= date:", "R16.3")
M("C16", "impulse-on-position", CW, "                orb[3:] += man.dv(orb)", "                orb[:3] += man.dv(orb)", "R16.3")
M("C16", "mean-motion", CW, "            self._n = np.sqrt(self.frame.center.body.µ / self.sma ** 3)", "            self._n = np.sqrt(self.frame.center.body.µ / self.sma ** 2)", "R16.1")
L("C16", "refactor-entry", CW, "[4 - 3 * cs, 0, 0, sn / n, 2 / n * (1 - cs), 0],", "[4 - cs * 3, 0, 0, sn / n, (2 - 2 * cs) / n, 0],")

# ---- C17
M("C17", "tnw-handedness", LOCAL, "    n = np.cross(w, t)\n", "    n = np.cross(t, w)\n", "R17.1")
M("C17", "qsw-first-axis", LOCAL, "    q = pos / norm(pos)", "    q = vel / norm(vel)", "R17.1")
M("C17", "row-order", LOCAL, "    return np.array([q, s, w])", "    return np.array([q, w, s])", "R17.1")
M("C17", "dv-no-transpose", MAN, "            mat = to_local(self.frame, orb, expanded=False).T\n        else:\n            mat = np.identity(3)\n\n        # velocity increment", "            mat = to_local(self.frame, orb, expanded=False)\n        else:\n            mat = np.identity(3)\n\n        # velocity increment", "R17.2")
M("C17", "impulse-window", MAN, "        return date < self.date <= date + step", "        return date <= self.date <= date + step", "R17.3")
M("C17", "burn-window", MAN, "        return self.start <= date < self.stop", "        return self.start < date < self.stop", "R17.3")
M("C17", "dkep-da", MAN, "    dv_a = µ * da / (2 * v * a ** 2)", "    dv_a = µ * da / (2 * v * a)", "R17.4")
M("C17", "accel-duration", MAN, "            self._accel = self._dv / self.duration.total_seconds()\n        elif len(accel)", "            self._accel = self._dv * self.duration.total_seconds()\n        elif len(accel)", "R17.4")

# ---- C18
M("C18", "diff-step", SOL, "x[3:] = (x1[:3] - x0[:3]) / (2 * cls._diff_step.total_seconds())", "x[3:] = (x1[:3] - x0[:3]) / cls._diff_step.total_seconds()", "R18.1")
M("C18", "moon-coefficient", SOL, "            + 6.29 * sin(134.9 + 477198.85 * t_tdb)", "            + 6.92 * sin(134.9 + 477198.85 * t_tdb)", "R18.2")
M("C18", "moon-rotation", SOL, "cos(e_bar) * cos(phi_el) * sin(lambda_el) - sin(e_bar) * sin(phi_el),", "cos(e_bar) * cos(phi_el) * sin(lambda_el) + sin(e_bar) * sin(phi_el),", "R18.2")
M("C18", "sun-scale", SOL, '        date = date.change_scale("UT1")\n        t_ut1', '        date = date.change_scale("TT")\n        t_ut1', "R18.2")
M("C18", "jpl-sign", JPL, "            sign = -1\n        else:", "            sign = 1\n        else:", "R18.3")
M("C18", "jpl-days", JPL, "            pv = np.concatenate((pos, vel / S_PER_DAY))", "            pv = np.concatenate((pos, vel))", "R18.3")
M("C18", "jpl-utc", JPL, '        date = date.change_scale("TDB")\n\n        if (self.obj.index', '        date = date.change_scale("TT")\n\n        if (self.obj.index', None)

# ---- C19
M("C19", "lambert-polarity", LAM, "        if abs(ratio) < tol:", "        if abs(ratio) > tol:", "R19.1")
M("C19", "stumpff", LAM, "        s = (np.sqrt(z) - np.sin(np.sqrt(z))) / (np.sqrt(z)) ** 3", "        s = (np.sqrt(z) - np.sin(np.sqrt(z))) / (np.sqrt(z)) ** 2", "R19.1")
M("C19", "ltan-modulus", LTAN, "    return (43200 + (raan - sun_raan) * 43200 / np.pi) % 86400", "    return (43200 + (raan - sun_raan) * 86400 / np.pi) % 86400", "R19.2")
M("C19", "sso-arm", LEO, "        return (-3 / 2 * cst * np.cos(i) / (ω_e * (1 - e ** 2) ** 2)) ** (2 / 7)", "        return (-3 / 2 * cst * np.cos(i) / (ω_e * (1 - e ** 2))) ** (2 / 7)", "R19.2")
M("C19", "walker-phasing", CONS, "            + self.spacing * (self.raan(i_plane) - self.raan0) / self.per_plane\n        )\n", "            + self.spacing * (self.raan(i_plane) - self.raan0) / self.planes\n        )\n", "R19.2")
M("C19", "walker-star-spacing", CONS, "        return np.pi / self.planes * i_plane + self.raan0", "        return 2 * np.pi / self.planes * i_plane + self.raan0", "R19.2")
M("C19", "beta-cos", BETAU, "    return np.arcsin(w @ ref_pos / (np.linalg.norm(w) * np.linalg.norm(ref_pos)))", "    return np.arccos(w @ ref_pos / (np.linalg.norm(w) * np.linalg.norm(ref_pos)))", "R19.3")
M("C19", "bplane-R", INTER, "    R = np.cross(S, T)\n\n    B_norm", "    R = np.cross(T, S)\n\n    B_norm", "R19.3")

HELPER = "beyond/utils/cwhelper.py"
M("C16", "helper-hohmann-dv", HELPER, "        dv = (self._mat3 @ [0, 1, 0]) * radial * self.n / 4", "        dv = (self._mat3 @ [0, 1, 0]) * radial * self.n / 2", "R16.4")
M("C16", "helper-hohmann-distance", HELPER, "        res = radial * 3 * np.pi / 4", "        res = radial * 3 * np.pi / 2", "R16.4")
M("C16", "helper-tangential", HELPER, "tangential * self.n / (6 * np.pi)", "tangential * self.n / (3 * np.pi)", "R16.4")
M("C16", "helper-vbar-accel", HELPER, "        accel = (self._mat3 @ [-1, 0, 0]) * 2 * self.n * dv", "        accel = (self._mat3 @ [-1, 0, 0]) * self.n * dv", "R16.4")
M("C16", "helper-eccentric-axis", HELPER, "        dv = (self._mat3 @ [-1, 0, 0]) * tangential * self.n / 4", "        dv = (self._mat3 @ [1, 0, 0]) * tangential * self.n / 4", "R16.4")
M("C16", "helper-coelliptic", HELPER, "        return 1.5 * self.n * radial", "        return 2 * self.n * radial", "R16.4")

M("C01", "kep2cart-vz-sign", FORMS, "vz = z * h * e / (r * p) * sin(ν) + h / r * sin(i) * cos(ω + ν)", "vz = z * h * e / (r * p) * sin(ν) - h / r * sin(i) * cos(ω + ν)", "R01.11")
M("C01", "kep2cart-x", FORMS, "x = r * (cos(Ω) * cos(ω + ν) - sin(Ω) * sin(ω + ν) * cos(i))", "x = r * (cos(Ω) * cos(ω + ν) + sin(Ω) * sin(ω + ν) * cos(i))", "R01.11")
M("C01", "kep2cart-r", FORMS, "        r = p / (1 + e * cos(ν))\n        h = sqrt(body.µ * p)", "        r = p / (1 - e * cos(ν))\n        h = sqrt(body.µ * p)", "R01.11")
M("C01", "equi-inclination", FORMS, "        i = 2 * arctan(sqrt(ix ** 2 + iy ** 2))", "        i = arctan(sqrt(ix ** 2 + iy ** 2))", "R01.10")
M("C01", "equi-arctan-args", FORMS, "        ω = (arctan2(ey, ex) - Ω) % (2 * np.pi)", "        ω = (arctan2(ex, ey) - Ω) % (2 * np.pi)", "R01.10")
M("C01", "circ-anomaly", FORMS, "        ω = arctan2(ey / e, ex / e)\n        ν = u - ω", "        ω = arctan2(ey / e, ex / e)\n        ν = u + ω", "R01.10")
M("C01", "equi-encoder", FORMS, "        iy = tan(i / 2) * sin(Ω)", "        iy = tan(i / 2) * sin(ω)", "R01.10")
R("C01", "refactor-kep2cart", FORMS, "        z = r * sin(i) * sin(ω + ν)", "        u_ = ω + ν\n        z = sin(u_) * r * sin(i)")

M("C02", "precession-coefficient", I80, "    zeta = (2306.2181 * t + 0.30188 * t ** 2 + 0.017998 * t ** 3) / 3600.0", "    zeta = (2306.2181 * t + 0.30188 * t ** 2 + 0.017989 * t ** 3) / 3600.0", "R02.8")
M("C02", "era-rate", I10, "1.00273781191135448", "1.00273781191135484", "R02.8")

M("C01", "cart2kep-node", FORMS, "        Ω = arctan2(h[0], -h[1]) % (2 * np.pi)", "        Ω = arctan2(h[1], -h[0]) % (2 * np.pi)", "R01.13")
M("C01", "cart2kep-anomaly", FORMS, "ν = arctan2(sqrt(p / body.µ) * np.dot(v, r), p - r_norm) % (2 * np.pi)", "ν = arctan2(sqrt(p / body.µ) * np.dot(v, r), r_norm - p) % (2 * np.pi)", "R01.13")
M("C01", "cart2kep-sma", FORMS, "        a = -body.µ / (2 * K)  # semi-major axis", "        a = -body.µ / K  # semi-major axis", "R01.13")
M("C01", "cart2kep-energy", FORMS, "        K = v_norm ** 2 / 2 - body.µ / r_norm  # specific energy", "        K = v_norm ** 2 - body.µ / r_norm  # specific energy", "R01.13")
M("C01", "cart2kep-perigee", FORMS, "        ω = (ω_ν - ν) % (2 * np.pi)  # argument of the perigee", "        ω = (ω_ν + ν) % (2 * np.pi)  # argument of the perigee", "R01.13")
M("C01", "cart2kep-inclination", FORMS, "        i = arccos(h[2] / h_norm)  # inclination", "        i = arccos(h[1] / h_norm)  # inclination", "R01.13")

M("C10", "umbra-cone", LIS, "                    umb_vert = np.tan(alpha_umb) * (y - sat_horiz)", "                    umb_vert = np.tan(alpha_umb) * (y + sat_horiz)", "R10.7")
M("C10", "sun-side", LIS, "        if x_sun @ x_sat < 0:", "        if x_sun @ x_sat > 0:", "R10.7")
M("C10", "terminator-label", LIS, '        if orb2.r_dot > 0:\n            msg = "Night Terminator"', '        if orb2.r_dot < 0:\n            msg = "Night Terminator"', "R10.7")
M("C13", "man-dv-index", OPM, 'x.text = f"{man._dv[i] / units.km:.6f}"', 'x.text = f"{man._dv[i - 1] / units.km:.6f}"', "B11")
M("C13", "omm-element-order", OMM, "            elements = [i, Omega, e, omega, M, n]\n            form = \"TLE\"\n            propagator = \"Sgp4\"\n            kwargs = {\n                \"bstar\": decode_unit(data,", "            elements = [i, omega, e, Omega, M, n]\n            form = \"TLE\"\n            propagator = \"Sgp4\"\n            kwargs = {\n                \"bstar\": decode_unit(data,", "B11")
M("C13", "kvn-unit-bracket", COMMONS, '            attrib = {"units": unit.rstrip("]")}', '            attrib = {"units": unit}', "B12")
M("C17", "dkep2aol-args", MAN, "    return np.arctan2(dOmega * np.sin(orb.infos.kep.i), di)", "    return np.arctan2(di, dOmega * np.sin(orb.infos.kep.i))", "R17.4")

M("C07", "operator-change", BETA, "        a1 = (k_e / n0) ** (2 / 3)", "        a1 = (k_e * n0) ** (2 / 3)", "R07.3")
M("C07", "dropped-factor", BETA, "        rdot = sqrt(a) / r * esinE", "        rdot = sqrt(a) * esinE", "R07.3")
R("C07", "refactor-rename-temp", BETA, "        rfdot = sqrt(p_L) / r\n", "        rfdot = sqrt(p_L) / r\n        unused_alias = rfdot\n")
M("C18", "sun-formula", SOL, "        r = 1.000140612 - 0.016708617 * np.cos(M) - 0.000139589 * np.cos(2 * M)", "        r = 1.000140612 - 0.016708617 * np.sin(M) - 0.000139589 * np.cos(2 * M)", "R18.2")
M("C02", "nutation-argument-sign", I80, "        - (5 * r + 134.1362608) * ttt\n        + 0.0020708 * ttt ** 2\n        + 2.2e-6 * ttt ** 3", "        + (5 * r + 134.1362608) * ttt\n        + 0.0020708 * ttt ** 2\n        + 2.2e-6 * ttt ** 3", "R02.8")
R("C02", "refactor-commute", I80, "    theta = (2004.3109 * t - 0.42665 * t ** 2 - 0.041833 * t ** 3) / 3600.0", "    theta = (t * 2004.3109 - 0.42665 * t * t - t ** 3 * 0.041833) / 3600.0")

# rename-only refactors: the alpha-restoring loader must make every rule blind to them
R("C03", "rename-locals-add", DATE, "            days, sec = divmod(other.total_seconds() + self.s, 86400)\n        else:\n            raise TypeError(f\"Unknown operation with {type(other)}\")\n\n        return self.__class__(self.d + int(days), sec, scale=self.scale)", "            dd, ss = divmod(other.total_seconds() + self.s, 86400)\n        else:\n            raise TypeError(f\"Unknown operation with {type(other)}\")\n\n        return self.__class__(self.d + int(dd), ss, scale=self.scale)")
CORPUS.setdefault("C06", []).append(("rename-locals-make-step", "silent", [
    (KN, "            p_error = linalg.norm(error[:3])", "            perr = linalg.norm(error[:3])"),
    (KN, "            if p_error <= self.tol:", "            if perr <= self.tol:"),
    (KN, "step * (self.tol / (2 * p_error)) ** (1 / (len(bb) - 1))", "step * (self.tol / (2 * perr)) ** (1 / (len(bb) - 1))"),
], None))

# ---- rules added from mutation testing of the checks and from the third seeded wave (SIG / PIN / MEMO / B13 / D4 / R08.1)
IAU80 = "beyond/frames/iau1980.py"
M("C02", "nutation-default-terms", IAU80, "def nutation(date, eop_correction=True, terms=106):", "def nutation(date, eop_correction=True, terms=4):", "SIG")
M("C06", "default-tolerance", KN, "method=RK4, frame=FRAME, tol=1e-3):", "method=RK4, frame=FRAME, tol=1e-1):", "SIG")
R("C06", "default-tolerance-respelt", KN, "method=RK4, frame=FRAME, tol=1e-3):", "method=RK4, frame=FRAME, tol=0.001):")
M("C10", "mask-gate-threshold", LIS, "        if orb2.phi <= 0:\n            return False\n        else:\n            return super().check(orb)", "        if orb2.phi <= 0.1:\n            return False\n        else:\n            return super().check(orb)", "PIN")
M("C12", "year-pivot", TLE, "            year += 1900 if year >= 57 else 2000  # This condition works until 2057", "            year += 1900 if year >= 75 else 2000", "PIN")
M("C16", "helper-orientation-product", HELPER, "dv = (self._mat3 @ [0, -1, 0]) * tangential", "dv = ([0, -1, 0] @ self._mat3) * tangential", "PIN")
M("C08", "stop-on-boundary-refused", EPH, "                if stop > self.stop:", "                if stop >= self.stop:", "R08.1")
CORPUS.setdefault("C02", []).append(("orientation-matrix-cache", "fire", [
    (ORIENT, "        m = np.identity(6)\n", "        key = (self.name, new_orient, date)\n        if key in self._mcache:\n            return self._mcache[key]\n        m = np.identity(6)\n"),
    (ORIENT, "            m = M @ m\n\n        return m", "            m = M @ m\n\n        self._mcache[key] = m\n        return m")], "MEMO"))
M("C06", "orbit-kept-by-reference", KN, "        self._orbit = orbit.copy(form=\"cartesian\", frame=self.frame)", "        if str(orbit.form) == \"cartesian\":\n            self._orbit = orbit\n        else:\n            self._orbit = orbit.copy(form=\"cartesian\", frame=self.frame)", "D4")
M("C13", "continuous-written-by-anchor-date", OPM, "                date = man.start\n                duration = man.duration.total_seconds()\n            else:\n                date = man.date\n                duration = 0\n\n            # All dates of the message are expressed in its TIME_SYSTEM\n            date = date.change_scale(data.date.scale.name)\n\n            text +=",
  "                date = man.date\n                duration = man.duration.total_seconds()\n            else:\n                date = man.date\n                duration = 0\n\n            # All dates of the message are expressed in its TIME_SYSTEM\n            date = date.change_scale(data.date.scale.name)\n\n            text +=", "B13")
M("C19", "stumpff-hyperbolic", LAM, "np.cosh(np.sqrt(-z)) - 1", "np.cosh(np.sqrt(-z)) + 1", "PIN")

# ---- DEP (direct dependencies outside the anchored files) and FILE over class- and module-level names (wave f)
CONFIG = "beyond/config.py"
CONSTS = "beyond/constants.py"
M("C15", "alias-table-entry", FORMS, '        "maol": "α",', '        "maol": "u",', "DEP")
R("C15", "alias-table-unrelated-class-attribute", FORMS, '    alt = {\n        "theta": "θ",', '    _doc_url = "https://example.invalid/forms"\n\n    alt = {\n        "theta": "θ",')
M("C01", "alias-table-entry", FORMS, '        "maol": "α",', '        "maol": "u",', "FILE")
M("C03", "config-set-keeps-old-value", CONFIG, "        subdict[last_key] = value", "        subdict.setdefault(last_key, value)", "DEP")
M("C17", "vis-viva-abs-sma", SV, "return np.sqrt(self.mu * (2 / self.r - 1 / self.kep.a))", "return np.sqrt(self.mu * (2 / self.r - 1 / abs(self.kep.a)))", "DEP")
M("C01", "mars-mu-shadow", CONSTS, 'Mars = Body(name="Mars", mass=6.4171e23, equatorial_radius=3396200.0)', 'Mars = Body(name="Mars", mass=6.4171e23, equatorial_radius=3396200.0, µ=4.282837e13)', "DEP")
R("C01", "constants-new-body", CONSTS, 'Mars = Body(name="Mars", mass=6.4171e23, equatorial_radius=3396200.0)', 'Mars = Body(name="Mars", mass=6.4171e23, equatorial_radius=3396200.0)\nCeres = Body(name="Ceres", mass=9.3835e20, equatorial_radius=469730.0)')
M("C06", "date-eq-tolerant", DATE, "        return self._mjd == other._mjd\n", "        return abs(self._mjd - other._mjd) < 1e-4\n", "DEP")
M("C20", "frame-setter-label-after-form", SV, '                self._data["frame"] = new_frame\n            finally:\n                self.form = old_form\n', '            finally:\n                self.form = old_form\n            self._data["frame"] = new_frame\n', "DEP")

# ---- refactors E8 proves (must stay silent with the generic clauses armed)
R("C01", "infos-temporary", SV, "return self.kep.a * (1 - self.kep.e)", "sma = self.kep.a\n        return sma * (1 - self.kep.e)")
R("C02", "precession-temporaries", I80, "    theta = (2004.3109 * t - 0.42665 * t ** 2 - 0.041833 * t ** 3) / 3600.0", "    theta_as = 2004.3109 * t - 0.42665 * t ** 2 - 0.041833 * t ** 3\n    theta = theta_as / 3600.0")
R("C03", "contains-early-return", DATE, "            if self.inclusive:\n                return self.stop <= date <= self.start\n            else:\n                return self.stop < date <= self.start", "            if self.inclusive:\n                return self.stop <= date <= self.start\n            return self.stop < date <= self.start")
R("C05", "rate-temporary", J2, "        dΩ = -3 / 2 * com * np.cos(i)", "        cos_i = np.cos(i)\n        dΩ = -3 / 2 * com * cos_i")
R("C16", "entry-renamed-locals", CW, "        nt = n * t\n        cs = np.cos(nt)\n        sn = np.sin(nt)", "        nt = n * t\n        cs, sn = np.cos(nt), np.sin(nt)")

# ---- DEFS (a definition removed, or added under a name already in use: wave g)
M("C08", "base-default-copy-removed", BASE, "    def copy(self):\n        return self.__class__()\n\n", "", "DEFS")
M("C10", "mask-listener-inherits-label", LIS, '    def info(self, orb):\n        return self.event(self, "AOS" if self(orb) > self(self.prev) else "LOS")\n\n    def check(self, orb):\n        # Override to disable', '    def check(self, orb):\n        # Override to disable', "DEFS")
M("C03", "date-eq-hook-added-in-subclass-position", DATE, "    def __eq__(self, other):\n        return self._mjd == other._mjd\n", "    def __eq__(self, other):\n        return self._mjd == other._mjd\n\n    def __ne__(self, other):\n        return abs(self._mjd - other._mjd) > 1e-9\n", "DEFS")
R("C08", "new-private-helper-new-name", BASE, "    def copy(self):\n        return self.__class__()\n", "    def copy(self):\n        return self._blank()\n\n    def _blank(self):\n        return self.__class__()\n")

# ---- wave p: the offset core (C02, C20) and the time core on C15
M("C02", "orbitframe-origin-own-scale-clock", "beyond/propagators/kepler.py", "        delta_t = (date - self.orbit.date).total_seconds()", "        delta_t = (date.mjd - self.orbit.date.mjd) * 86400.0", "DEP")
M("C20", "body-offset-velocity-step", "beyond/env/solarsystem.py", "        x[3:] = (x1[:3] - x0[:3]) / (2 * cls._diff_step.total_seconds())", "        x[3:] = (x1[:3] - x0[:3]) / cls._diff_step.total_seconds()", "DEP")
M("C15", "date-unpickled-without-eop", DATE, '        super().__setattr__("eop", state["eop"])', '        super().__setattr__("eop", EopDb.get(self._mjd))', "R15.4")
R("C20", "body-offset-comment", "beyond/env/solarsystem.py", "        x[3:] = (x1[:3] - x0[:3]) / (2 * cls._diff_step.total_seconds())", "        # central difference\n        x[3:] = (x1[:3] - x0[:3]) / (2 * cls._diff_step.total_seconds())")
R("C15", "date-setstate-local", DATE, '        super().__setattr__("eop", state["eop"])', '        eop = state["eop"]\n        super().__setattr__("eop", eop)')

# ---- wave q: what the per-item copy calls (R15.6), and the Sun / Moon propagators behind C19
M("C15", "propagator-copy-returns-self", BASE, "    def copy(self):\n        return self.__class__()\n", "    def copy(self):\n        return self\n", "R15.6")
R("C15", "propagator-copy-through-local", BASE, "    def copy(self):\n        return self.__class__()\n", "    def copy(self):\n        cls = self.__class__\n        return cls()\n")
M("C19", "sun-velocity-step", "beyond/env/solarsystem.py", "        x[3:] = (x1[:3] - x0[:3]) / (2 * cls._diff_step.total_seconds())", "        x[3:] = (x1[:3] - x0[:3]) / cls._diff_step.total_seconds()", "DEP")
CORPUS.setdefault("C16", []).append(("coelliptic-mutable-default-handed-on", "fire", [
    ("beyond/utils/cwhelper.py", "    def coelliptic(self, date, radial, tangential):", "    def coelliptic(self, date, radial, tangential, maneuvers=[]):"),
    ("beyond/utils/cwhelper.py", "            propagator=self.propagator,\n        )\n\n    def hohmann_distance", "            propagator=self.propagator,\n            maneuvers=maneuvers,\n        )\n\n    def hohmann_distance"),
], "SIG"))
M("C15", "date-pickled-own-scale-day", DATE, '            "d": self._d,\n', '            "d": self.d,\n', "R15.4")
