"""Mutation corpus (must fire, naming the rule) and refactor corpus (must stay silent).
Each variant: (name, 'fire'|'silent', [(file, old, new), ...], expected rule or None)."""

CORPUS = {}


def M(prop, name, rel, old, new, rule):
    CORPUS.setdefault(prop, []).append((name, "fire", [(rel, old, new)], rule))


def R(prop, name, rel, old, new):
    CORPUS.setdefault(prop, []).append((name, "silent", [(rel, old, new)], None))


NODE = "beyond/utils/node.py"
ORIENT = "beyond/frames/orient.py"
CENTER = "beyond/frames/center.py"
STATIONS = "beyond/frames/stations.py"
FORMS = "beyond/orbits/forms.py"
DATE = "beyond/dates/date.py"
CW = "beyond/propagators/cw.py"

# ---- C20
M("C20", "add-oneway", NODE, "        other.neighbors[self] = None\n", "", "R20.3")
M("C20", "update-noreset", NODE, "        self.routes = {}\n        for node in self.neighbors:", "        for node in self.neighbors:", "R20.4")
M("C20", "route-steps", NODE, "Route(node, route.steps + 1)", "Route(node, route.steps)", "R20.4")
M("C20", "lock-dropped", NODE, "                node._update(already_updated)", "                node._update()", "R20.4")
M("C20", "path-neighbor", NODE, "obj = obj.routes[goal].direction", "obj = next(iter(obj.neighbors))", "R20.3")
M("C20", "station-other-parent", STATIONS, "        o + parent_frame.orientation", "        o + orient.EME2000", "R20.2")
M("C20", "loo-key-reversed", ORIENT, 'mtd = f"{name}_to_{parent.orientation.name}"', 'mtd = f"{parent.orientation.name}_to_{name}"', "R20.2")
M("C20", "center-key", CENTER, 'f"{self.name}_to_{center.name}"', 'f"{center.name}_to_{self.name}"', "R20.2")
M("C20", "forms-cycle", FORMS, "CART + CYL\n", "CART + CYL\nCYL + SPHE\n", "R20.1")
M("C20", "scales-disconnected", DATE, "TDB + TT + TAI\n", "TDB + TT\n", "R20.1")
M("C20", "routes-written-outside", CENTER, "        self.offset = offset\n", "        self.offset = offset\n        self.node.routes = {}\n", "R20.3")
R("C20", "comment-only", NODE, "        self._update()\n        return other", "        # refresh\n        self._update()\n        return other")
