"""E1/E2 — source model of /repo/beyond built from `ast` on every run.

Nothing in here imports or executes the repository.  The model gives: parsed
modules, a qualname index of functions/classes, import resolution, class
hierarchy with MRO, properties, class attributes, module-level assignments and
helpers to canonicalise statements.
"""
import ast
import os
from pathlib import Path


class AnalysisError(Exception):
    """Raised when the analysis cannot be carried out (exit 2, never a verdict)."""


def repo_root():
    return Path(os.environ.get("BVSTATIC_REPO", "/repo"))


def local_bindings(fnode):
    """Non-parameter local names of a function in source order of first binding (nested defs excluded)."""
    a = fnode.args
    params = {x.arg for x in a.posonlyargs + a.args + a.kwonlyargs}
    if a.vararg:
        params.add(a.vararg.arg)
    if a.kwarg:
        params.add(a.kwarg.arg)
    seen, order = set(), []

    class V(ast.NodeVisitor):
        def visit_FunctionDef(self, n):
            if n is fnode:
                for st in n.body:
                    self.visit(st)
            else:
                note(n.name)

        visit_AsyncFunctionDef = visit_FunctionDef

        def visit_ClassDef(self, n):
            note(n.name)

        def visit_Lambda(self, n):
            pass

        def visit_Name(self, n):
            if isinstance(n.ctx, ast.Store):
                note(n.id)

        def visit_ExceptHandler(self, n):
            if n.name:
                note(n.name)
            self.generic_visit(n)

    def note(name):
        if name not in params and name not in seen:
            seen.add(name)
            order.append(name)
    V().visit(fnode)
    return order


def alpha_restore(fnode, pinned):
    """Alpha-renaming normalisation: if the function binds the same number of locals as the pinned version but under other
    names, rename them back to the pinned names (consistent renaming of non-parameter locals preserves behaviour), so that
    the rules see one spelling.  Returns the number of names restored."""
    cur = local_bindings(fnode)
    if len(cur) != len(pinned) or cur == pinned:
        return 0
    mapping = {c: p for c, p in zip(cur, pinned) if c != p}
    # refuse ambiguous cases: not injective, or a pinned name is already used for something else in the function
    if len(set(mapping.values())) != len(mapping):
        return 0
    used = {n.id for n in ast.walk(fnode) if isinstance(n, ast.Name)} | {a.arg for a in ast.walk(fnode) if isinstance(a, ast.arg)}
    if any(p in used and p not in mapping for p in mapping.values()):
        return 0

    class R(ast.NodeTransformer):
        def visit_FunctionDef(self, n):
            if n is not fnode:
                if n.name in mapping:
                    n.name = mapping[n.name]
                # nested function: its own parameters shadow
                inner = {x.arg for x in n.args.posonlyargs + n.args.args + n.args.kwonlyargs}
                if inner & set(mapping):
                    return n
            self.generic_visit(n)
            return n

        def visit_Lambda(self, n):
            inner = {x.arg for x in n.args.args}
            if inner & set(mapping):
                return n
            self.generic_visit(n)
            return n

        def visit_Name(self, n):
            if n.id in mapping:
                n.id = mapping[n.id]
            return n

        def visit_ExceptHandler(self, n):
            if n.name in mapping:
                n.name = mapping[n.name]
            self.generic_visit(n)
            return n
    R().visit(fnode)
    return len(mapping)


class Func:
    __slots__ = ("module", "cls", "name", "node", "decorators")

    def __init__(self, module, cls, name, node):
        self.module = module
        self.cls = cls
        self.name = name
        self.node = node
        self.decorators = [ast.unparse(d) for d in node.decorator_list]

    @property
    def qualname(self):
        return f"{self.cls}.{self.name}" if self.cls else self.name

    @property
    def ref(self):
        return f"{self.module.rel}::{self.qualname}"

    @property
    def is_property(self):
        return "property" in self.decorators

    @property
    def is_setter(self):
        return any(d.endswith(".setter") for d in self.decorators)

    @property
    def is_classmethod(self):
        return "classmethod" in self.decorators

    def params(self):
        a = self.node.args
        return [x.arg for x in a.posonlyargs + a.args + a.kwonlyargs]

    def __repr__(self):
        return f"<Func {self.ref}>"


class Class:
    def __init__(self, module, node):
        self.module = module
        self.node = node
        self.name = node.name
        self.base_exprs = [ast.unparse(b) for b in node.bases]
        self.methods = {}      # name -> Func (getter for properties)
        self.setters = {}      # name -> Func
        self.attrs = {}        # class attribute -> value node
        for st in node.body:
            if isinstance(st, (ast.FunctionDef, ast.AsyncFunctionDef)):
                f = Func(module, self.name, st.name, st)
                if f.is_setter:
                    self.setters[st.name] = f
                else:
                    self.methods[st.name] = f
            elif isinstance(st, ast.Assign):
                for t in st.targets:
                    if isinstance(t, ast.Name):
                        self.attrs[t.id] = st.value
            elif isinstance(st, ast.AnnAssign) and isinstance(st.target, ast.Name) and st.value:
                self.attrs[st.target.id] = st.value

    @property
    def ref(self):
        return f"{self.module.rel}::{self.name}"

    def __repr__(self):
        return f"<Class {self.ref}>"


class Module:
    def __init__(self, repo, path):
        self.repo = repo
        self.path = path
        self.rel = str(path.relative_to(repo.root))
        self.name = self.rel[:-3].replace("/", ".")
        if self.name.endswith(".__init__"):
            self.name = self.name[: -len(".__init__")]
            self.is_pkg = True
        else:
            self.is_pkg = False
        self.source = path.read_text(encoding="utf-8")
        try:
            self.tree = ast.parse(self.source, filename=str(path))
        except SyntaxError as e:  # pragma: no cover
            raise AnalysisError(f"cannot parse {self.rel}: {e}")
        self.classes = {}
        self.functions = {}
        self.assigns = {}      # module-level name -> value node (last)
        self.imports = {}      # local name -> (module dotted, attr or None)
        self.restored = 0
        self._alpha_restore()
        self._index()

    def _alpha_restore(self):
        pinned = self.repo.pinned_locals.get(self.rel)
        if not pinned:
            return
        for st in self.tree.body:
            if isinstance(st, (ast.FunctionDef, ast.AsyncFunctionDef)) and st.name in pinned:
                self.restored += alpha_restore(st, pinned[st.name])
            elif isinstance(st, ast.ClassDef):
                seen = {}
                for m in st.body:
                    if isinstance(m, (ast.FunctionDef, ast.AsyncFunctionDef)):
                        is_setter = any(ast.unparse(d).endswith(".setter") for d in m.decorator_list)
                        key = f"{st.name}.{m.name}" + (":setter" if is_setter else "")
                        if key in pinned:
                            self.restored += alpha_restore(m, pinned[key])

    def _pkg(self):
        return self.name if self.is_pkg else self.name.rpartition(".")[0]

    def _index(self):
        for st in self.tree.body:
            self._index_stmt(st)

    def _index_stmt(self, st):
        if isinstance(st, ast.ClassDef):
            self.classes[st.name] = Class(self, st)
        elif isinstance(st, (ast.FunctionDef, ast.AsyncFunctionDef)):
            self.functions[st.name] = Func(self, None, st.name, st)
        elif isinstance(st, ast.Assign):
            for t in st.targets:
                if isinstance(t, ast.Name):
                    self.assigns[t.id] = st.value
        elif isinstance(st, ast.Import):
            for a in st.names:
                self.imports[a.asname or a.name.split(".")[0]] = (a.name, None)
        elif isinstance(st, ast.ImportFrom):
            base = st.module or ""
            if st.level:
                pkg = self._pkg().split(".")
                if st.level > 1:
                    pkg = pkg[: -(st.level - 1)]
                base = ".".join(pkg + ([st.module] if st.module else []))
            for a in st.names:
                self.imports[a.asname or a.name] = (base, a.name)
        elif isinstance(st, (ast.If, ast.Try)):
            for sub in ast.iter_child_nodes(st):
                if isinstance(sub, ast.stmt):
                    self._index_stmt(sub)
                elif isinstance(sub, ast.ExceptHandler):
                    for s2 in sub.body:
                        self._index_stmt(s2)

    def all_funcs(self):
        for f in self.functions.values():
            yield f
        for c in self.classes.values():
            yield from c.methods.values()
            yield from c.setters.values()


class Repo:
    def __init__(self, root=None, package="beyond"):
        self.root = Path(root) if root else repo_root()
        self.package = package
        self.modules = {}      # rel path -> Module
        self.by_name = {}      # dotted name -> Module
        import json
        lp = Path(__file__).resolve().parent / "data" / "locals.json"
        self.pinned_locals = json.loads(lp.read_text()) if lp.exists() and not os.environ.get("BVSTATIC_NO_ALPHA") else {}
        pkg = self.root / package
        if not pkg.is_dir():
            raise AnalysisError(f"package directory {pkg} not found")
        for p in sorted(pkg.rglob("*.py")):
            m = Module(self, p)
            self.modules[m.rel] = m
            self.by_name[m.name] = m
        self._mro_cache = {}
        self.consulted = set()      # (file, qualname[:setter]) of every function a rule asked for by name

    # ---- lookup ----------------------------------------------------------------
    def module(self, rel):
        m = self.modules.get(rel)
        if m is None:
            raise AnalysisError(f"anchor module {rel} not found")
        return m

    def cls(self, rel, name):
        m = self.module(rel)
        c = m.classes.get(name)
        if c is None:
            raise AnalysisError(f"anchor class {rel}::{name} not found")
        return c

    def func(self, rel, qual, setter=False):
        """`qual` is 'name' or 'Class.name'."""
        m = self.module(rel)
        if "." in qual:
            cn, fn = qual.split(".", 1)
            c = self.cls(rel, cn)
            f = (c.setters if setter else c.methods).get(fn)
        else:
            f = m.functions.get(qual)
        if f is None:
            raise AnalysisError(f"anchor function {rel}::{qual}{' (setter)' if setter else ''} not found")
        self.consulted.add((rel, qual + (":setter" if setter else "")))
        return f

    def try_func(self, rel, qual, setter=False):
        try:
            return self.func(rel, qual, setter)
        except AnalysisError:
            return None

    def all_funcs(self):
        for m in self.modules.values():
            yield from m.all_funcs()

    def all_classes(self):
        for m in self.modules.values():
            yield from m.classes.values()

    # ---- name resolution ---------------------------------------------------------
    def resolve_name(self, module, name):
        """Resolve a bare name used in `module` to a Class / Func / ('assign', Module, node)
        / ('module', Module) / ('external', dotted) / None."""
        seen = set()
        while True:
            if (module.rel, name) in seen:
                return None
            seen.add((module.rel, name))
            if name in module.classes:
                return module.classes[name]
            if name in module.functions:
                return module.functions[name]
            if name in module.assigns and name not in module.imports:
                return ("assign", module, module.assigns[name])
            if name in module.imports:
                base, attr = module.imports[name]
                if attr is None:
                    tgt = self.by_name.get(base)
                    return ("module", tgt) if tgt else ("external", base)
                sub = self.by_name.get(f"{base}.{attr}")
                if sub is not None:
                    return ("module", sub)
                tgt = self.by_name.get(base)
                if tgt is None:
                    return ("external", f"{base}.{attr}")
                module, name = tgt, attr
                continue
            return None

    def resolve_class_expr(self, module, expr):
        """Resolve a base-class expression such as 'Node' or 'base.Propagator'."""
        parts = expr.split(".")
        r = self.resolve_name(module, parts[0])
        for p in parts[1:]:
            if isinstance(r, tuple) and r[0] == "module" and r[1] is not None:
                r = self.resolve_name(r[1], p)
            else:
                return None
        return r if isinstance(r, Class) else None

    def bases(self, c):
        out = []
        for b in c.base_exprs:
            r = self.resolve_class_expr(c.module, b)
            if r is not None:
                out.append(r)
        return out

    def mro(self, c):
        key = c.ref
        if key in self._mro_cache:
            return self._mro_cache[key]
        seqs = [self.mro(b)[:] for b in self.bases(c)] + [self.bases(c)[:]]
        res = [c]
        while True:
            seqs = [s for s in seqs if s]
            if not seqs:
                break
            for s in seqs:
                cand = s[0]
                if not any(cand in t[1:] for t in seqs):
                    break
            else:  # pragma: no cover
                raise AnalysisError(f"inconsistent MRO for {c.ref}")
            res.append(cand)
            for s in seqs:
                if s[0] is cand:
                    del s[0]
        self._mro_cache[key] = res
        return res

    def lookup_method(self, c, name, setter=False):
        for k in self.mro(c):
            f = (k.setters if setter else k.methods).get(name)
            if f is not None:
                return f
        return None

    def lookup_attr(self, c, name):
        for k in self.mro(c):
            if name in k.attrs:
                return k, k.attrs[name]
        return None

    def subclasses(self, c, strict=False):
        out = []
        for k in self.all_classes():
            if c in self.mro(k) and not (strict and k is c):
                out.append(k)
        return out

    def is_subclass(self, c, base):
        return base in self.mro(c)


# ---- AST helpers ---------------------------------------------------------------------

def unparse(n):
    return ast.unparse(n)


def body_without_doc(fnode):
    b = fnode.body
    if b and isinstance(b[0], ast.Expr) and isinstance(b[0].value, ast.Constant) and isinstance(b[0].value.value, str):
        return b[1:]
    return b


def walk_no_nested(node):
    """Walk `node` without descending into nested function/class/lambda definitions."""
    todo = list(ast.iter_child_nodes(node))
    while todo:
        n = todo.pop()
        yield n
        if isinstance(n, (ast.FunctionDef, ast.AsyncFunctionDef, ast.ClassDef, ast.Lambda)):
            continue
        todo.extend(ast.iter_child_nodes(n))


def calls_in(node, nested=True):
    it = ast.walk(node) if nested else walk_no_nested(node)
    return [n for n in it if isinstance(n, ast.Call)]


def call_name(call):
    """Last component of the callee: f(...) -> 'f', a.b.f(...) -> 'f'."""
    f = call.func
    if isinstance(f, ast.Name):
        return f.id
    if isinstance(f, ast.Attribute):
        return f.attr
    return None


def dotted(n):
    """'a.b.c' for Name/Attribute chains, else None."""
    parts = []
    while isinstance(n, ast.Attribute):
        parts.append(n.attr)
        n = n.value
    if isinstance(n, ast.Name):
        parts.append(n.id)
        return ".".join(reversed(parts))
    return None


def const_value(n, default=None):
    if isinstance(n, ast.Constant):
        return n.value
    if isinstance(n, ast.UnaryOp) and isinstance(n.op, ast.USub) and isinstance(n.operand, ast.Constant):
        return -n.operand.value
    return default


def kwarg(call, name):
    for k in call.keywords:
        if k.arg == name:
            return k.value
    return None


def loc(module_or_func, node):
    m = module_or_func.module if isinstance(module_or_func, Func) else module_or_func
    rel = m.rel if hasattr(m, "rel") else str(m)
    return f"{rel}:{getattr(node, 'lineno', 0)}"


def stmts_of(node):
    """All statements nested anywhere under node (not into nested defs)."""
    return [n for n in walk_no_nested(node) if isinstance(n, ast.stmt)]


def parent_map(root):
    pm = {}
    for p in ast.walk(root):
        for c in ast.iter_child_nodes(p):
            pm[c] = p
    return pm


_CMP_FLIP = {ast.Lt: ast.Gt, ast.Gt: ast.Lt, ast.LtE: ast.GtE, ast.GtE: ast.LtE, ast.Eq: ast.Eq, ast.NotEq: ast.NotEq}
_CMP_SYM = {ast.Lt: "<", ast.Gt: ">", ast.LtE: "<=", ast.GtE: ">=", ast.Eq: "==", ast.NotEq: "!=",
            ast.Is: "is", ast.IsNot: "is not", ast.In: "in", ast.NotIn: "not in"}
_CMP_NEG = {"<": ">=", ">": "<=", "<=": ">", ">=": "<", "==": "!=", "!=": "==", "is": "is not", "is not": "is",
            "in": "not in", "not in": "in"}
_CMP_SWAP = {"<": ">", ">": "<", "<=": ">=", ">=": "<=", "==": "==", "!=": "!="}


def cmp_triples(test):
    """A Compare node as a list of (left_text, op_symbol, right_text) for each link."""
    out = []
    if not isinstance(test, ast.Compare):
        return out
    left = test.left
    for op, right in zip(test.ops, test.comparators):
        out.append((left, _CMP_SYM[type(op)], right))
        left = right
    return out


def cmp_oriented(left, op, right, subject_pred):
    """Orient a comparison so that the operand satisfying subject_pred is on the left.
    Returns (subject_node, op, other_node) or None."""
    if subject_pred(left):
        return left, op, right
    if subject_pred(right) and op in _CMP_SWAP:
        return right, _CMP_SWAP[op], left
    return None


def negate_op(op):
    return _CMP_NEG[op]
