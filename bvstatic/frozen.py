"""Frozen constants: the multiset of numeric literals of a function against a committed reference.

A change of any coefficient of a published series changes the multiset; formatting, ordering, renaming and
re-association do not.  The reference file is generated once from the pinned tree (tools/freeze_constants.py), whose
values are the published ones as far as the test-suite's agreement tests establish; it is never written by a check."""
import ast
import json
from collections import Counter
from pathlib import Path

DATA = Path(__file__).resolve().parent / "data" / "constants.json"


def literal_multiset(fnode):
    out = Counter()
    doc = ast.get_docstring(fnode) if isinstance(fnode, (ast.FunctionDef, ast.ClassDef)) else None
    for n in ast.walk(fnode):
        if isinstance(n, ast.Constant) and isinstance(n.value, (int, float)) and not isinstance(n.value, bool):
            if isinstance(n.value, int) and abs(n.value) <= 12:
                continue          # exponents, indices, small factors: x**2 vs x*x must not matter (formulas are value-numbered separately)
            out[repr(float(n.value))] += 1
    return out


def load_reference():
    return json.loads(DATA.read_text())


def compare(chk, rule, ref_key, fobj_or_node, where, what):
    ref = load_reference().get(ref_key)
    if ref is None:
        from .model import AnalysisError
        raise AnalysisError(f"no frozen constants for {ref_key}")
    got = literal_multiset(fobj_or_node)
    want = Counter(ref)
    missing = want - got
    extra = got - want
    ok = not missing and not extra
    chk.inst(rule, f"{ref_key}::constants", ok, f"{sum(want.values())} numeric literals equal the reference ({what})" if ok else
             f"constants differ from the reference ({what}): missing {dict(missing)}, unexpected {dict(extra)}", where)
    return ok


# ---- formula fingerprints (value numbering) ------------------------------------------------------------------------------

FP_DATA = Path(__file__).resolve().parent / "data" / "formulas.json"


def _h(*parts):
    import hashlib
    return hashlib.sha256("\x1f".join(str(p) for p in parts).encode()).hexdigest()[:16]


class _VN:
    """Value numbering of one function: every local name is replaced by the content hash of its defining expression (in
    canonical term-algebra normal form where the algebra can model it), so the fingerprint of a *sink* (returned value,
    attribute / element store) does not depend on the names of temporaries, on pure aliases, on dead statements, on the
    order of independent statements, on formatting, operand order, constant folding or x**2 vs x*x.  Extracting a
    sub-expression into a new temporary (or inlining one) does change it."""

    def __init__(self, fnode):
        self.sinks = []
        env = {}
        a = fnode.args
        for arg in a.posonlyargs + a.args + a.kwonlyargs:
            env[arg.arg] = "self" if arg.arg in ("self", "cls") else _h("param", arg.arg)
        self.block(fnode.body, env, ())

    # -- expressions
    def tok(self, node, env):
        import copy
        from . import terms as T

        class Ren(ast.NodeTransformer):
            def visit_Name(s_, n):
                if isinstance(n.ctx, ast.Load) and n.id in env:
                    return ast.copy_location(ast.Name(id="V" + env[n.id] if env[n.id] != "self" else "self", ctx=n.ctx), n)
                return n

            def visit_Lambda(s_, n):
                return n

            def visit_FunctionDef(s_, n):
                return n
        rhs = Ren().visit(copy.deepcopy(node))
        ast.fix_missing_locations(rhs)
        try:
            val = T.Extract(strict=True, drop_mod_2pi=False).ev(rhs)
            if isinstance(val, list):
                body = repr(T.mat_map(lambda p: T.normalize(p).key(), val))
            else:
                body = T.normalize(val).key()
            # a bare atom is the value itself (pure alias)
            if isinstance(val, T.Poly):
                nz = T.normalize(val)
                if len(nz.d) == 1:
                    (k, v), = nz.d.items()
                    if v == 1 and len(k) == 1 and k[0][1] == 1 and k[0][0].startswith("V") and len(k[0][0]) == 17:
                        return k[0][0][1:]
            return _h("nf", body)
        except Exception:
            return _h("tx", ast.unparse(rhs))

    # -- statements
    def block(self, stmts, env, conds):
        for st in stmts:
            self.stmt(st, env, conds)

    def bind(self, target, token, env, conds):
        if isinstance(target, ast.Name):
            env[target.id] = _h("cond", conds, token) if conds else token
        elif isinstance(target, (ast.Tuple, ast.List)):
            for i, t in enumerate(target.elts):
                self.bind(t, _h("item", token, i), env, conds)
        else:
            self.sinks.append(_h("store", self.tok(target, env) if not isinstance(target, ast.Attribute) else self.attr_text(target, env), token, conds))

    def attr_text(self, target, env):
        base = target
        parts = []
        while isinstance(base, ast.Attribute):
            parts.append(base.attr)
            base = base.value
        b = self.tok(base, env) if not (isinstance(base, ast.Name) and env.get(base.id) == "self") else "self"
        return b + "." + ".".join(reversed(parts))

    def stmt(self, st, env, conds):
        if isinstance(st, (ast.FunctionDef, ast.AsyncFunctionDef)):
            env[st.name] = _h("def", ast.unparse(st))
            return
        if isinstance(st, ast.ClassDef):
            return
        if isinstance(st, ast.Assign):
            t = self.tok(st.value, env)
            for tg in st.targets:
                self.bind(tg, t, env, conds)
        elif isinstance(st, ast.AugAssign):
            cur = self.tok(st.target, env)
            t = _h("aug", type(st.op).__name__, cur, self.tok(st.value, env))
            # x op= y as a value: try the algebra on `x op y`
            try:
                binop = ast.BinOp(left=ast.copy_location(ast.parse(ast.unparse(st.target), mode="eval").body, st), op=st.op, right=st.value)
                ast.fix_missing_locations(binop)
                t = self.tok(binop, env)
            except Exception:
                pass
            self.bind(st.target, t, env, conds)
        elif isinstance(st, ast.Return):
            if st.value is not None:
                self.sinks.append(_h("return", self.tok(st.value, env), conds))
        elif isinstance(st, ast.Expr):
            if isinstance(st.value, ast.Call):
                self.sinks.append(_h("call", self.tok(st.value, env), conds))
        elif isinstance(st, ast.If):
            c = self.tok(st.test, env)
            e1, e2 = dict(env), dict(env)
            self.block(st.body, e1, conds + (("if", c),))
            self.block(st.orelse, e2, conds + (("else", c),))
            for k in set(e1) | set(e2):
                a, b = e1.get(k), e2.get(k)
                if a == b:
                    env[k] = a
                else:
                    env[k] = _h("phi", c, a, b)
        elif isinstance(st, (ast.For, ast.While)):
            hdr = self.tok(st.iter if isinstance(st, ast.For) else st.test, env)
            if isinstance(st, ast.For):
                self.bind(st.target, _h("loopvar", hdr), env, ())
            before = dict(env)
            self.block(st.body, env, conds + (("loop", hdr),))
            for k in env:
                if before.get(k) != env[k]:
                    env[k] = _h("looped", hdr, before.get(k), env[k])
            self.block(st.orelse, env, conds)
        elif isinstance(st, ast.Try):
            self.block(st.body, env, conds)
            for h in st.handlers:
                self.block(h.body, env, conds + (("except",),))
            self.block(st.finalbody, env, conds)
        elif isinstance(st, ast.With):
            self.block(st.body, env, conds)
        elif isinstance(st, ast.Raise):
            self.sinks.append(_h("raise", self.tok(st.exc, env) if st.exc is not None else "", conds))


def formula_fingerprints(fnode):
    """Sorted multiset of sink fingerprints of the function."""
    return sorted(_VN(fnode).sinks)


def compare_formulas(chk, rule, ref_key, fnode, where, what):
    from collections import Counter
    ref = json.loads(FP_DATA.read_text()).get(ref_key)
    if ref is None:
        from .model import AnalysisError
        raise AnalysisError(f"no frozen formulas for {ref_key}")
    got = Counter(formula_fingerprints(fnode))
    want = Counter(ref)
    ok = got == want
    n_diff = sum((want - got).values())
    chk.inst(rule, f"{ref_key}::formulas", ok, f"the {sum(want.values())} outputs of the function (returned values, stores) have the reference value numbers ({what})" if ok else
             f"{n_diff} of {sum(want.values())} outputs of the function no longer have the reference value number ({what}): a formula feeding them changed", where)
    return ok
