"""Frozen constants: the multiset of numeric literals of a function against a committed reference.

A change of any coefficient of a published series changes the multiset; formatting, ordering, renaming and
re-association do not.  The reference file is generated once from the pinned tree (tools/freeze_constants.py), whose
values are the published ones as far as the test-suite's agreement tests establish; it is never written by a check."""
import ast
import json
from collections import Counter
from pathlib import Path

DATA = Path(__file__).resolve().parent / "data" / "constants.json"


def literal_multiset(fnode):
    out = Counter()
    doc = ast.get_docstring(fnode) if isinstance(fnode, (ast.FunctionDef, ast.ClassDef)) else None
    for n in ast.walk(fnode):
        if isinstance(n, ast.Constant) and isinstance(n.value, (int, float)) and not isinstance(n.value, bool):
            out[repr(float(n.value))] += 1
    return out


def load_reference():
    return json.loads(DATA.read_text())


def compare(chk, rule, ref_key, fobj_or_node, where, what):
    ref = load_reference().get(ref_key)
    if ref is None:
        from .model import AnalysisError
        raise AnalysisError(f"no frozen constants for {ref_key}")
    got = literal_multiset(fobj_or_node)
    want = Counter(ref)
    missing = want - got
    extra = got - want
    ok = not missing and not extra
    chk.inst(rule, f"{ref_key}::constants", ok, f"{sum(want.values())} numeric literals equal the reference ({what})" if ok else
             f"constants differ from the reference ({what}): missing {dict(missing)}, unexpected {dict(extra)}", where)
    return ok
