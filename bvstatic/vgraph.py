"""E8 — behavioural fingerprints of functions (value graph with effect threading).

Purpose: decide that a function of the current tree computes *the same thing, bit for bit,* as the function of the same
name in the reference tree although its text differs (translation validation of a refactoring).  The fingerprint is a
hash of a faithful representation of what the function does:

  * every computed value is numbered by (operator, operand numbers, epoch) — local names are transparent, so renaming,
    extracting a sub-expression into a temporary, inlining a temporary, pure aliases and dead stores change no number;
  * the *epoch* is the number of the heap state: every store, in-place operation, call of a function not known to be
    non-mutating, yield, assert, with-enter/exit advances it, and every computed value carries the epoch it was computed
    in.  Moving a computation across an effect therefore changes its number (no alias or type information is assumed);
    reordering computations inside one epoch does not;
  * allocations (container literals, comprehensions, calls other than scalar/elementwise mathematics) also carry an
    *occurrence* index — the k-th evaluation of the same expression in the same epoch is another object;
  * control flow: `if` merges by phi over the condition number; `not`, `is not`, `not in` swap the arms; `a and b` /
    `a or b` / chained comparisons in a test are nested ifs; statements after an arm that always terminates belong to the
    other arm (early return = if/else); two arms ending in the same kind of terminator merge like live arms (so
    `if c: return 1 / return 2` = `x = 1 if c else 2; return x`); loops are summarised once with placeholders for the
    loop-carried names, the summary containing every exit with the values it leaves behind; an `else` on a loop without
    `break` is plain code; a list/dict filled by a one-statement loop right after its creation is a comprehension;
  * a call to a *private helper* (`self._x(..)`, `_x(..)`, `Class._x(..)`) whose every use in the package is such a call
    from its own class/module and which no subclass overrides is evaluated in place (extract-method and inline-method
    leave the callers' fingerprints unchanged; the helper's own name and parameter names do not matter);
  * `"..{}..".format(a)` and f-strings, `dict()`/`{}`/`tuple()`/`()`, `a, b = x, y` and two assignments, annotations,
    docstrings and calls on a logger are normalised away; global names are resolved through the module's imports.

Anything outside the modelled subset (global/nonlocal, async, match, closures over re-bound names, …) makes the
fingerprint the hash of the function's normalised text, which is exact.  Equal fingerprints ⇒ equal behaviour (up to the
purity tables below and the identity of values produced by scalar mathematics); different fingerprints say nothing.  The
fingerprints are only ever used to *carry over a verdict* of the reference tree to a function proven equal, never to
report a violation."""
import ast
import hashlib
import string

# value functions: no effect, the result is a plain value (no identity of its own)
VALUE_NUMPY = {"cos", "sin", "tan", "arccos", "arcsin", "arctan", "arctan2", "sqrt", "cosh", "sinh", "tanh", "arccosh",
               "arcsinh", "arctanh", "exp", "log", "log10", "log2", "fabs", "abs", "absolute", "sign", "floor", "ceil",
               "radians", "degrees", "deg2rad", "rad2deg", "cross", "dot", "linalg.norm", "linalg.det", "isclose",
               "allclose", "mod", "fmod", "copysign", "hypot", "sum", "trace", "isnan", "isfinite", "isinf", "cbrt",
               "square", "power", "inner", "vdot", "float64", "round", "rint", "trunc", "maximum",
               "minimum", "clip", "any", "all", "ndim", "shape", "size", "isscalar", "array_equal"}
NUMERIC_RESULT = {"cos", "sin", "tan", "arccos", "arcsin", "arctan", "arctan2", "sqrt", "cosh", "sinh", "tanh", "arccosh", "arcsinh",
                  "arctanh", "exp", "log", "log10", "log2", "radians", "degrees", "deg2rad", "rad2deg", "cross", "dot", "norm", "det",
                  "hypot", "cbrt", "square", "power", "acos", "asin", "atan", "atan2", "acosh", "asinh", "atanh"}
VALUE_BUILTINS = {"abs", "bool", "divmod", "float", "int", "isinstance", "issubclass", "len", "max", "min", "pow", "round",
                  "str", "repr", "type", "getattr", "hasattr", "ord", "chr", "callable", "id", "format", "hex", "complex"}
# non-mutating but allocating
PURE_PREFIX = ("numpy.", "math.", "datetime.")
IMPURE_EXTERNAL = {"numpy.put", "numpy.copyto", "numpy.fill_diagonal", "numpy.seterr", "numpy.place", "numpy.putmask",
                   "numpy.save", "numpy.savetxt", "numpy.load", "numpy.loadtxt"}
IMPURE_EXTERNAL_PREFIX = ("numpy.random.",)
PURE_BUILTINS = {"dict", "list", "tuple", "set", "frozenset", "sorted", "sum", "zip", "enumerate", "reversed", "any", "all",
                 "slice", "range", "super"}
PURE_METHODS = {"get", "items", "keys", "values", "upper", "lower", "strip", "lstrip", "rstrip", "split", "rsplit",
                "partition", "rpartition", "startswith", "endswith", "join", "format", "replace", "title",
                "total_seconds", "isoformat", "index", "count", "zfill", "ljust", "rjust", "center", "capitalize",
                "splitlines", "isdigit", "isalpha", "encode", "decode", "find", "rfind"}
CONSUMERS = {"list", "tuple", "set", "frozenset", "dict", "sorted", "sum", "max", "min", "any", "all", "enumerate", "zip", "map", "filter", "next", "iter", "reversed"}
LOGGER_ROOTS = {"log", "logger", "logging", "LOG", "_log", "_logger"}
EXTERNAL_ROOTS = ("numpy", "math", "datetime", "re", "string", "collections", "itertools", "functools", "logging", "warnings")
MAX_INLINE_DEPTH = 4


class Unsupported(Exception):
    pass


PRE = None          # debugging: hash -> parts (set to a dict by tools/e8_diff.py)


def _h(*parts):
    h = hashlib.sha256("\x1f".join(map(str, parts)).encode()).hexdigest()[:20]
    if PRE is not None:
        PRE[h] = parts
    return h


NONE = _h("const", "NoneType", "None")
NOPUSH = {"phi", "phi?", "const", "param", "lc", "lh", "lx", "loopitem", "cv", "ch", "heap0", "exit0", "boundmethod"}


def terminates(stmts):
    """Syntactic: control never falls off the end of this statement list."""
    if not stmts:
        return False
    s = stmts[-1]
    if isinstance(s, (ast.Return, ast.Raise, ast.Continue, ast.Break)):
        return True
    if isinstance(s, ast.If):
        return terminates(s.body) and terminates(s.orelse)
    if isinstance(s, ast.With):
        return terminates(s.body)
    if isinstance(s, ast.Try):
        if s.finalbody and terminates(s.finalbody):
            return True
        return (terminates(s.body + s.orelse)) and all(terminates(h.body) for h in s.handlers)
    return False


class State:
    __slots__ = ("env", "heap", "exit", "occ", "ver", "reg", "dead", "dkind", "dval")

    def __init__(self, env, heap, exit_, occ=None, ver=None, reg=None):
        self.env, self.heap, self.exit = env, heap, exit_
        self.occ = occ if occ is not None else {}
        self.ver = ver if ver is not None else {}       # value -> heap token of the last possible mutation of its storage
        self.reg = reg if reg is not None else {}       # value -> frozenset of the values that may share its storage
        self.dead, self.dkind, self.dval = False, None, None

    def copy(self):
        s = State(dict(self.env), self.heap, self.exit, dict(self.occ), dict(self.ver), dict(self.reg))
        s.dead, s.dkind, s.dval = self.dead, self.dkind, self.dval
        return s

    def take(self, o):
        self.env, self.heap, self.exit, self.occ, self.ver, self.reg = o.env, o.heap, o.exit, o.occ, o.ver, o.reg
        self.dead, self.dkind, self.dval = o.dead, o.dkind, o.dval


def assigned_names(stmts):
    """Names bound anywhere in the statements (not inside nested defs/lambdas/comprehensions), in order of first binding."""
    out = []

    def note(n):
        if n not in out:
            out.append(n)

    def tgt(t):
        if isinstance(t, ast.Name):
            note(t.id)
        elif isinstance(t, (ast.Tuple, ast.List)):
            for e in t.elts:
                tgt(e)
        elif isinstance(t, ast.Starred):
            tgt(t.value)

    def walk(n):
        if isinstance(n, (ast.FunctionDef, ast.AsyncFunctionDef, ast.ClassDef)):
            note(n.name)
            return
        if isinstance(n, (ast.Lambda, ast.ListComp, ast.SetComp, ast.DictComp, ast.GeneratorExp)):
            for c in ast.walk(n):
                if isinstance(c, ast.NamedExpr):
                    tgt(c.target)
            return
        if isinstance(n, ast.Assign):
            walk(n.value)
            for t in n.targets:
                tgt(t)
            return
        if isinstance(n, (ast.AugAssign, ast.AnnAssign)):
            if n.value is not None:
                walk(n.value)
                tgt(n.target)
            return
        if isinstance(n, ast.NamedExpr):
            walk(n.value)
            tgt(n.target)
            return
        if isinstance(n, (ast.For, ast.AsyncFor)):
            tgt(n.target)
        if isinstance(n, (ast.With, ast.AsyncWith)):
            for it in n.items:
                if it.optional_vars is not None:
                    tgt(it.optional_vars)
        if isinstance(n, ast.ExceptHandler) and n.name:
            note(n.name)
        if isinstance(n, (ast.Import, ast.ImportFrom)):
            for a in n.names:
                note((a.asname or a.name).split(".")[0])
        for c in ast.iter_child_nodes(n):
            walk(c)
    for s in stmts:
        walk(s)
    return out


def free_names(node):
    return {n.id for n in ast.walk(node) if isinstance(n, ast.Name) and isinstance(n.ctx, ast.Load)}


def has_break(stmts):
    """A `break` that belongs to this loop body (not to a nested loop)."""
    def walk(n):
        if isinstance(n, ast.Break):
            return True
        if isinstance(n, (ast.For, ast.While, ast.AsyncFor)):
            return any(walk(c) for c in n.orelse)
        if isinstance(n, (ast.FunctionDef, ast.AsyncFunctionDef, ast.Lambda, ast.ClassDef)):
            return False
        return any(walk(c) for c in ast.iter_child_nodes(n))
    return any(walk(s) for s in stmts)


def _simple(n):
    """Re-evaluating this expression is harmless (a name, a constant, an attribute chain on a name)."""
    while isinstance(n, ast.Attribute):
        n = n.value
    return isinstance(n, (ast.Name, ast.Constant))


class Ctx:
    """What a function needs to know about its surroundings."""

    def __init__(self, modname="", is_pkg=False, imports=None, module_names=(), loggers=(), known_modules=(),
                 mod_funcs=None, mod_classes=None, inlinable=()):
        self.modname, self.is_pkg = modname, is_pkg
        self.pkg = modname if is_pkg else modname.rpartition(".")[0]
        self.imports = imports or {}
        self.module_names = set(module_names)
        self.loggers = set(loggers) | LOGGER_ROOTS
        self.known_modules = known_modules
        self.mod_funcs = mod_funcs or {}          # name -> FunctionDef
        self.mod_classes = mod_classes or {}      # class name -> {method name -> FunctionDef}
        self.inlinable = inlinable                # {(modname, class or None, name)}
        self.method_fp = {}
        self.ancestors = {}                       # class -> ancestor classes defined in the same module
        self.module_consts = {}                   # module-level name bound once to an immutable literal -> its node
        self.created = {}                         # helper key -> times a reference to it was resolved
        self.consumed = {}                        # helper key -> times such a reference was evaluated in place


class FuncGraph:
    def __init__(self, fnode, ctx=None, cls_name=None, outer_env=None, depth=0, stack=()):
        self.f = fnode
        self.ctx = ctx or Ctx()
        self.cls_name = cls_name
        self.outer_env = outer_env or {}
        self.tuples = {}
        self.probing = None
        self.consts = {}
        self.nums = {}            # hash -> value of a numeric literal (or of a folded expression of literals)
        self.prod = {}            # hash of a product -> its factors
        self.numeric = set()      # hashes of values that are evidently numbers (literal, quotient, power, negation)
        self.bound = {}
        self._outside_cache = {}
        self.clsvns = set()
        self.selfvns = set()      # value numbers known to be the instance / class the method is bound to
        self.pre = {}             # hash -> parts, for phi-normalisation
        self.phimemo = {}
        self.depth = depth
        self.stack = stack
        self.callee = 0           # > 0 while evaluating an inlined callee
        self.nest = 0             # loop/try/with nesting inside the inlined callee
        a = fnode.args
        first = (a.posonlyargs + a.args)[:1]
        self.self_name = first[0].arg if first and cls_name and _method_kind(fnode) in ("method", "class", "property") else None
        self.inlined = set()

    # ---- numbering ---------------------------------------------------------------------------
    def h(self, *parts):
        x = _h(*parts)
        self.pre[x] = parts
        return x

    def union(self, st, a, b):
        """a and b may share storage (a view, an element, an attribute, the result of a method of b).  The relation is
        part of the state: what one arm of a branch relates does not leak into the other."""
        if not (isinstance(a, str) and isinstance(b, str)) or a.startswith("G:") or b.startswith("G:") or a == b:
            return
        ra, rb = st.reg.get(a) or frozenset((a,)), st.reg.get(b) or frozenset((b,))
        if ra is rb or a in rb:
            return
        new = ra | rb
        for m in new:
            st.reg[m] = new

    def versions(self, st, children):
        # keyed by the value itself (not by the representative of its region, which depends on the order of unions)
        return [(self.version_of(st, c) if isinstance(c, str) and st.ver else "-") for c in children]

    def version_of(self, st, c, depth=0):
        v = st.ver.get(c)
        if v is not None:
            return v
        p = self.pre.get(c)
        if p and p[0] == "phi" and len(p) == 4 and depth < 6:      # a value chosen by a condition: so is its version
            a, b = self.version_of(st, p[2], depth + 1), self.version_of(st, p[3], depth + 1)
            return a if a == b else self.phi(p[1], a, b)
        return "-"

    def node(self, st, kind, *children, identity=False, heap_read=False):
        """A computed value.  It depends on its operands and on the last possible mutation of the storage they belong to;
        reads of the heap (attribute / element loads, impure calls) also depend on the current epoch."""
        key = self.h(kind, *children, "|", *self.versions(st, children), st.heap if heap_read else "")
        if not identity:
            return self.h("n", key)
        k = st.occ.get(key, 0)
        st.occ[key] = k + 1
        return self.h("n", key, k)

    def effect(self, st, kind, *parts):
        st.heap = self.h("eff", kind, *parts, st.heap)

    def touch(self, st, *vns):
        """The storage these values belong to may have been mutated by the effect just recorded."""
        for v in vns:
            if isinstance(v, str) and not v.startswith("G:"):
                for m in st.reg.get(v) or (v,):
                    st.ver[m] = st.heap

    def phi(self, c, a, b):
        """phi in normal form: pushed through equal constructors down to the first difference, so that
        `compute in both arms, then merge` and `merge, then compute` get the same number."""
        if a == b:
            return a
        if a is None or b is None:
            return self.h("phi?", c, a, b)
        # a choice nested under the same condition is already decided: phi(c, phi(c, x, _), phi(c, _, y)) = phi(c, x, y)
        pa, pb = self.pre.get(a), self.pre.get(b)
        if pa and pa[0] == "phi" and len(pa) == 4 and pa[1] == c:
            return self.phi(c, pa[2], b)
        if pb and pb[0] == "phi" and len(pb) == 4 and pb[1] == c:
            return self.phi(c, a, pb[3])
        key = (c, a, b)
        r = self.phimemo.get(key)
        if r is not None:
            return r
        pa, pb = self.pre.get(a), self.pre.get(b)
        if pa is not None and pb is not None and len(pa) == len(pb) and pa[0] == pb[0] and pa[0] not in NOPUSH:
            parts = [pa[0]]
            for x, y in zip(pa[1:], pb[1:]):
                parts.append(x if x == y else self.phi(c, x, y))
            r = self.h(*parts)
            ta, tb = self.tuples.get(a), self.tuples.get(b)
            if ta is not None and tb is not None and len(ta) == len(tb):
                self.tuples[r] = [self.phi(c, x, y) for x, y in zip(ta, tb)]
        else:
            r = self.h("phi", c, a, b)
        self.phimemo[key] = r
        return r

    def gname(self, name):
        if name in self.ctx.imports:
            mod, attr = self.ctx.imports[name]
            return "G:" + (mod + "." + attr if attr else mod)
        return "G:" + name

    def callee_class(self, fvn, fnode):
        """'value' (plain value, no effect) / 'pure' (allocates, no effect) / 'impure'."""
        if fvn.startswith("G:"):
            path = fvn[2:]
            if path in IMPURE_EXTERNAL or path.startswith(IMPURE_EXTERNAL_PREFIX):
                return "impure"
            if path.startswith("numpy.") and path[6:] in VALUE_NUMPY:
                return "value"
            if path.startswith("math."):
                return "value"
            if path.startswith(PURE_PREFIX):
                return "pure"
            if "." not in path and path not in self.ctx.module_names:
                if path in VALUE_BUILTINS:
                    return "value"
                if path in PURE_BUILTINS:
                    return "pure"
            return "impure"
        if isinstance(fnode, ast.Attribute) and fnode.attr in PURE_METHODS:
            return "value"
        return "impure"

    # ---- expressions ---------------------------------------------------------------------------
    def expr(self, n, st):
        m = getattr(self, "e_" + type(n).__name__, None)
        if m is None:
            raise Unsupported(type(n).__name__)
        return m(n, st)

    def e_Constant(self, n, st):
        return self.const(n.value)

    def const(self, value):
        v = self.h("const", type(value).__name__, repr(value))
        if isinstance(value, str):
            self.consts[v] = value
        elif isinstance(value, (int, float)) and not isinstance(value, bool):
            self.nums[v] = value
            self.numeric.add(v)
        return v

    def e_Name(self, n, st):
        if n.id in st.env:
            v = st.env[n.id]
            if v is None:
                raise Unsupported("name read before assignment on some path: " + n.id)
            if self.probing is not None and v in self.probing:
                self.probing[v] = True
            return v
        if n.id in self.outer_env:
            return self.outer_env[n.id]
        if n.id in self.ctx.module_consts:
            return self.expr(self.ctx.module_consts[n.id], State({}, self.h("heap0"), self.h("exit0")))
        m = self.resolve_method(n, st)
        if m is not None:
            self.ctx.created[(m[1], m[0].name)] = self.ctx.created.get((m[1], m[0].name), 0) + 1
            self.inlined.add((m[1], m[0].name))
            vn = self.h("boundmethod", "-", self.method_fingerprint(m[0], m[1]))
            self.bound[vn] = (m[0], m[1], m[2], None)
            return vn
        return self.gname(n.id)

    def e_Attribute(self, n, st):
        return self.attr_of(n, self.expr(n.value, st), st)

    def attr_of(self, n, b, st):
        if b.startswith("G:") and (b[2:].split(".")[0] in EXTERNAL_ROOTS or b[2:] in self.ctx.known_modules):
            return b + "." + n.attr        # attribute of a module: a global name, not a heap read
        m = self.resolve_method(n, st)
        if m is not None:
            callee, cls, kind = m
            self.ctx.created[(cls, callee.name)] = self.ctx.created.get((cls, callee.name), 0) + 1
            self.inlined.add((cls, callee.name))
            vn = self.h("boundmethod", b if kind in ("method", "class") else "-", self.method_fingerprint(callee, cls))
            self.bound[vn] = (callee, cls, kind, b)
            return vn
        v = self.node(st, "attr", b, n.attr, heap_read=True)
        self.union(st, v, b)
        return v

    def e_Subscript(self, n, st):
        b = self.expr(n.value, st)
        i = self.expr(n.slice, st)
        sliced = isinstance(n.slice, ast.Slice) or (isinstance(n.slice, ast.Tuple) and any(isinstance(e, ast.Slice) for e in n.slice.elts))
        v = self.node(st, "item", b, i, heap_read=True)       # a slice shares (or copies) the storage of b: same region
        self.union(st, v, b)
        return v

    def e_Slice(self, n, st):
        return self.h("slice", *(self.expr(x, st) if x is not None else "-" for x in (n.lower, n.upper, n.step)))

    def e_Tuple(self, n, st):
        elems = [self.expr(e, st) for e in n.elts]
        vn = self.node(st, "tuple", *elems)
        if not any(isinstance(e, ast.Starred) for e in n.elts):
            self.tuples[vn] = elems
        return vn

    def e_List(self, n, st):
        return self.node(st, "list", *(self.expr(e, st) for e in n.elts), identity=True)

    def e_Set(self, n, st):
        return self.node(st, "set", *(self.expr(e, st) for e in n.elts), identity=True)

    def e_Dict(self, n, st):
        parts = []
        for k, v in zip(n.keys, n.values):
            parts.append(self.expr(k, st) if k is not None else "**")
            parts.append(self.expr(v, st))
        return self.node(st, "dict", *parts, identity=True)

    def e_Starred(self, n, st):
        return self.h("star", self.expr(n.value, st))

    FOLD = {"Add": lambda a, b: a + b, "Sub": lambda a, b: a - b, "Mult": lambda a, b: a * b, "Div": lambda a, b: a / b,
            "FloorDiv": lambda a, b: a // b, "Mod": lambda a, b: a % b, "Pow": lambda a, b: a ** b}

    def e_BinOp(self, n, st):
        """Arithmetic is numbered operation by operation (a re-associated sum or a distributed product is another rounding
        sequence) with four exceptions that cannot change a result by more than the order of exact operations: literals are
        folded, `x ** 2` is `x * x`, a product is the multiset of its factors (`*` commutes for numbers, arrays and
        sequence repetition; re-association of a product of floats moves the last bit at most), and `+` commutes when one
        operand is evidently a number (a literal, a power, a call of a numpy / math function, sums and products of those:
        nothing a timedelta, a Date, a string or a list can be)."""
        l = self.expr(n.left, st)
        r = self.expr(n.right, st)
        return self.binop(st, type(n.op).__name__, l, r)

    def binop(self, st, op, l, r):
        if l in self.nums and r in self.nums and op in self.FOLD:
            try:
                v = self.FOLD[op](self.nums[l], self.nums[r])
                if isinstance(v, (int, float)) and not isinstance(v, bool) and v == v and abs(v) != float("inf") and abs(v) < 1e300:
                    return self.const(v)
            except Exception:
                pass
        squared = False
        if op == "Pow" and self.nums.get(r) == 2 and isinstance(self.nums.get(r), int):
            op, r, squared = "Mult", l, True
        if op == "Mult":
            factors = list(self.prod.get(l, (l,))) + list(self.prod.get(r, (r,)))
            k, rest = None, []
            for f in factors:
                if f in self.nums:
                    k = self.nums[f] if k is None else k * self.nums[f]
                else:
                    rest.append(f)
            if k is not None:
                rest.append(self.const(k))
            rest.sort()
            v = self.node(st, "prod", *rest)
            self.prod[v] = tuple(rest)
            if squared or all(f in self.numeric for f in rest):
                self.numeric.add(v)
            return v
        if op == "Add" and (l in self.numeric or r in self.numeric):
            l, r = sorted((l, r))
        v = self.node(st, "bin", op, l, r)
        # evidently a number (or an array of numbers): what cannot be a timedelta, a Date, a string or a list —
        # a power, a sum or difference with a number, a number divided by something
        if op == "Pow" or (op in ("Add", "Sub") and (l in self.numeric or r in self.numeric)) or (op in ("Div", "FloorDiv", "Mod") and l in self.numeric):
            self.numeric.add(v)
        return v

    def e_UnaryOp(self, n, st):
        o = self.expr(n.operand, st)
        if o in self.nums and isinstance(n.op, (ast.USub, ast.UAdd)):
            return self.const(-self.nums[o] if isinstance(n.op, ast.USub) else self.nums[o])
        v = self.node(st, "un", type(n.op).__name__, o)
        if isinstance(n.op, (ast.USub, ast.UAdd)) and o in self.numeric:
            self.numeric.add(v)
        return v

    def e_BoolOp(self, n, st):
        # value of `a and b` = b if a else a ; `a or b` = a if a else b   (a evaluated once)
        first = self.expr(n.values[0], st)
        rest = n.values[1:]
        if not rest:
            return first
        tail = ast.BoolOp(op=n.op, values=rest) if len(rest) > 1 else rest[0]
        s1, s2 = st.copy(), st.copy()
        other = self.expr(tail, s1)
        c, flip = self.canon_test(first)
        # a comparison by identity / membership (or a `not`) is a real bool: its own value is False in the arm where it
        # is falsy and True in the other one
        pf = self.pre.get(first, ())
        p = self.pre.get(pf[1], ()) if len(pf) == 2 and pf[0] == "n" else ()
        boolean = bool(p) and ((p[0] == "un" and p[1] == "Not") or (p[0] == "cmp" and len(p) > 4 and p[4] == "|" and p[2] in ("Is", "IsNot", "In", "NotIn")))
        TRUE, FALSE = self.h("const", "bool", "True"), self.h("const", "bool", "False")
        if isinstance(n.op, ast.And):
            keep = FALSE if boolean else first
            if flip:
                self.merge(st, c, s2, s1, None)
                return self.phi(c, keep, other)
            self.merge(st, c, s1, s2, None)
            return self.phi(c, other, keep)
        keep = TRUE if boolean else first
        if flip:
            self.merge(st, c, s1, s2, None)
            return self.phi(c, other, keep)
        self.merge(st, c, s2, s1, None)
        return self.phi(c, keep, other)

    def e_Compare(self, n, st):
        if len(n.ops) == 1 and isinstance(n.ops[0], (ast.In, ast.NotIn)):
            c = n.comparators[0]
            if isinstance(c, ast.Call) and isinstance(c.func, ast.Attribute) and c.func.attr == "keys" and not c.args and not c.keywords:
                n = ast.Compare(left=n.left, ops=n.ops, comparators=[c.func.value])     # `k in d.keys()` = `k in d`
        if len(n.ops) > 1 and all(_simple(c) for c in n.comparators[:-1]):
            parts, left = [], n.left
            for op, c in zip(n.ops, n.comparators):
                parts.append(ast.Compare(left=left, ops=[op], comparators=[c]))
                left = c
            return self.e_BoolOp(ast.BoolOp(op=ast.And(), values=parts), st)
        parts = [self.expr(n.left, st)]
        for op, c in zip(n.ops, n.comparators):
            parts.append(type(op).__name__)
            parts.append(self.expr(c, st))
        if len(parts) == 3 and parts[1] in ("Gt", "GtE"):
            # `a >= b` is `b <= a` (operands evaluated in source order above; reflected comparisons agree)
            parts = [parts[2], {"Gt": "Lt", "GtE": "LtE"}[parts[1]], parts[0]]
        return self.node(st, "cmp", *parts)

    def e_IfExp(self, n, st):
        return self.branch(n.test, st, lambda s: self.expr(n.body, s), lambda s: self.expr(n.orelse, s), None)

    def e_NamedExpr(self, n, st):
        v = self.expr(n.value, st)
        self.bind(n.target, v, st)
        return v

    def e_JoinedStr(self, n, st):
        parts = []
        for v in n.values:
            if isinstance(v, ast.Constant):
                if v.value != "":
                    parts.append(("lit", v.value))
            else:
                parts.append(("fv", self.expr(v.value, st), v.conversion, self.spec(v.format_spec, st)))
        return self.fstr(st, parts)

    def spec(self, fs, st):
        if fs is None:
            return "-"
        if isinstance(fs, ast.JoinedStr) and all(isinstance(v, ast.Constant) for v in fs.values):
            text = "".join(v.value for v in fs.values)
            return self.h("const", "str", repr(text)) if text else "-"
        return self.expr(fs, st)

    def fstr(self, st, parts):
        out = []
        for p in parts:
            if p[0] == "lit" and out and out[-1][0] == "lit":
                out[-1] = ("lit", out[-1][1] + p[1])
            else:
                out.append(p)
        if all(p[0] == "lit" for p in out):
            return self.h("const", "str", repr("".join(p[1] for p in out)))
        return self.node(st, "fstr", *(self.h(*p) for p in out))

    def e_FormattedValue(self, n, st):
        return self.fstr(st, [("fv", self.expr(n.value, st), n.conversion, self.spec(n.format_spec, st))])

    def format_call(self, n, st):
        """'literal {} {x:5.2f}'.format(a, x=b) → the f-string with the same fields, or None."""
        if not (isinstance(n.func, ast.Attribute) and n.func.attr == "format"):
            return None
        if isinstance(n.func.value, ast.Constant) and isinstance(n.func.value.value, str):
            template = n.func.value.value
        elif isinstance(n.func.value, ast.Name) and self.consts.get(st.env.get(n.func.value.id)) is not None:
            template = self.consts[st.env[n.func.value.id]]          # a literal held in a temporary
        else:
            return None
        if any(isinstance(a, ast.Starred) for a in n.args) or any(k.arg is None for k in n.keywords):
            return None
        try:
            fields = list(string.Formatter().parse(template))
        except ValueError:
            return None
        auto, idxs = 0, []
        nested = {}
        for fi, (lit, field, spec, conv) in enumerate(fields):
            if field is None:
                continue
            if not (field == "" or field.isdigit() or field.isidentifier()):
                return None
            if spec and "{" in spec:
                # the whole spec is one replacement field: "{:{}}".format(v, fmt) = f"{v:{fmt}}"
                if not (spec.startswith("{") and spec.endswith("}") and spec.count("{") == 1):
                    return None
                nested[fi] = spec[1:-1]
            if field == "":
                idxs.append(auto)
                auto += 1
            elif field.isdigit():
                idxs.append(int(field))
            else:
                idxs.append(field)
            if fi in nested:
                inner = nested[fi]
                if inner == "":
                    nested[fi] = auto
                    auto += 1
                elif inner.isdigit():
                    nested[fi] = int(inner)
                elif inner.isidentifier():
                    nested[fi] = inner
                else:
                    return None
        used_nested = list(nested.values())
        pos = {i for i in idxs + used_nested if isinstance(i, int)}
        kw = {i for i in idxs + used_nested if isinstance(i, str)}
        if pos != set(range(len(n.args))) or kw != {k.arg for k in n.keywords}:
            return None                   # unused or missing argument: leave the call alone
        argv = [self.expr(a, st) for a in n.args]
        kwv = {k.arg: self.expr(k.value, st) for k in n.keywords}
        parts, it = [], iter(idxs)
        for fi, (lit, field, spec, conv) in enumerate(fields):
            if lit:
                parts.append(("lit", lit))
            if field is None:
                continue
            idx = next(it)
            v = argv[idx] if isinstance(idx, int) else kwv[idx]
            if fi in nested:
                ni = nested[fi]
                nv = argv[ni] if isinstance(ni, int) else kwv[ni]
                specv = self.fstr(st, [("fv", nv, -1, "-")])
            else:
                specv = self.h("const", "str", repr(spec)) if spec else "-"
            parts.append(("fv", v, ord(conv) if conv else -1, specv))
        return self.fstr(st, parts)

    def e_Call(self, n, st):
        fs = self.format_call(n, st)
        if fs is not None:
            return fs
        if isinstance(n.func, ast.Name) and not n.args and not n.keywords and n.func.id in ("dict", "list", "set", "tuple") \
                and n.func.id not in st.env and n.func.id not in self.ctx.module_names:
            if n.func.id == "tuple":
                vn = self.node(st, "tuple")
                self.tuples[vn] = []
                return vn
            return self.node(st, n.func.id, identity=True)
        if isinstance(n.func, ast.Name) and n.func.id == "dict" and not n.args and n.keywords and all(k.arg for k in n.keywords) \
                and "dict" not in st.env and "dict" not in self.ctx.module_names:
            return self.e_Dict(ast.Dict(keys=[ast.Constant(value=k.arg) for k in n.keywords], values=[k.value for k in n.keywords]), st)
        if isinstance(n.func, ast.Name) and n.func.id == "slice" and 1 <= len(n.args) <= 3 and not n.keywords \
                and "slice" not in st.env and "slice" not in self.ctx.module_names:
            a = list(n.args)
            lo, up, step = (None, a[0], None) if len(a) == 1 else (a + [None])[:3]
            return self.e_Slice(ast.Slice(lower=lo, upper=up, step=step), st)
        if isinstance(n.func, ast.Name) and n.func.id in ("locals", "globals", "exec", "eval", "vars"):
            raise Unsupported(n.func.id)
        recv = None
        if isinstance(n.func, ast.Attribute):
            recv = self.expr(n.func.value, st)
            f = self.attr_of(n.func, recv, st)
        else:
            f = self.expr(n.func, st)
        args = [self.expr(a, st) for a in n.args]
        kws = [(k.arg, self.expr(k.value, st)) for k in n.keywords]
        plain = not any(isinstance(x, ast.Starred) for x in n.args) and all(k.arg for k in n.keywords)
        return self.call_value(f, n.func, recv, args, kws, st, plain)

    # ---- private helpers: resolution, inlining ---------------------------------------------------------------------------
    def resolve_method(self, fn, st):
        """fn is the callee expression (or a bare attribute reference).  → (FunctionDef, class name or None, kind) or None."""
        ctx = self.ctx
        if isinstance(fn, ast.Attribute) and isinstance(fn.value, ast.Name):
            base = fn.value.id
            if base == self.self_name and self.cls_name and st.env.get(base) in self.selfvns:
                for c in [self.cls_name] + ctx.ancestors.get(self.cls_name, []):
                    if (ctx.modname, c, fn.attr) in ctx.inlinable:
                        callee = ctx.mod_classes.get(c, {}).get(fn.attr)
                        if callee is not None:
                            return callee, c, _method_kind(callee)
            elif base in ctx.mod_classes and base not in st.env:
                key = (ctx.modname, base, fn.attr)
                if key in ctx.inlinable:
                    callee = ctx.mod_classes[base].get(fn.attr)
                    if callee is not None and _method_kind(callee) in ("static", "class"):
                        return callee, base, _method_kind(callee) + "-on-class"
        elif isinstance(fn, ast.Name) and fn.id not in st.env and fn.id not in self.outer_env:
            key = (ctx.modname, None, fn.id)
            if key in ctx.inlinable and fn.id in ctx.mod_funcs:
                return ctx.mod_funcs[fn.id], None, "function"
        return None

    def method_fingerprint(self, callee, cls):
        key = (cls, callee.name)
        if key not in self.ctx.method_fp:
            if key in self.stack:
                raise Unsupported("recursive private helper")
            g = FuncGraph(callee, self.ctx, cls, depth=self.depth, stack=self.stack + (key,))
            self.ctx.method_fp[key] = g.fingerprint()
        return self.ctx.method_fp[key]

    def inline_bound(self, target, argv, kwv, st):
        """Evaluate a resolved private helper in place.  argv / kwv are the (already evaluated) arguments."""
        callee, cls, kind, recv = target
        if self.depth >= MAX_INLINE_DEPTH:
            return None
        key = (cls, callee.name)
        if key in self.stack:
            return None
        a = callee.args
        if a.vararg or a.kwarg or kind in ("property", "other"):
            return None
        if any(isinstance(x, (ast.Yield, ast.YieldFrom, ast.Await, ast.Global, ast.Nonlocal)) for x in ast.walk(callee)):
            return None
        params = [x.arg for x in a.posonlyargs + a.args]
        env = {}
        if kind == "method":
            if recv is None or not params:
                return None
            env[params[0]] = recv
            self.selfvns.add(recv)
            params = params[1:]
        elif kind in ("class", "class-on-class"):
            if recv is None or not params:
                return None
            env[params[0]] = recv if (recv.startswith("G:") or recv in self.clsvns) else self.node(st, "typeof", recv)
            self.selfvns.add(env[params[0]])
            self.clsvns.add(env[params[0]])
            params = params[1:]
        if len(argv) > len(params):
            return None
        for p, v in zip(params, argv):
            env[p] = v
        kwonly = [x.arg for x in a.kwonlyargs]
        for k, v in kwv:
            if k is None or k in env or (k not in params and k not in kwonly):
                return None
            env[k] = v
        pos_all = [x.arg for x in a.posonlyargs + a.args]
        defaults = dict(zip(pos_all[len(pos_all) - len(a.defaults):], a.defaults)) if a.defaults else {}
        defaults.update({x.arg: d for x, d in zip(a.kwonlyargs, a.kw_defaults) if d is not None})
        for p in params + kwonly:
            if p not in env:
                if p not in defaults:
                    return None
                env[p] = self.expr(defaults[p], State({}, self.h("heap0"), self.h("exit0")))
        for nm in assigned_names(callee.body):
            env.setdefault(nm, None)
        sub = State(env, st.heap, st.exit, dict(st.occ), dict(st.ver), dict(st.reg))
        saved = (self.f, self.cls_name, self.self_name, self.callee, self.nest, self.outer_env, self.stack, self.depth, self._outside_cache)
        self.f, self.cls_name = callee, cls
        first = (a.posonlyargs + a.args)[:1]
        self.self_name = first[0].arg if first and kind in ("method", "class", "class-on-class") else None
        self.callee, self.nest, self.outer_env = self.callee + 1, 0, {}
        self.stack, self.depth = self.stack + (key,), self.depth + 1
        try:
            body = list(callee.body) + [ast.Return(value=None)]
            self.block(body, sub, None)
        except Unsupported:
            return None
        finally:
            self.f, self.cls_name, self.self_name, self.callee, self.nest, self.outer_env, self.stack, self.depth, self._outside_cache = saved
        if not (sub.dead and sub.dkind == "iret"):
            return None            # never returns normally: leave it opaque
        st.heap, st.exit, st.occ, st.ver, st.reg = sub.heap, sub.exit, sub.occ, sub.ver, sub.reg
        self.inlined.add(key)
        self.ctx.consumed[key] = self.ctx.consumed.get(key, 0) + 1
        return sub.dval

    def liftable(self, f):
        if f in self.bound:
            return True
        p = self.pre.get(f)
        return bool(p) and p[0] == "phi" and len(p) == 4 and self.liftable(p[2]) and self.liftable(p[3])

    def call_value(self, f, fnode, recv, argv, kws, st, plain):
        """The value (and effects) of calling f.  A private helper is evaluated in place; a callee chosen by a condition
        (`func = self._a if c else self._b; func(x)`) is the choice between the two calls."""
        if plain and f in self.bound:
            r = self.inline_bound(self.bound[f], argv, kws, st)
            if r is not None:
                return r
        p = self.pre.get(f)
        if plain and p and p[0] == "phi" and len(p) == 4 and self.liftable(f):
            s1, s2 = st.copy(), st.copy()
            r1 = self.call_value(p[2], fnode, recv, argv, kws, s1, plain)
            r2 = self.call_value(p[3], fnode, recv, argv, kws, s2, plain)
            self.merge(st, p[1], s1, s2, None)
            return self.phi(p[1], r1, r2)
        cls = self.callee_class(f, fnode)
        kwvals = [v for _, v in kws]
        skws = sorted(((k or "**"), v) for k, v in kws)
        callvn = self.node(st, "call", f, *argv, *(f"{k}={v}" for k, v in skws), "kw", *[v for _, v in skws], identity=(cls != "value"), heap_read=(cls == "impure"))
        if cls == "value" and f.startswith(("G:numpy.", "G:math.")) and f.rsplit(".", 1)[-1] in NUMERIC_RESULT:
            self.numeric.add(callvn)
        if cls == "impure":
            self.effect(st, "call", callvn)
            self.touch(st, recv, *argv, *kwvals)
        if cls != "value":
            for x in [recv] + list(argv) + kwvals:
                if x is not None:
                    self.union(st, callvn, x)
        return callvn

    def e_Lambda(self, n, st):
        return self.closure(n, n.args, [ast.Return(value=n.body)], st, "lambda")

    def closure(self, n, args, body, st, kind):
        rebinding = set(assigned_names(self.f.body))
        counts = {}
        for nm in _binding_sites(self.f):
            counts[nm] = counts.get(nm, 0) + 1
        inner_params = {a.arg for a in args.posonlyargs + args.args + args.kwonlyargs} | ({args.vararg.arg} if args.vararg else set()) | ({args.kwarg.arg} if args.kwarg else set())
        inner_locals = set(assigned_names(body))
        for nm in free_names(ast.Module(body=body, type_ignores=[])) - inner_params - inner_locals:
            if nm in rebinding and counts.get(nm, 0) > 1:
                raise Unsupported(f"closure over re-bound name {nm}")
        env = {k: v for k, v in st.env.items() if v is not None}
        env.update({k: v for k, v in self.outer_env.items() if k not in env})
        fake = ast.FunctionDef(name="<closure>", args=args, body=body, decorator_list=[], returns=None, type_comment=None, lineno=0, col_offset=0)
        if kind != "lambda":
            fake.decorator_list = n.decorator_list
        g = FuncGraph(fake, self.ctx, None, outer_env=env, depth=self.depth, stack=self.stack)
        return self.node(st, kind, g.fingerprint(raise_unsupported=True), identity=True)

    def comp(self, n, st, kind, elts):
        s = st.copy()
        cid = self.node(st, "compid", identity=True)
        s.heap = self.h("ch", cid)
        parts = []
        for gi, gen in enumerate(n.generators):
            if gen.is_async:
                raise Unsupported("async comprehension")
            it = self.expr(gen.iter, st if gi == 0 else s)
            self.bind(gen.target, self.h("cv", cid, gi, it), s)
            parts.append(it)
            for c in gen.ifs:
                parts.append(self.h("if", self.expr(c, s)))
        vals = [self.expr(e, s) for e in elts]
        vn = self.node(st, kind, *parts, "|", *vals, s.heap, identity=True)
        if s.heap != self.h("ch", cid):
            self.effect(st, "comp", vn)
        return vn

    def e_ListComp(self, n, st):
        return self.comp(n, st, "listcomp", [n.elt])

    def e_SetComp(self, n, st):
        return self.comp(n, st, "setcomp", [n.elt])

    def e_GeneratorExp(self, n, st):
        return self.comp(n, st, "genexp", [n.elt])

    def e_DictComp(self, n, st):
        return self.comp(n, st, "dictcomp", [n.key, n.value])

    def e_Yield(self, n, st):
        v = self.expr(n.value, st) if n.value is not None else NONE
        self.effect(st, "yield", v)
        return self.node(st, "sent", identity=True)

    def e_YieldFrom(self, n, st):
        v = self.expr(n.value, st)
        self.effect(st, "yieldfrom", v)
        return self.node(st, "sent", identity=True)

    # ---- binding / stores ---------------------------------------------------------------------------
    def bind(self, t, v, st):
        if isinstance(t, ast.Name):
            st.env[t.id] = v
        elif isinstance(t, (ast.Tuple, ast.List)):
            known = self.tuples.get(v)
            if known is not None and len(known) == len(t.elts) and not any(isinstance(e, ast.Starred) for e in t.elts):
                for e, x in zip(t.elts, known):
                    self.bind(e, x, st)
                return
            for i, e in enumerate(t.elts):
                if isinstance(e, ast.Starred):
                    self.bind(e.value, self.h("unpack*", v, i, len(t.elts)), st)
                else:
                    self.bind(e, self.h("unpack", v, i, len(t.elts)), st)
        elif isinstance(t, ast.Attribute):
            b = self.expr(t.value, st)
            self.effect(st, "setattr", b, t.attr, v)
            self.touch(st, b)
            self.union(st, v, b)              # the stored value is now reachable from b
        elif isinstance(t, ast.Subscript):
            b = self.expr(t.value, st)
            i = self.expr(t.slice, st)
            self.effect(st, "setitem", b, i, v)
            self.touch(st, b)
            self.union(st, v, b)
        elif isinstance(t, ast.Starred):
            self.bind(t.value, v, st)
        else:
            raise Unsupported("target " + type(t).__name__)

    # ---- control-flow merging ---------------------------------------------------------------------------
    def snapshot(self, st, loop):
        return self.h("snap", *(f"{ph}={st.env.get(nm)}" for nm, ph in loop["carried"])) if loop else "-"

    def final(self, s, loop):
        k = s.dkind
        if k in ("continue", "break"):
            return self.h(k, s.heap, s.exit, self.snapshot(s, loop))
        if k in ("ret", "raise", "iret"):
            return self.h(k, s.dval, s.heap, s.exit)
        return s.dval           # mixed

    def merge(self, st, c, s1, s2, loop):
        """st := phi(c, s1, s2)."""
        if s1.dead and s2.dead:
            if s1.dkind == s2.dkind and s1.dkind != "mixed":
                kind = s1.dkind
                dval = self.phi(c, s1.dval, s2.dval) if kind in ("ret", "raise", "iret") else None
                self._merge_live(st, c, s1, s2)
                st.dead, st.dkind, st.dval = True, kind, dval
                return
            # different terminators: the one that is the normal completion of the enclosing construct plays the live
            # arm (continue > return > break > raise), the other one goes to its exit chain — exactly what happens
            # when the same code is written with an assignment in the arms and one terminator after the `if`
            rank = {"continue": 4, "iret": 3, "ret": 3, "break": 2, "raise": 1, "mixed": 0}
            if rank[s1.dkind] != rank[s2.dkind]:
                live, dead, pol = (s2, s1, "T") if rank[s2.dkind] > rank[s1.dkind] else (s1, s2, "F")
                fin = self.final(dead, loop)
                st.take(live)
                st.exit = self.h("exit", c, pol, fin, live.exit)
                return
            dval = self.h("phi", c, self.final(s1, loop), self.final(s2, loop))
            st.take(s1)
            st.dead, st.dkind, st.dval = True, "mixed", dval
            return
        if s1.dead or s2.dead:
            live, dead, pol = (s2, s1, "T") if s1.dead else (s1, s2, "F")
            if dead.dkind == "iret":
                raise Unsupported("return of an inlined helper is not in tail position")
            fin = self.final(dead, loop)
            st.take(live)
            st.exit = self.h("exit", c, pol, fin, live.exit)
            return
        self._merge_live(st, c, s1, s2)

    def _merge_live(self, st, c, s1, s2):
        env = {}
        for k in set(s1.env) | set(s2.env):
            env[k] = self.phi(c, s1.env.get(k), s2.env.get(k))
        occ = dict(s1.occ)
        for k, v in s2.occ.items():
            if occ.get(k, 0) < v:
                occ[k] = v
        heap = self.phi(c, s1.heap, s2.heap)
        exit_ = self.phi(c, s1.exit, s2.exit)
        ver = {}
        for k in set(s1.ver) | set(s2.ver):
            ver[k] = self.phi(c, s1.ver.get(k, "-"), s2.ver.get(k, "-"))
        reg = dict(s1.reg)
        seen = set()
        for rset in s2.reg.values():
            if id(rset) in seen:
                continue
            seen.add(id(rset))
            new = set(rset)
            for m in rset:
                new |= reg.get(m, frozenset())
            new = frozenset(new)
            for m in new:
                reg[m] = new
        st.env, st.occ, st.heap, st.exit, st.ver, st.reg = env, occ, heap, exit_, ver, reg
        st.dead, st.dkind, st.dval = False, None, None

    def branch(self, test, st, then_fn, else_fn, loop):
        """Two-way branch on `test` with the normalisations of tests; returns the merged value of the arm functions."""
        neg = False
        while True:
            if isinstance(test, ast.UnaryOp) and isinstance(test.op, ast.Not):
                test, neg = test.operand, not neg
            elif isinstance(test, ast.Compare) and len(test.ops) == 1 and isinstance(test.ops[0], (ast.IsNot, ast.NotIn, ast.NotEq)):
                # `!=` is the complement of `==` for every built-in type (NaN included) and by default for classes
                op = {ast.IsNot: ast.Is, ast.NotIn: ast.In, ast.NotEq: ast.Eq}[type(test.ops[0])]()
                test = ast.Compare(left=test.left, ops=[op], comparators=test.comparators)
                neg = not neg
            else:
                break
        if neg:
            then_fn, else_fn = else_fn, then_fn
        if isinstance(test, ast.Compare) and len(test.ops) > 1 and all(_simple(c) for c in test.comparators[:-1]):
            parts, left = [], test.left
            for op, c in zip(test.ops, test.comparators):
                parts.append(ast.Compare(left=left, ops=[op], comparators=[c]))
                left = c
            test = ast.BoolOp(op=ast.And(), values=parts)
        if isinstance(test, ast.BoolOp):
            first, rest = test.values[0], test.values[1:]
            tail = ast.BoolOp(op=test.op, values=rest) if len(rest) > 1 else rest[0]
            if isinstance(test.op, ast.And):
                return self.branch(first, st, lambda s: self.branch(tail, s, then_fn, else_fn, loop), else_fn, loop)
            return self.branch(first, st, then_fn, lambda s: self.branch(tail, s, then_fn, else_fn, loop), loop)
        c, flip = self.canon_test(self.expr(test, st))
        if flip:
            then_fn, else_fn = else_fn, then_fn
        s1, s2 = st.copy(), st.copy()
        r1 = then_fn(s1)
        r2 = else_fn(s2)
        self.merge(st, c, s1, s2, loop)
        if r1 is None and r2 is None:
            return None
        return self.phi(c, r1, r2)

    def canon_test(self, c):
        """Value-level normal form of a condition: `not x` → x (arms swapped); `is not` / `not in` / `!=` → the positive
        comparison (arms swapped) — also when the condition was computed into a temporary first."""
        flip = False
        compl = {"IsNot": "Is", "NotIn": "In", "NotEq": "Eq"}
        while True:
            p = self.pre.get(c)
            if not (p and p[0] == "n" and len(p) == 2):
                break
            key = self.pre.get(p[1])
            if not key:
                break
            if key[0] == "un" and key[1] == "Not":
                c, flip = key[2], not flip
                continue
            if key[0] == "cmp" and len(key) > 4 and key[4] == "|" and key[2] in compl:
                c = self.h("n", self.h("cmp", key[1], compl[key[2]], key[3], *key[4:]))
                flip = not flip
                continue
            break
        return c, flip

    # ---- statements ---------------------------------------------------------------------------
    def block(self, stmts, st, loop):
        stmts = _accumulators(list(stmts))
        i = 0
        while i < len(stmts):
            s = stmts[i]
            if st.dead:
                return                      # unreachable code after a terminator
            rest = stmts[i + 1:]
            if isinstance(s, ast.If) and rest:
                tb, to = terminates(s.body), terminates(s.orelse)
                if tb and not to:
                    self.stmt(ast.If(test=s.test, body=s.body, orelse=list(s.orelse) + rest), st, loop)
                    return
                if to and not tb:
                    self.stmt(ast.If(test=s.test, body=list(s.body) + rest, orelse=s.orelse), st, loop)
                    return
            self.stmt(s, st, loop)
            i += 1

    def stmt(self, s, st, loop):
        m = getattr(self, "s_" + type(s).__name__, None)
        if m is None:
            raise Unsupported(type(s).__name__)
        m(s, st, loop)

    def s_Pass(self, s, st, loop):
        pass

    def s_Expr(self, s, st, loop):
        v = s.value
        if isinstance(v, ast.Constant):
            return                          # docstring / bare literal
        if isinstance(v, ast.Call) and self.is_logging(v, st):
            # debug / info output is not behaviour; a warning or an error record is (C03: "zero corrections with a
            # warning" vs "silently"), up to its wording -- like the message of an exception
            if v.func.attr not in ("debug", "info"):
                self.effect(st, "log", v.func.attr)
            return
        x = self.expr(v, st)
        if not isinstance(v, (ast.Call, ast.Yield, ast.YieldFrom)):
            self.effect(st, "expr", x)      # a bare attribute access may run a property

    def is_logging(self, call, st):
        f = call.func
        root = f
        while isinstance(root, ast.Attribute):
            root = root.value
        if not (isinstance(root, ast.Name) and isinstance(f, ast.Attribute)):
            return False
        if root.id not in self.ctx.loggers or root.id in st.env or f.attr not in ("debug", "info", "warning", "error", "exception", "critical", "log"):
            return False
        for a in list(call.args) + [k.value for k in call.keywords]:
            for c in ast.walk(a):
                if isinstance(c, (ast.Yield, ast.NamedExpr, ast.Await, ast.YieldFrom)):
                    return False
                # building the message may CONSUME an iterator the code goes on to use (wave i / l: a debug trace
                # `" -> ".join(str(x) for x in steps)` over the generator of conversion steps emptied the conversion loop)
                if isinstance(c, (ast.GeneratorExp, ast.ListComp, ast.SetComp, ast.DictComp, ast.Starred)):
                    return False
                if isinstance(c, ast.Call) and ((isinstance(c.func, ast.Attribute) and c.func.attr == "join") or
                                                (isinstance(c.func, ast.Name) and c.func.id in CONSUMERS)):
                    return False
                if isinstance(c, ast.Call):
                    fn = c.func
                    ok = (isinstance(fn, ast.Attribute) and fn.attr in PURE_METHODS) or \
                         (isinstance(fn, ast.Name) and fn.id in VALUE_BUILTINS and fn.id not in st.env) or \
                         (isinstance(fn, ast.Attribute) and isinstance(fn.value, ast.Name) and self.gname(fn.value.id) in ("G:numpy", "G:math"))
                    if not ok:
                        return False
        return True

    def s_Assign(self, s, st, loop):
        v = self.expr(s.value, st)
        for t in s.targets:
            self.bind(t, v, st)

    def s_AnnAssign(self, s, st, loop):
        if s.value is not None:
            self.bind(s.target, self.expr(s.value, st), st)

    def s_AugAssign(self, s, st, loop):
        t = s.target
        if isinstance(t, ast.Name):
            cur = self.e_Name(ast.Name(id=t.id, ctx=ast.Load()), st)
            v = self.expr(s.value, st)
            if self.immutable(cur):
                # an int / float / str / bool cannot be changed in place: `x op= y` is `x = x op y`
                st.env[t.id] = self.binop(st, type(s.op).__name__, cur, v)
                return
            r = self.node(st, "iop", type(s.op).__name__, cur, v)
            self.effect(st, "inplace", r)
            self.union(st, r, cur)
            self.touch(st, cur)
            st.env[t.id] = r
        elif isinstance(t, ast.Attribute):
            b = self.expr(t.value, st)
            cur = self.node(st, "attr", b, t.attr, heap_read=True)
            self.union(st, cur, b)
            v = self.expr(s.value, st)
            r = self.node(st, "iop", type(s.op).__name__, cur, v)
            self.effect(st, "setattr", b, t.attr, r)
            self.union(st, r, b)
            self.touch(st, b)
        elif isinstance(t, ast.Subscript):
            b = self.expr(t.value, st)
            i = self.expr(t.slice, st)
            cur = self.node(st, "item", b, i, heap_read=True)
            self.union(st, cur, b)
            v = self.expr(s.value, st)
            r = self.node(st, "iop", type(s.op).__name__, cur, v)
            self.effect(st, "setitem", b, i, r)
            self.union(st, r, b)
            self.touch(st, b)
        else:
            raise Unsupported("augassign target")

    def immutable(self, vn):
        """Certainly a number, string or bool: a literal, an item of `range(..)`, the result of len / int / float / str /
        round / abs on anything, or arithmetic on such values."""
        p = self.pre.get(vn)
        if not p:
            return False
        if p[0] == "const":
            return p[1] in ("int", "float", "str", "bool", "complex")
        if p[0] == "loopitem":
            it = self.pre.get(p[2], ())
            key = self.pre.get(it[1], ()) if len(it) >= 2 and it[0] == "n" else ()
            return len(key) > 1 and key[0] == "call" and key[1] == "G:range"
        if p[0] == "n" and len(p) >= 2:
            key = self.pre.get(p[1], ())
            if key and key[0] == "call" and key[1] in ("G:len", "G:int", "G:float", "G:str", "G:round", "G:bool", "G:ord"):
                return True
            if key and key[0] == "bin" and key[1] in ("Add", "Sub", "Mult", "FloorDiv", "Mod", "Pow", "Div"):
                return self.immutable(key[2]) and self.immutable(key[3])
            if key and key[0] == "prod":
                return all(self.immutable(f) for f in key[1:key.index("|")] ) if "|" in key else False
        return False

    def s_Return(self, s, st, loop):
        v = self.expr(s.value, st) if s.value is not None else NONE
        if self.callee:
            if self.nest:
                raise Unsupported("return inside a loop/try/with of an inlined helper")
            st.dead, st.dkind, st.dval = True, "iret", v
        else:
            st.dead, st.dkind, st.dval = True, "ret", v

    def _message_free(self, exc, st):
        """`raise SomeError("text …")`: the wording of the message is not behaviour any property speaks about — the
        exception is numbered by its type (and its non-text arguments) only.  The text is still *evaluated* when it can
        have effects (a call inside an f-string)."""
        if not (isinstance(exc, ast.Call) and isinstance(exc.func, (ast.Name, ast.Attribute)) and not exc.keywords):
            return None
        name = exc.func.id if isinstance(exc.func, ast.Name) else exc.func.attr
        if not name.endswith(("Error", "Exception", "Warning")):
            return None
        parts = []
        for a in exc.args:
            texty = isinstance(a, ast.JoinedStr) or (isinstance(a, ast.Constant) and isinstance(a.value, str)) or \
                (isinstance(a, ast.Call) and isinstance(a.func, ast.Attribute) and a.func.attr == "format" and isinstance(a.func.value, ast.Constant)) or \
                (isinstance(a, ast.BinOp) and isinstance(a.op, ast.Mod) and isinstance(a.left, ast.Constant) and isinstance(a.left.value, str))
            if texty and not any(isinstance(x, (ast.Call, ast.Yield, ast.Await, ast.NamedExpr)) and not
                                 (isinstance(x, ast.Call) and isinstance(x.func, ast.Attribute) and x.func.attr == "format") for x in ast.walk(a)):
                parts.append("msg")
            else:
                parts.append(self.expr(a, st))
        return self.node(st, "exception", self.expr(exc.func, st), *parts, identity=True)

    def s_Raise(self, s, st, loop):
        v = (self._message_free(s.exc, st) or self.expr(s.exc, st)) if s.exc is not None else "reraise"
        c = self.expr(s.cause, st) if s.cause is not None else "-"
        st.dead, st.dkind, st.dval = True, "raise", self.h("exc", v, c)

    def s_Break(self, s, st, loop):
        if loop is None:
            raise Unsupported("break outside loop")
        st.dead, st.dkind, st.dval = True, "break", None

    def s_Continue(self, s, st, loop):
        if loop is None:
            raise Unsupported("continue outside loop")
        st.dead, st.dkind, st.dval = True, "continue", None

    def s_Assert(self, s, st, loop):
        t = self.expr(s.test, st)
        m = self.expr(s.msg, st) if s.msg is not None else "-"
        self.effect(st, "assert", t, m)

    def s_Delete(self, s, st, loop):
        for t in s.targets:
            if isinstance(t, ast.Name):
                self.effect(st, "delname", st.env.get(t.id))
                st.env[t.id] = None
            elif isinstance(t, ast.Attribute):
                self.effect(st, "delattr", self.expr(t.value, st), t.attr)
            elif isinstance(t, ast.Subscript):
                self.effect(st, "delitem", self.expr(t.value, st), self.expr(t.slice, st))
            else:
                raise Unsupported("del target")

    def s_Import(self, s, st, loop):
        for a in s.names:
            st.env[(a.asname or a.name).split(".")[0]] = "G:" + (a.name if a.asname else a.name.split(".")[0])

    def s_ImportFrom(self, s, st, loop):
        base = s.module or ""
        if s.level:
            p = self.ctx.pkg.split(".")
            if s.level > 1:
                p = p[: -(s.level - 1)]
            base = ".".join(p + ([s.module] if s.module else []))
        for a in s.names:
            st.env[a.asname or a.name] = "G:" + base + "." + a.name

    def s_If(self, s, st, loop):
        self.branch(s.test, st, lambda x: self.block(s.body, x, loop), lambda x: self.block(s.orelse, x, loop), loop)

    def _loop(self, s, st, loop, kind):
        body_names = assigned_names(s.body + ([ast.Assign(targets=[s.target], value=ast.Constant(value=None))] if kind == "for" else []))
        lid = self.node(st, "loop", identity=True)
        it_node = s.iter if kind == "for" else None
        if isinstance(it_node, ast.Call) and isinstance(it_node.func, ast.Attribute) and it_node.func.attr == "keys" and not it_node.args and not it_node.keywords:
            it_node = it_node.func.value          # `for k in d.keys()` = `for k in d`
        it = self.expr(it_node, st) if kind == "for" else None
        # names whose value of the previous iteration can be read, or that are read outside the loop body: only those
        # are loop-carried; the others are temporaries of one iteration
        outside = self._loads_outside(s)
        reads = self._probe_reads(s, st, kind, lid, it, body_names)
        kept = [nm for nm in body_names if nm in reads or nm in outside]
        carried, seen_init = [], {}
        for nm in kept:
            init = st.env.get(nm)
            k = seen_init.get(init, 0)
            seen_init[init] = k + 1
            carried.append((nm, self.h("lc", lid, init, k)))
        inner = {"carried": carried}
        b = st.copy()
        for nm in body_names:
            b.env[nm] = None
        for nm, ph in carried:
            b.env[nm] = ph
        b.heap = self.h("lh", lid)
        b.exit = self.h("lx", lid)
        if kind == "for":
            self.bind(s.target, self.h("loopitem", lid, it), b)
            test = "-"
        else:
            test = self.expr(s.test, b)
        self.nest += 1
        try:
            self.block(s.body, b, inner)
        finally:
            self.nest -= 1
        if not b.dead:
            b.dead, b.dkind = True, "continue"
        end = self.final(b, inner)
        loopfp = self.h("loopfp", kind, it, test, end)
        for nm in body_names:
            st.env[nm] = None
        for nm, ph in carried:
            st.env[nm] = self.h("loopout", loopfp, ph)
        st.heap = self.h("loopheap", loopfp, st.heap)
        st.exit = self.h("loopexit", loopfp, st.exit)
        st.occ = b.occ
        st.reg = b.reg
        for r, v in b.ver.items():
            if st.ver.get(r) != v:
                st.ver[r] = self.h("loopver", loopfp, st.ver.get(r))
        if s.orelse:
            if not has_break(s.body):
                self.block(s.orelse, st, loop)          # no break: the else-suite always runs
            else:
                s_else, s_brk = st.copy(), st.copy()
                self.block(s.orelse, s_else, loop)
                self.merge(st, self.h("nobreak", loopfp), s_else, s_brk, loop)

    def _loads_outside(self, loop_stmt):
        key = id(loop_stmt)
        if key not in self._outside_cache:
            inside = {id(n) for st_ in loop_stmt.body for n in ast.walk(st_)}
            self._outside_cache[key] = {n.id for n in ast.walk(self.f) if isinstance(n, ast.Name) and isinstance(n.ctx, (ast.Load, ast.Del))
                                        and id(n) not in inside}
        return self._outside_cache[key]

    def _probe_reads(self, s, st, kind, lid, it, body_names):
        """Which names assigned in the loop body can be read before they are assigned in an iteration."""
        b = st.copy()
        probes = {}
        for nm in body_names:
            v = self.h("probe", lid, nm)
            probes[v] = nm
            b.env[nm] = v
        b.heap = self.h("lh", lid)
        b.exit = self.h("lx", lid)
        saved = self.probing
        self.probing = dict(saved or {}, **{v: False for v in probes})
        self.nest += 1
        try:
            if kind == "for":
                self.bind(s.target, self.h("loopitem", lid, it), b)
            else:
                self.expr(s.test, b)
            self.block(s.body, b, {"carried": []})
            hit = {probes[v] for v, seen in self.probing.items() if seen and v in probes}
            if saved is not None:
                for v, seen in self.probing.items():
                    if seen and v in saved:
                        saved[v] = True
        finally:
            self.nest -= 1
            self.probing = saved
        return hit

    def s_For(self, s, st, loop):
        self._loop(s, st, loop, "for")

    def s_While(self, s, st, loop):
        self._loop(s, st, loop, "while")

    def s_With(self, s, st, loop):
        ctxs = []
        for it in s.items:
            c = self.expr(it.context_expr, st)
            self.effect(st, "enter", c)
            if it.optional_vars is not None:
                self.bind(it.optional_vars, self.node(st, "entered", c, identity=True), st)
            ctxs.append(c)
        self.nest += 1
        try:
            self.block(s.body, st, loop)
        finally:
            self.nest -= 1
        self.effect(st, "exitwith", *ctxs)

    def s_Try(self, s, st, loop):
        self.nest += 1
        try:
            self._try(s, st, loop)
        finally:
            self.nest -= 1

    def _try(self, s, st, loop):
        # the construct itself is behaviour: `try: A finally: B` runs B when A raises, `A; B` does not
        self.effect(st, "try", len(s.handlers), bool(s.finalbody), bool(s.orelse))
        entry = st.copy()
        body = st.copy()
        self.block(s.body, body, loop)
        tryfp = self.h("try", body.heap, body.exit, self.final(body, loop) if body.dead else "-")
        names = assigned_names(s.body)
        normal = body
        if s.orelse and not body.dead:
            self.block(s.orelse, normal, loop)
        arms = [normal]
        for hi, hnd in enumerate(s.handlers):
            hs = entry.copy()
            for nm in names:
                hs.env[nm] = self.h("excphi", tryfp, entry.env.get(nm), body.env.get(nm))
            hs.heap = self.h("excheap", tryfp, entry.heap)
            hs.exit = self.h("excexit", tryfp, entry.exit)
            hs.occ = dict(body.occ)
            hs.reg = dict(body.reg)
            hs.ver = {r: self.h("excver", tryfp, entry.ver.get(r), v) for r, v in body.ver.items()}
            tvn = self.expr(hnd.type, hs) if hnd.type is not None else "-"
            self.effect(hs, "except", hi, tvn)
            if hnd.name:
                hs.env[hnd.name] = self.node(hs, "exc", hi, identity=True)
            self.block(hnd.body, hs, loop)
            arms.append(hs)
        cur = arms[0]
        for k, a in enumerate(arms[1:], 1):
            m = entry.copy()
            self.merge(m, self.h("tryarm", tryfp, k), cur, a, loop)
            cur = m
        st.take(cur)
        if s.finalbody:
            if st.dead:
                f = State(dict(st.env), self.h("finheap", self.final(st, loop)), st.exit, dict(st.occ), dict(st.ver), dict(st.reg))
                self.block(s.finalbody, f, loop)
                if f.dead:
                    st.take(f)
                else:
                    st.dkind, st.dval = "mixed", self.h("finally", self.final(st, loop), f.heap, f.exit)
            else:
                self.effect(st, "finally")
                self.block(s.finalbody, st, loop)
        self.effect(st, "endtry")

    def s_FunctionDef(self, s, st, loop):
        st.env[s.name] = self.closure(s, s.args, s.body, st, "def")

    def s_Global(self, s, st, loop):
        raise Unsupported("global")

    def s_Nonlocal(self, s, st, loop):
        raise Unsupported("nonlocal")

    # ---- the function ---------------------------------------------------------------------------
    def signature(self, st):
        a = self.f.args
        parts = []
        pos = a.posonlyargs + a.args
        defaults = [None] * (len(pos) - len(a.defaults)) + list(a.defaults)
        for x, d in zip(pos, defaults):
            parts.append(("p", x.arg, self.expr(d, st) if d is not None else "-"))
        if a.vararg:
            parts.append(("*", a.vararg.arg))
        for x, d in zip(a.kwonlyargs, a.kw_defaults):
            parts.append(("k", x.arg, self.expr(d, st) if d is not None else "-"))
        if a.kwarg:
            parts.append(("**", a.kwarg.arg))
        parts.append(("posonly", len(a.posonlyargs)))
        return self.h("sig", *(self.h(*p) for p in parts))

    def fingerprint(self, raise_unsupported=False):
        try:
            if isinstance(self.f, ast.AsyncFunctionDef):
                raise Unsupported("async def")
            st = State({}, self.h("heap0"), self.h("exit0"))
            sig = self.signature(st)
            decos = [self.expr(d, st) for d in self.f.decorator_list]
            a = self.f.args
            for x in a.posonlyargs + a.args + a.kwonlyargs + ([a.vararg] if a.vararg else []) + ([a.kwarg] if a.kwarg else []):
                st.env[x.arg] = self.h("param", x.arg)
            if self.self_name:
                self.selfvns.add(st.env[self.self_name])
                if _is_classmethod(self.f):
                    self.clsvns.add(st.env[self.self_name])
            for nm in assigned_names(self.f.body):
                st.env.setdefault(nm, None)
            is_gen = any(isinstance(x, (ast.Yield, ast.YieldFrom)) for x in _walk_own(self.f))
            self.block(list(self.f.body) + [ast.Return(value=None)], st, None)
            out = self.final(st, None)
            return "vg:" + self.h("fn", sig, *decos, out, "gen" if is_gen else "")
        except Unsupported:
            if raise_unsupported:
                raise
            return "tx:" + self.h(ast.dump(_strip(self.f), include_attributes=False))
        except RecursionError:
            if raise_unsupported:
                raise Unsupported("recursion")
            return "tx:" + self.h(ast.dump(_strip(self.f), include_attributes=False))


def _walk_own(fnode):
    """Nodes of the function that belong to it (not to nested defs / lambdas)."""
    stack = list(fnode.body)
    while stack:
        n = stack.pop()
        yield n
        for c in ast.iter_child_nodes(n):
            if not isinstance(c, (ast.FunctionDef, ast.AsyncFunctionDef, ast.Lambda, ast.ClassDef)):
                stack.append(c)


def _method_kind(fn):
    for d in fn.decorator_list:
        t = ast.unparse(d)
        if t == "staticmethod":
            return "static"
        if t == "classmethod":
            return "class"
        if t == "property" or t.endswith((".setter", ".getter", ".deleter")):
            return "property"
        return "other"
    return "method"


def _is_classmethod(fn):
    return any(ast.unparse(d) == "classmethod" for d in fn.decorator_list)


def _accumulators(stmts):
    """`x = []` + `for t in it: [if c:] x.append(e)`  →  `x = [e for t in it if c]` ; same for dicts filled by `x[k] = v`."""
    out, i = [], 0
    while i < len(stmts):
        s = stmts[i]
        nxt = stmts[i + 1] if i + 1 < len(stmts) else None
        rep = None
        if isinstance(s, ast.Assign) and len(s.targets) == 1 and isinstance(s.targets[0], ast.Name) and isinstance(nxt, ast.For) \
                and not nxt.orelse and len(nxt.body) == 1:
            name = s.targets[0].id
            v = s.value
            empty_list = (isinstance(v, ast.List) and not v.elts) or (isinstance(v, ast.Call) and isinstance(v.func, ast.Name) and v.func.id == "list" and not v.args and not v.keywords)
            empty_dict = (isinstance(v, ast.Dict) and not v.keys) or (isinstance(v, ast.Call) and isinstance(v.func, ast.Name) and v.func.id == "dict" and not v.args and not v.keywords)
            inner, conds = nxt.body[0], []
            while isinstance(inner, ast.If) and not inner.orelse and len(inner.body) == 1:
                conds.append(inner.test)
                inner = inner.body[0]

            def uses(*nodes):
                return any(isinstance(x, ast.Name) and x.id == name for nd in nodes for x in ast.walk(nd))
            if empty_list and isinstance(inner, ast.Expr) and isinstance(inner.value, ast.Call) and isinstance(inner.value.func, ast.Attribute) \
                    and inner.value.func.attr == "append" and isinstance(inner.value.func.value, ast.Name) and inner.value.func.value.id == name \
                    and len(inner.value.args) == 1 and not inner.value.keywords and not uses(inner.value.args[0], nxt.iter, *conds):
                rep = ast.Assign(targets=s.targets, value=ast.ListComp(elt=inner.value.args[0], generators=[
                    ast.comprehension(target=nxt.target, iter=nxt.iter, ifs=conds, is_async=0)]), lineno=0, col_offset=0)
            elif empty_dict and isinstance(inner, ast.Assign) and len(inner.targets) == 1 and isinstance(inner.targets[0], ast.Subscript) \
                    and isinstance(inner.targets[0].value, ast.Name) and inner.targets[0].value.id == name \
                    and not uses(inner.targets[0].slice, inner.value, nxt.iter, *conds):
                rep = ast.Assign(targets=s.targets, value=ast.DictComp(key=inner.targets[0].slice, value=inner.value, generators=[
                    ast.comprehension(target=nxt.target, iter=nxt.iter, ifs=conds, is_async=0)]), lineno=0, col_offset=0)
        if rep is not None:
            out.append(rep)
            i += 2
        else:
            out.append(s)
            i += 1
    return out


def _binding_sites(fnode):
    """Every binding occurrence of a name in the function body (one entry per site; twice when inside a loop)."""
    out = []

    def tgt(t):
        if isinstance(t, ast.Name):
            out.append(t.id)
        elif isinstance(t, (ast.Tuple, ast.List)):
            for e in t.elts:
                tgt(e)
        elif isinstance(t, ast.Starred):
            tgt(t.value)

    def walk(n, top):
        if not top and isinstance(n, (ast.FunctionDef, ast.AsyncFunctionDef, ast.ClassDef)):
            out.append(n.name)
            return
        if isinstance(n, ast.Lambda):
            return
        if isinstance(n, ast.Assign):
            for t in n.targets:
                tgt(t)
        elif isinstance(n, (ast.AugAssign, ast.AnnAssign, ast.NamedExpr)):
            tgt(n.target)
        elif isinstance(n, (ast.For, ast.AsyncFor)):
            tgt(n.target)
        elif isinstance(n, (ast.With, ast.AsyncWith)):
            for it in n.items:
                if it.optional_vars is not None:
                    tgt(it.optional_vars)
        elif isinstance(n, ast.ExceptHandler) and n.name:
            out.append(n.name)
        for c in ast.iter_child_nodes(n):
            walk(c, False)
    walk(fnode, True)
    in_loop = set()
    for n in ast.walk(fnode):
        if isinstance(n, (ast.For, ast.While)):
            in_loop |= set(assigned_names(n.body)) | (set(assigned_names([ast.Assign(targets=[n.target], value=ast.Constant(value=None))])) if isinstance(n, ast.For) else set())
    return out + list(in_loop)


def _strip(fnode):
    """Text fallback: the function without docstring and annotations."""
    import copy
    f = copy.deepcopy(fnode)
    for n in ast.walk(f):
        if isinstance(n, (ast.FunctionDef, ast.AsyncFunctionDef)):
            n.returns = None
            if n.body and isinstance(n.body[0], ast.Expr) and isinstance(n.body[0].value, ast.Constant) and isinstance(n.body[0].value.value, str):
                n.body = n.body[1:] or [ast.Pass()]
        if isinstance(n, ast.arg):
            n.annotation = None
    return f


# ---- module level ---------------------------------------------------------------------------

def imports_of(tree, modname, is_pkg):
    imports = {}
    pkg = modname if is_pkg else modname.rpartition(".")[0]

    def visit(st):
        if isinstance(st, ast.Import):
            for a in st.names:
                if a.asname:
                    imports[a.asname] = (a.name, None)
                else:
                    imports[a.name.split(".")[0]] = (a.name.split(".")[0], None)
        elif isinstance(st, ast.ImportFrom):
            base = st.module or ""
            if st.level:
                p = pkg.split(".")
                if st.level > 1:
                    p = p[: -(st.level - 1)]
                base = ".".join(p + ([st.module] if st.module else []))
            for a in st.names:
                imports[a.asname or a.name] = (base, a.name)
        elif isinstance(st, (ast.If, ast.Try)):
            for sub in ast.walk(st):
                if sub is not st and isinstance(sub, (ast.Import, ast.ImportFrom)):
                    visit(sub)
    for st in tree.body:
        visit(st)
    return imports


def module_tables(tree):
    """(module-level functions, classes → methods) of one module."""
    funcs, classes = {}, {}
    for st in tree.body:
        if isinstance(st, (ast.FunctionDef, ast.AsyncFunctionDef)):
            funcs[st.name] = st
        elif isinstance(st, ast.ClassDef):
            classes[st.name] = {m.name: m for m in st.body if isinstance(m, (ast.FunctionDef, ast.AsyncFunctionDef))
                                and _method_kind(m) != "property"}
    return funcs, classes


def module_fingerprints(tree, modname, is_pkg=False, known_modules=(), inlinable=()):
    """{'funcs': {key: fingerprint}, 'residue': hash of everything that is not a function body or an import,
        'inlined': private helpers evaluated inside their callers}."""
    imports = imports_of(tree, modname, is_pkg)
    module_names, loggers = set(), set()
    for st in tree.body:
        if isinstance(st, (ast.FunctionDef, ast.AsyncFunctionDef, ast.ClassDef)):
            module_names.add(st.name)
        elif isinstance(st, ast.Assign):
            for t in st.targets:
                if isinstance(t, ast.Name):
                    module_names.add(t.id)
                    if isinstance(st.value, ast.Call) and ast.unparse(st.value.func) in ("logging.getLogger", "getLogger"):
                        loggers.add(t.id)
    mod_funcs, mod_classes = module_tables(tree)
    ctx = Ctx(modname, is_pkg, imports, module_names, loggers, known_modules, mod_funcs, mod_classes, inlinable)
    ctx.ancestors = same_module_ancestors(tree)
    ctx.module_consts = module_constants(tree)
    funcs, residue, inlined, scopes, params = {}, [], set(), {}, {}

    def add(key, fnode, cls):
        g = FuncGraph(fnode, ctx, cls)
        funcs[key] = g.fingerprint()          # a later definition of the same name shadows the earlier one
        a = fnode.args
        params[key] = [x.arg for x in a.posonlyargs + a.args] + (["*" + a.vararg.arg] if a.vararg else []) + \
                      ["=" + x.arg for x in a.kwonlyargs] + (["**" + a.kwarg.arg] if a.kwarg else [])
        inlined.update(g.inlined)

    def is_doc(st):
        return isinstance(st, ast.Expr) and isinstance(st.value, ast.Constant) and isinstance(st.value.value, str)

    def scope_fp(stmts, only=None):
        """Fingerprint of the non-function statements of a module or class body: what each name ends up bound to, and
        the effects on the way (names resolved through the imports, temporaries transparent).  `only`: one name."""
        names = assigned_names(stmts) if only is None else ([only] if isinstance(only, str) else list(only))
        if only is not None:
            # backward slice: the statements that bind a needed name (or bind nothing: pure effects), and what they read
            need, keep = set(names), [False] * len(stmts)
            bound = [set(assigned_names([st])) for st in stmts]
            changed = True
            while changed:
                changed = False
                for i, st in enumerate(stmts):
                    if not keep[i] and (not bound[i] or bound[i] & need):
                        keep[i] = changed = True
                        need.update(n.id for n in ast.walk(st) if isinstance(n, ast.Name))
            stmts = [st for i, st in enumerate(stmts) if keep[i]]
        ret = ast.Return(value=ast.Dict(keys=[ast.Constant(value=n) for n in sorted(names)],
                                        values=[ast.Name(id=n, ctx=ast.Load()) for n in sorted(names)]))
        fake = ast.FunctionDef(name="<scope>", args=ast.arguments(posonlyargs=[], args=[], vararg=None, kwonlyargs=[], kw_defaults=[], kwarg=None, defaults=[]),
                               body=list(stmts) + [ret], decorator_list=[], returns=None, type_comment=None, lineno=0, col_offset=0)
        return FuncGraph(fake, ctx, None).fingerprint()

    def klass(c, prefix):
        residue.append(("class", prefix + c.name, [ast.unparse(b) for b in c.bases], [ast.unparse(k) for k in c.keywords], [ast.unparse(d) for d in c.decorator_list]))
        cstmts = [m for m in c.body if not isinstance(m, (ast.FunctionDef, ast.AsyncFunctionDef, ast.ClassDef, ast.Pass)) and not is_doc(m)
                  and not (isinstance(m, ast.AnnAssign) and m.value is None)]
        if cstmts:
            residue.append(("cbody", prefix + c.name, scope_fp(cstmts)))
        scopes[prefix + c.name + ".<class>#*"] = _h(repr(residue[-2 if cstmts else -1]))
        for nm in sorted(assigned_names(cstmts)):
            scopes[prefix + c.name + ".<class>#" + nm] = scope_fp(cstmts, only=nm)
        for m in c.body:
            if isinstance(m, (ast.FunctionDef, ast.AsyncFunctionDef)):
                suffix = "".join(":" + ast.unparse(d).rsplit(".", 1)[1] for d in m.decorator_list if ast.unparse(d).endswith((".setter", ".deleter", ".getter")))
                add(f"{prefix}{c.name}.{m.name}{suffix}", m, c.name if not prefix else None)
            elif isinstance(m, ast.ClassDef):
                klass(m, prefix + c.name + ".")
            elif is_doc(m) or isinstance(m, ast.Pass):
                continue
            elif isinstance(m, ast.AnnAssign) and m.value is None:
                continue
            else:
                continue                   # class-level statement: in the class body fingerprint above

    def top(st):
        if isinstance(st, (ast.FunctionDef, ast.AsyncFunctionDef)):
            add(st.name, st, None)
        elif isinstance(st, ast.ClassDef):
            klass(st, "")
        elif isinstance(st, (ast.Import, ast.ImportFrom)) or is_doc(st):
            return
        elif isinstance(st, (ast.If, ast.Try)) and all(isinstance(x, (ast.Import, ast.ImportFrom, ast.Pass, ast.ExceptHandler)) or x is st
                                                        for x in ast.walk(st) if isinstance(x, (ast.stmt, ast.ExceptHandler))):
            return                     # guarded imports
        elif isinstance(st, ast.Assign) and isinstance(st.value, ast.Call) and ast.unparse(st.value.func) in ("logging.getLogger", "getLogger"):
            return                     # a module logger
        elif isinstance(st, (ast.Assign, ast.AnnAssign)) and isinstance(getattr(st, "target", None) or st.targets[0], ast.Name) \
                and (getattr(st, "target", None) or st.targets[0]).id in ctx.module_consts:
            nm = (getattr(st, "target", None) or st.targets[0]).id
            consts[nm] = _h(ast.dump(ctx.module_consts[nm]))
            return                     # a literal constant: its uses read the literal; the name itself is compared separately
        else:
            mstmts.append(st)
    mstmts, consts = [], {}
    for st in tree.body:
        top(st)
    if mstmts:
        residue.append(("mbody", scope_fp(mstmts)))
    for nm in sorted(assigned_names(mstmts)):
        scopes["<module>#" + nm] = scope_fp(mstmts, only=nm)
    scopes["<module>#*"] = scope_fp(mstmts, only=()) if mstmts else ""
    exported = sorted((k, v) for k, v in imports.items() if is_pkg)
    transparent = sorted(f"{c}.{n}" if c else n for (c, n), k in ctx.created.items() if 0 < k <= ctx.consumed.get((c, n), 0))
    return {"funcs": funcs, "residue": _h(repr(residue), repr(exported)),
            "inlined": sorted(f"{c}.{n}" if c else n for c, n in inlined), "transparent": transparent, "consts": consts, "scopes": scopes, "params": params}


def _residue_text(st):
    import copy
    s = copy.deepcopy(st)
    if isinstance(s, ast.AnnAssign) and s.value is not None:
        s = ast.Assign(targets=[s.target], value=s.value, lineno=0, col_offset=0)
    return ast.unparse(s)


def _immutable_literal(n):
    if isinstance(n, ast.Constant):
        return not isinstance(n.value, bytes)
    if isinstance(n, ast.UnaryOp) and isinstance(n.op, (ast.USub, ast.UAdd)):
        return isinstance(n.operand, ast.Constant) and isinstance(n.operand.value, (int, float))
    if isinstance(n, ast.Tuple):
        return all(_immutable_literal(e) for e in n.elts)
    if isinstance(n, ast.BinOp) and isinstance(n.op, (ast.Add, ast.Sub, ast.Mult, ast.Div, ast.Pow, ast.FloorDiv, ast.Mod)):
        return _immutable_literal(n.left) and _immutable_literal(n.right)       # HALF_PI = np.pi / 2.0
    if isinstance(n, ast.Attribute) and isinstance(n.value, ast.Name) and n.value.id in ("np", "numpy", "math") and n.attr in ("pi", "e", "tau", "inf"):
        return True
    return False


def module_constants(tree):
    """Module-level names bound exactly once, to an immutable literal, and never re-bound (no other module-level store,
    no `global` statement anywhere): reading such a name is reading the literal."""
    stores = {}
    for st in tree.body:
        for n in ast.walk(st) if not isinstance(st, (ast.FunctionDef, ast.AsyncFunctionDef, ast.ClassDef)) else []:
            if isinstance(n, ast.Name) and isinstance(n.ctx, (ast.Store, ast.Del)):
                stores[n.id] = stores.get(n.id, 0) + 1
    globals_ = {nm for n in ast.walk(tree) if isinstance(n, (ast.Global, ast.Nonlocal)) for nm in n.names}
    out = {}
    for st in tree.body:
        v, t = None, None
        if isinstance(st, ast.Assign) and len(st.targets) == 1 and isinstance(st.targets[0], ast.Name):
            t, v = st.targets[0].id, st.value
        elif isinstance(st, ast.AnnAssign) and isinstance(st.target, ast.Name) and st.value is not None:
            t, v = st.target.id, st.value
        if t and stores.get(t) == 1 and t not in globals_ and _immutable_literal(v):
            out[t] = v
    return out


def same_module_ancestors(tree):
    bases = {c.name: [b.id for b in c.bases if isinstance(b, ast.Name)] for c in tree.body if isinstance(c, ast.ClassDef)}
    out = {}
    for c in bases:
        seen, todo = [], list(bases[c])
        while todo:
            b = todo.pop(0)
            if b in bases and b not in seen and b != c:
                seen.append(b)
                todo += bases[b]
        out[c] = seen
    return out


# ---- which private helpers may be evaluated in place ---------------------------------------------------------------------------

def inlinable_helpers(trees, subclass_defines):
    """trees: {modname: ast.Module}.  A private function/method (leading underscore, not dunder) is inlinable when it is
    defined once in the package and every occurrence of its name is (a) its definition, (b) `self._x` / `cls._x` inside
    a method of its own class, (c) `Class._x` in its own module, or (d) the bare name `_x` in its own module (module-level
    function), and no subclass of its class defines the name (`subclass_defines(mod, cls, name)`)."""
    defs = {}
    for mod, tree in trees.items():
        for st in tree.body:
            if isinstance(st, (ast.FunctionDef, ast.AsyncFunctionDef)):
                defs.setdefault(st.name, []).append((mod, None))
            elif isinstance(st, ast.ClassDef):
                for m in ast.walk(st):
                    if isinstance(m, (ast.FunctionDef, ast.AsyncFunctionDef)):
                        defs.setdefault(m.name, []).append((mod, st.name if m in st.body else "<nested>"))
            else:
                for m in ast.walk(st):
                    if isinstance(m, (ast.FunctionDef, ast.AsyncFunctionDef)):
                        defs.setdefault(m.name, []).append((mod, "<nested>"))
    cand = {n: d[0] for n, d in defs.items() if len(d) == 1 and d[0][1] != "<nested>" and n.startswith("_")
            and not (n.startswith("__") and n.endswith("__"))}
    bad = set()
    for mod, tree in trees.items():
        anc = same_module_ancestors(tree)

        def visit(n, cls, first, anc=anc, mod=mod):
            if isinstance(n, ast.ClassDef):
                for c in ast.iter_child_nodes(n):
                    visit(c, n.name if cls is None else "<nested>", None)
                return
            if isinstance(n, (ast.FunctionDef, ast.AsyncFunctionDef)):
                a = n.args
                f0 = (a.posonlyargs + a.args)[:1]
                ff = f0[0].arg if f0 and cls and first is None and _method_kind(n) in ("method", "class", "property") else first
                for c in ast.iter_child_nodes(n):
                    visit(c, cls, ff)
                return
            if isinstance(n, ast.Attribute) and n.attr in cand:
                dm, dc = cand[n.attr]
                ok = False
                if isinstance(n.value, ast.Name) and dc is not None and dm == mod:
                    if (cls == dc or dc in anc.get(cls, [])) and n.value.id == first:
                        ok = True
                    elif n.value.id == dc:
                        ok = True
                if not ok:
                    bad.add(n.attr)
            elif isinstance(n, ast.Name) and n.id in cand:
                dm, dc = cand[n.id]
                if not (dc is None and dm == mod):
                    bad.add(n.id)
            elif isinstance(n, ast.Constant) and isinstance(n.value, str) and n.value in cand:
                bad.add(n.value)        # getattr(obj, "_x")
            for c in ast.iter_child_nodes(n):
                visit(c, cls, first)
        visit(tree, None, None)
    out = set()
    for n, (mod, cls) in cand.items():
        if n in bad:
            continue
        if cls is not None and subclass_defines(mod, cls, n):
            continue
        out.add((mod, cls, n))
    return out
