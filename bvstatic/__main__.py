"""Entry point: python -m bvstatic <ID> --tier quick|thorough [--replay FILE]

Exit codes: 0 all instances hold (or only known findings fail); 1 VIOLATION; 2 ANALYSIS-ERROR.
"""
import argparse
import importlib
import json
import os
import sys
import traceback

from .model import AnalysisError, Repo
from .report import Check


def main(argv=None):
    ap = argparse.ArgumentParser(prog="bvstatic")
    ap.add_argument("prop")
    ap.add_argument("--tier", default=os.environ.get("VERIF_TIER") or "quick", choices=["quick", "thorough"])
    ap.add_argument("--replay")
    ap.add_argument("--repo")
    args = ap.parse_args(argv)
    prop = args.prop.upper()
    try:
        only = None
        if args.replay:
            r = json.load(open(args.replay))
            only = (r["rule"], r["instance"])
        mod = importlib.import_module(f"bvstatic.rules.{prop.lower()}")
        chk = Check(prop, args.tier, Repo(args.repo) if args.repo else Repo(), only=only)
        chk.guard(mod.run, chk)      # an extractor giving up in one property module must not mask what the generic clauses find
        from .rules.common import anchors_rule, pins_rule, signature_rule
        chk.guard(signature_rule, chk)
        chk.guard(pins_rule, chk)
        chk.guard(anchors_rule, chk)
        from .rules.common import display_pure_rule, duck_rule, init_rule
        chk.guard(display_pure_rule, chk)
        chk.guard(duck_rule, chk)
        chk.guard(init_rule, chk)
        from .ownership import memo_rule
        from .rules.common import anchored_files
        from .rules.common import DEPS
        memo_files = list(anchored_files().get(prop, [])) + sorted({rel for (rel, _p), _w in DEPS.get(prop, [])})
        chk.guard(memo_rule, chk, memo_files)
        if chk.thorough and hasattr(mod, "run_thorough"):
            mod.run_thorough(chk)
        rc = chk.finish()
        if chk.thorough and not only and rc == 0 and not os.environ.get("BVSTATIC_NO_SELFTEST"):
            from .selftest import run_selftest
            rc = run_selftest(prop)
        return rc
    except AnalysisError as e:
        print(f"ANALYSIS-ERROR property={prop} {e}")
        return 2
    except Exception as e:  # never a traceback exit 1
        traceback.print_exc(file=sys.stdout)
        print(f"ANALYSIS-ERROR property={prop} internal: {type(e).__name__}: {e}")
        return 2


if __name__ == "__main__":
    sys.exit(main())
