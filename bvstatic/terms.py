"""E6 — canonical term algebra.

Straight-line arithmetic read from the AST is mapped to the field of fractions of a Laurent-polynomial ring
over Q with rational exponents.  Atoms are free names and opaque applications (`cos[u]`, `sinh[u]`,
`arctan2[..]`) keyed by their canonical argument, and *base atoms* `B(p)` standing for a polynomial `p` that is
raised to a negative or fractional power.  Normalisation applies  sin^2 -> 1 - cos^2,  cosh^2 -> 1 + sinh^2,
B(p)^k -> p^k (k positive integer),  angle sums, parity, and shifts by multiples of pi/2.  Equality is decided
by clearing denominators and reducing to 0.  Nothing here runs repository code or calls a solver: it is the
value-numbering normal form of an expression tree.
"""
import ast
from fractions import Fraction as F

from .model import AnalysisError

ATOMS = {}          # key -> ("func", fname, Poly) | ("base", Poly)
PI = "pi"


class Unsupported(Exception):
    """The expression has a shape the extractor does not model (obligation un-extractable)."""


class Poly:
    __slots__ = ("d",)

    def __init__(self, d=None):
        self.d = {k: v for k, v in (d or {}).items() if v != 0}

    @staticmethod
    def const(c):
        return Poly({(): F(c)})

    @staticmethod
    def atom(key, e=1):
        return Poly({((key, F(e)),): F(1)})

    def is_const(self):
        return all(k == () for k in self.d)

    def cval(self):
        return self.d.get((), F(0))

    def __add__(self, o):
        o = lift(o)
        d = dict(self.d)
        for k, v in o.d.items():
            d[k] = d.get(k, 0) + v
        return Poly(d)

    __radd__ = __add__

    def __neg__(self):
        return Poly({k: -v for k, v in self.d.items()})

    def __sub__(self, o):
        return self + (-lift(o))

    def __rsub__(self, o):
        return lift(o) - self

    def __mul__(self, o):
        return self.mul(lift(o))

    __rmul__ = __mul__

    def __truediv__(self, o):
        return self * power(lift(o), -1)

    def __rtruediv__(self, o):
        return lift(o) * power(self, -1)

    def __pow__(self, n):
        return power(self, n)

    def mul(self, o, norm=True):
        d = {}
        for k1, v1 in self.d.items():
            for k2, v2 in o.d.items():
                m = dict(k1)
                for a, e in k2:
                    m[a] = m.get(a, 0) + e
                k = tuple(sorted((a, e) for a, e in m.items() if e != 0))
                d[k] = d.get(k, 0) + v1 * v2
        return normalize(Poly(d)) if norm else Poly(d)

    def key(self):
        return "(" + " + ".join(f"{v}*" + "*".join(f"{a}^{e}" for a, e in k)
                                for k, v in sorted(self.d.items(), key=lambda kv: str(kv[0]))) + ")"

    def iszero(self):
        return not self.d

    def atoms(self):
        return {a for k in self.d for a, _ in k}

    def __repr__(self):
        return self.key()

    def __eq__(self, o):  # structural; semantic equality is `equal`
        return isinstance(o, Poly) and self.d == o.d

    def __hash__(self):
        return hash(self.key())


def lift(x):
    if isinstance(x, Poly):
        return x
    if isinstance(x, (int, F)):
        return Poly.const(x)
    if isinstance(x, float):
        return Poly.const(F(str(x)))
    raise TypeError(type(x))


def base_atom(p):
    k = "B" + p.key()
    ATOMS.setdefault(k, ("base", p))
    return k


def func_atom(f, p):
    k = f"{f}[{p.key()}]"
    ATOMS.setdefault(k, ("func", f, p))
    return k


def func(f, *args):
    """Opaque application with canonical argument(s)."""
    if len(args) == 1:
        return Poly.atom(func_atom(f, args[0]))
    packed = sum((a * Poly.atom(f"#arg{i}") for i, a in enumerate(args)), Poly())
    return Poly.atom(func_atom(f, packed))


def _exact_root(v, n):
    """v ** n for rational v>0 and rational n = p/q, if exact; else None."""
    p_, q_ = n.numerator, n.denominator

    def iroot(x, k):
        if x < 0:
            return None
        r = round(x ** (1.0 / k)) if x < 2 ** 52 else int(x ** (1.0 / k))
        for c in (r - 1, r, r + 1):
            if c >= 0 and c ** k == x:
                return c
        return None
    rn, rd = iroot(v.numerator, q_), iroot(v.denominator, q_)
    if rn is None or rd is None or (rn == 0 and p_ < 0):
        return None
    return F(rn, rd) ** p_


def power(p, n):
    n = F(n)
    if n == 0:
        return Poly.const(1)
    if n == 1:
        return p
    p = normalize(p)
    if len(p.d) == 1:
        (k, v), = p.d.items()
        if n.denominator == 1:
            return Poly({tuple((a, e * n) for a, e in k): v ** int(n)})
        if v > 0:
            r = _exact_root(v, n)
            if r is not None:
                return Poly({tuple((a, e * n) for a, e in k): r})
            # split constant: c^n * monomial^n with c kept as a base atom of the constant
            mono = Poly({tuple((a, e * n) for a, e in k): F(1)})
            return Poly.atom(base_atom(Poly.const(v)), n) * mono
    if n.denominator == 1 and n > 0:
        r = Poly.const(1)
        for _ in range(int(n)):
            r = r * p
        return r
    # pull out the content (positive rational × monomial common to all terms) so that B(2x+2), B(x+1) and B(µx+µ)
    # share one primitive base: p = c·m·q  =>  p^n = (c·m)^n · B(q)^n
    c, mono, q = _content(p)
    if mono or c != 1:
        head = power(Poly({tuple(sorted(mono.items())): c}), n)
        return head.mul(Poly.atom(base_atom(q), n), norm=False)
    return Poly.atom(base_atom(p), n)


def _content(p):
    """(c, {atom: exp}, q) with p = c · Π atom^exp · q, c > 0 rational, q primitive."""
    from math import gcd
    terms = list(p.d.items())
    # monomial part: atoms present in every term, with the minimum exponent (plain and opaque atoms alike)
    common = None
    for k, _ in terms:
        d = dict(k)
        if common is None:
            common = dict(d)
        else:
            common = {a: min(e, d[a]) for a, e in common.items() if a in d}
    common = {a: e for a, e in (common or {}).items() if e != 0}
    # never pull out base atoms with positive exponents that normalisation would re-expand, nor negative-exponent commons
    # of mixed sign: keep it simple — only exponents of one sign across the terms are safe
    nums = [v.numerator for _, v in terms]
    dens = [v.denominator for _, v in terms]
    g = 0
    for x in nums:
        g = gcd(g, abs(x))
    l = 1
    for x in dens:
        l = l * x // gcd(l, x)
    c = F(g, l) if g else F(1)
    if not common and c == 1:
        return F(1), {}, p
    q = {}
    for k, v in terms:
        d = dict(k)
        for a, e in common.items():
            d[a] = d[a] - e
        q[tuple(sorted((a, e) for a, e in d.items() if e != 0))] = v / c
    return c, common, Poly(q)


PYTH = {"sin": ("cos", -1), "cosh": ("sinh", +1)}   # sin^2 = 1 - cos^2 ; cosh^2 = 1 + sinh^2


def normalize(p):
    changed = True
    guard = 0
    while changed:
        guard += 1
        if guard > 200:
            raise Unsupported("normalisation does not terminate")
        changed = False
        d = {}
        for k, v in p.d.items():
            m = dict(k)
            repl = None
            for a, e in k:
                info = ATOMS.get(a)
                if not info:
                    continue
                if info[0] == "func" and info[1] in PYTH and e.denominator == 1 and e >= 2:
                    other, sgn = PYTH[info[1]]
                    m2 = dict(m)
                    m2[a] = e - 2
                    rest = Poly({tuple(sorted((x, y) for x, y in m2.items() if y != 0)): v})
                    oa = Poly.atom(func_atom(other, info[2]))
                    repl = rest.mul(Poly.const(1) + Poly.const(sgn) * oa.mul(oa, norm=False), norm=False)
                    break
                if info[0] == "base" and e.denominator == 1 and e >= 1:
                    m2 = dict(m)
                    del m2[a]
                    rest = Poly({tuple(sorted(m2.items())): v})
                    repl = rest.mul(_ipow(info[1], int(e)), norm=False)
                    break
                if info[0] == "base" and e > 1 and e.denominator != 1:
                    whole = int(e)
                    m2 = dict(m)
                    m2[a] = e - whole
                    rest = Poly({tuple(sorted((x, y) for x, y in m2.items() if y != 0)): v})
                    repl = rest.mul(_ipow(info[1], whole), norm=False)
                    break
            if repl is None:
                d[k] = d.get(k, 0) + v
            else:
                changed = True
                for kk, vv in repl.d.items():
                    d[kk] = d.get(kk, 0) + vv
        p = Poly(d)
    return p


def _ipow(p, n):
    r = Poly.const(1)
    for _ in range(n):
        r = r.mul(p, norm=False)
    return r


def trig(f, arg):
    """cos/sin with angle-sum expansion, parity, shifts by multiples of pi/2, double angle."""
    if arg.iszero():
        return Poly.const(1 if f == "cos" else 0)
    terms = sorted(arg.d.items(), key=lambda kv: str(kv[0]))
    if len(terms) > 1:
        (k, v) = terms[-1]
        a = Poly(dict(terms[:-1]))
        b = Poly({k: v})
        if f == "cos":
            return trig("cos", a) * trig("cos", b) - trig("sin", a) * trig("sin", b)
        return trig("sin", a) * trig("cos", b) + trig("cos", a) * trig("sin", b)
    (k, v), = terms
    if k == ((PI, F(1)),):
        q = (v * 2) % 4
        if q.denominator == 1:
            c, s = [(1, 0), (0, 1), (-1, 0), (0, -1)][int(q)]
            return Poly.const(c if f == "cos" else s)
    if v < 0:
        r = trig(f, -arg)
        return r if f == "cos" else -r
    if v.denominator == 1 and v >= 2:
        n = int(v)
        h = Poly({k: F(1)})
        rest = Poly({k: F(n - 1)})
        if f == "sin":
            return trig("sin", rest) * trig("cos", h) + trig("cos", rest) * trig("sin", h)
        return trig("cos", rest) * trig("cos", h) - trig("sin", rest) * trig("sin", h)
    return Poly.atom(func_atom(f, arg))


def hyp(f, arg):
    if arg.iszero():
        return Poly.const(1 if f == "cosh" else 0)
    (k0, v0) = sorted(arg.d.items(), key=lambda kv: str(kv[0]))[0]
    if len(arg.d) == 1 and v0 < 0:
        r = hyp(f, -arg)
        return r if f == "cosh" else -r
    return Poly.atom(func_atom(f, arg))


# ---- matrices (nested lists of Poly) ----------------------------------------------------------------

def is_mat(x):
    return isinstance(x, list) and x and isinstance(x[0], list)


def matmul(A, B):
    if not isinstance(A, list) or not isinstance(B, list):
        raise Unsupported("matmul on non-array")
    if is_mat(A) and is_mat(B):
        return [[sum((A[i][k] * B[k][j] for k in range(len(B))), Poly()) for j in range(len(B[0]))] for i in range(len(A))]
    if is_mat(A):
        return [sum((A[i][k] * B[k] for k in range(len(B))), Poly()) for i in range(len(A))]
    if is_mat(B):
        return [sum((A[k] * B[k][j] for k in range(len(A))), Poly()) for j in range(len(B[0]))]
    return sum((a * b for a, b in zip(A, B)), Poly())


def transpose(A):
    return [[A[j][i] for j in range(len(A))] for i in range(len(A[0]))]


def identity(n):
    return [[Poly.const(1 if i == j else 0) for j in range(n)] for i in range(n)]


def zeros(*shape):
    if len(shape) == 1:
        return [Poly() for _ in range(shape[0])]
    return [[Poly() for _ in range(shape[1])] for _ in range(shape[0])]


def cross(a, b):
    return [a[1] * b[2] - a[2] * b[1], a[2] * b[0] - a[0] * b[2], a[0] * b[1] - a[1] * b[0]]


def dot(a, b):
    return sum((x * y for x, y in zip(a, b)), Poly())


def det3(M):
    return (M[0][0] * (M[1][1] * M[2][2] - M[1][2] * M[2][1])
            - M[0][1] * (M[1][0] * M[2][2] - M[1][2] * M[2][0])
            + M[0][2] * (M[1][0] * M[2][1] - M[1][1] * M[2][0]))


def elementwise(op, A, B):
    if isinstance(A, list) and isinstance(B, list):
        if len(A) != len(B):
            raise Unsupported("shape mismatch")
        return [elementwise(op, a, b) for a, b in zip(A, B)]
    if isinstance(A, list):
        return [elementwise(op, a, B) for a in A]
    if isinstance(B, list):
        return [elementwise(op, A, b) for b in B]
    return op(A, B)


# ---- equality ------------------------------------------------------------------------------------

def is_zero(p, extra_reduce=None):
    """Decide p == 0: multiply by base atoms with negative exponents until polynomial, then normalise."""
    for _ in range(16):
        p = normalize(p)
        if extra_reduce:
            p = extra_reduce(p)
        neg = {}
        for k in p.d:
            for a, e in k:
                if e < 0 and ATOMS.get(a, ("name",))[0] == "base":
                    neg[a] = min(neg.get(a, 0), e)
        if not neg:
            break
        for a, e in neg.items():
            up = -e if e.denominator == 1 else F(int(-e) + 1)
            p = p.mul(Poly.atom(a, up), norm=False)
    p = normalize(p)
    if extra_reduce:
        p = normalize(extra_reduce(p))
    return p.iszero()


def equal(p, q, extra_reduce=None):
    return is_zero(lift(p) - lift(q), extra_reduce)


def residual(p):
    return normalize(p)


# ---- derivation -------------------------------------------------------------------------------------

def deriv(p, table):
    """Total derivative given atom derivatives `table` (atom key -> Poly); chain rule through opaque atoms."""
    out = Poly()
    for k, v in p.d.items():
        for a, e in k:
            da = atom_deriv(a, table)
            if da is None or da.iszero():
                continue
            m = dict(k)
            m[a] = e - 1
            out = out + Poly({tuple(sorted((x, y) for x, y in m.items() if y != 0)): v * e}) * da
    return normalize(out)


def atom_deriv(a, table):
    if a in table:
        return table[a]
    info = ATOMS.get(a)
    if not info:
        return None
    if info[0] == "base":
        return deriv(info[1], table)
    f, arg = info[1], info[2]
    du = deriv(arg, table)
    if du.iszero():
        return du
    if f == "cos":
        return -(Poly.atom(func_atom("sin", arg)) * du)
    if f == "sin":
        return Poly.atom(func_atom("cos", arg)) * du
    if f == "cosh":
        return Poly.atom(func_atom("sinh", arg)) * du
    if f == "sinh":
        return Poly.atom(func_atom("cosh", arg)) * du
    raise Unsupported(f"derivative of {f}")


# ---- extraction from the AST ----------------------------------------------------------------------------

OPAQUE = {"tan", "arctan2", "arccos", "arcsin", "arctan", "arctanh", "arccosh", "arcsinh", "exp", "log",
          "degrees", "radians", "sign"}


class Extract:
    """Straight-line extraction of statements into an environment name -> Poly / nested lists.

    `env` may pre-bind names to Poly values, lists, or Python callables (for rot1/2/3-like helpers).
    `subst` maps unparsed call/attribute texts to values (e.g. {'cos(ν)': c}).
    """

    def __init__(self, env=None, subst=None, strict=False, abs_is_identity=True, drop_mod_2pi=True):
        self.drop_mod_2pi = drop_mod_2pi
        self.env = dict(env or {})
        self.subst = dict(subst or {})
        self.strict = strict
        self.abs_is_identity = abs_is_identity

    def ev(self, n):
        if self.subst:
            t = ast.unparse(n)
            if t in self.subst:
                return self.subst[t]
        if isinstance(n, ast.Constant):
            if isinstance(n.value, bool) or not isinstance(n.value, (int, float)):
                raise Unsupported(f"constant {n.value!r}")
            return Poly.const(F(str(n.value)) if isinstance(n.value, float) else n.value)
        if isinstance(n, ast.Name):
            if n.id in self.env:
                return self.env[n.id]
            if n.id == "pi":
                return Poly.atom(PI)
            return Poly.atom(n.id)
        if isinstance(n, ast.Attribute):
            t = ast.unparse(n)
            if t in ("np.pi", "pi", "numpy.pi", "math.pi"):
                return Poly.atom(PI)
            if t in self.env:
                return self.env[t]
            if n.attr == "T":
                v = self.ev(n.value)
                if is_mat(v):
                    return transpose(v)
                raise Unsupported("transpose of non-matrix")
            return Poly.atom(t)
        if isinstance(n, ast.UnaryOp):
            if isinstance(n.op, ast.USub):
                v = self.ev(n.operand)
                return elementwise(lambda a, b: -a, v, Poly()) if isinstance(v, list) else -v
            if isinstance(n.op, ast.UAdd):
                return self.ev(n.operand)
        if isinstance(n, ast.BinOp):
            if isinstance(n.op, ast.MatMult):
                return matmul(self.ev(n.left), self.ev(n.right))
            l, r = self.ev(n.left), self.ev(n.right)
            if isinstance(n.op, ast.Add):
                return elementwise(lambda a, b: a + b, l, r)
            if isinstance(n.op, ast.Sub):
                return elementwise(lambda a, b: a - b, l, r)
            if isinstance(n.op, ast.Mult):
                return elementwise(lambda a, b: a * b, l, r)
            if isinstance(n.op, ast.Div):
                return elementwise(lambda a, b: a * power(b, -1), l, r)
            if isinstance(n.op, ast.Mod):
                # angles are compared modulo 2*pi: `X % (2*pi)` is X
                if isinstance(r, Poly) and equal(r, Poly.const(2) * Poly.atom(PI)) and self.drop_mod_2pi:
                    return l
                raise Unsupported("modulo")
            if isinstance(n.op, ast.Pow):
                if isinstance(r, list) or not r.is_const():
                    raise Unsupported("non-constant exponent")
                return elementwise(lambda a, b: power(a, r.cval()), l, Poly())  if isinstance(l, list) else power(l, r.cval())
        if isinstance(n, ast.Call):
            return self.call(n)
        if isinstance(n, (ast.List, ast.Tuple)):
            return [self.ev(e) for e in n.elts]
        if isinstance(n, ast.Subscript):
            v = self.ev(n.value)
            return self.subscript(v, n.slice)
        raise Unsupported(ast.dump(n)[:100])

    def subscript(self, v, sl):
        if not isinstance(v, list):
            # indexing an opaque name: atom "name[i]"
            raise Unsupported("subscript of scalar")
        if isinstance(sl, ast.Constant) and isinstance(sl.value, int):
            return v[sl.value]
        if isinstance(sl, ast.UnaryOp) and isinstance(sl.op, ast.USub) and isinstance(sl.operand, ast.Constant):
            return v[-sl.operand.value]
        if isinstance(sl, ast.Slice):
            def b(x):
                if x is None:
                    return None
                c = self.ev(x)
                return int(c.cval())
            return v[b(sl.lower):b(sl.upper)]
        if isinstance(sl, ast.Tuple) and len(sl.elts) == 2:
            rows = self.subscript(v, sl.elts[0])
            if isinstance(sl.elts[0], ast.Slice):
                return [self.subscript(r, sl.elts[1]) for r in rows]
            return self.subscript(rows, sl.elts[1])
        raise Unsupported("subscript form")

    def call(self, n):
        fname = ast.unparse(n.func).split(".")[-1]
        full = ast.unparse(n.func)
        if fname in self.env and callable(self.env[fname]):
            return self.env[fname](*[self.ev(a) for a in n.args])
        if fname == "array" or fname == "asarray":
            return self.ev(n.args[0])
        if fname in ("cos", "sin"):
            return trig(fname, self.ev(n.args[0]))
        if fname in ("cosh", "sinh"):
            return hyp(fname, self.ev(n.args[0]))
        if fname == "sqrt":
            return power(self.ev(n.args[0]), F(1, 2))
        if fname in ("abs", "fabs"):
            v = self.ev(n.args[0])
            return v if self.abs_is_identity else func("abs", v)
        if fname in ("identity", "eye"):
            return identity(int(self.ev(n.args[0]).cval()))
        if fname == "zeros":
            a = self.ev(n.args[0])
            if isinstance(a, list):
                return zeros(*[int(x.cval()) for x in a])
            return zeros(int(a.cval()))
        if fname == "cross":
            return cross(self.ev(n.args[0]), self.ev(n.args[1]))
        if fname == "dot":
            return matmul(self.ev(n.args[0]), self.ev(n.args[1]))
        if fname == "norm":
            v = self.ev(n.args[0])
            if isinstance(v, list) and not is_mat(v):
                return power(dot(v, v), F(1, 2))
            raise Unsupported("norm of a non-vector")
        if fname == "transpose" and n.args:
            return transpose(self.ev(n.args[0]))
        if fname in OPAQUE:
            return func(fname, *[self.ev(a) for a in n.args])
        raise Unsupported(f"call {full}")

    def assign(self, target, value):
        if isinstance(target, ast.Name):
            self.env[target.id] = value
        elif isinstance(target, (ast.Tuple, ast.List)):
            if not isinstance(value, list) or len(value) != len(target.elts):
                raise Unsupported("unpack shape")
            for t, v in zip(target.elts, value):
                self.assign(t, v)
        elif isinstance(target, ast.Attribute):
            self.env[ast.unparse(target)] = value
        else:
            raise Unsupported("assignment target")

    def run(self, stmts, stop_on_unsupported=False):
        """Execute straight-line statements; statements that cannot be modelled unbind their targets."""
        for st in stmts:
            if isinstance(st, ast.Assign):
                try:
                    v = self.ev(st.value)
                    for t in st.targets:
                        self.assign(t, v)
                except Unsupported:
                    if stop_on_unsupported or self.strict:
                        raise
                    # The target becomes opaque.  Only the result of an inverse function keeps its own name as atom
                    # (rules reason about `θ = arctan2(..)` through the arguments); anything else gets an atom no
                    # rule can name, so that an unmodelled formula can never satisfy an obligation by accident.
                    # an *opaque source* (attribute, element, slice, method call, inverse function) keeps its own name;
                    # a formula the algebra could not follow (arithmetic, a direct mathematical function) does not
                    fname = ast.unparse(st.value.func).split(".")[-1] if isinstance(st.value, ast.Call) else ""
                    formula = isinstance(st.value, (ast.BinOp, ast.UnaryOp)) or fname in (
                        "sqrt", "cos", "sin", "tan", "cosh", "sinh", "tanh", "exp", "log", "abs", "fabs", "cross", "dot", "norm", "array")
                    inverse = not formula
                    for t in st.targets:
                        for nm in ast.walk(t):
                            if isinstance(nm, ast.Name):
                                self.env.pop(nm.id, None)
                                self.unmodelled = getattr(self, "unmodelled", 0) + 1
                                self.env[nm.id] = Poly.atom(nm.id if inverse else f"?{nm.id}#{self.unmodelled}")
            elif isinstance(st, ast.AugAssign) and isinstance(st.target, ast.Name):
                try:
                    cur = self.ev(ast.Name(id=st.target.id, ctx=ast.Load()))
                    v = self.ev(st.value)
                except Unsupported:
                    if stop_on_unsupported or self.strict:
                        raise
                    self.env[st.target.id] = Poly.atom(st.target.id + "'")
                    continue
                ops = {ast.Add: lambda a, b: a + b, ast.Sub: lambda a, b: a - b, ast.Mult: lambda a, b: a * b,
                       ast.Div: lambda a, b: a * power(b, -1)}
                if type(st.op) not in ops:
                    raise Unsupported("augmented op")
                self.env[st.target.id] = elementwise(ops[type(st.op)], cur, v)
            elif isinstance(st, ast.Return):
                if st.value is not None:
                    try:
                        self.env["return"] = self.ev(st.value)
                    except Unsupported:
                        if stop_on_unsupported or self.strict:
                            raise
            elif isinstance(st, ast.Expr):
                continue
        return self.env


def as_poly(x):
    return lift(x)


def fmt(p, limit=160):
    s = repr(normalize(p))
    return s if len(s) <= limit else s[:limit] + "…"


# ---- substitution ---------------------------------------------------------------------------------------

def subs(p, mapping):
    """Substitute atoms (by key) with polynomials, re-normalising opaque applications."""
    out = Poly()
    for k, v in p.d.items():
        term = Poly.const(v)
        for a, e in k:
            term = term * power(_subs_atom(a, mapping), e)
        out = out + term
    return normalize(out)


def _subs_atom(a, mapping):
    if a in mapping:
        return lift(mapping[a])
    info = ATOMS.get(a)
    if not info:
        return Poly.atom(a)
    if info[0] == "base":
        return subs(info[1], mapping)
    f, arg = info[1], subs(info[2], mapping)
    if f in ("cos", "sin"):
        return trig(f, arg)
    if f in ("cosh", "sinh"):
        return hyp(f, arg)
    return Poly.atom(func_atom(f, arg))


def mat_map(fn, M):
    if isinstance(M, list):
        return [mat_map(fn, x) for x in M]
    return fn(M)
