"""D-rules: ownership and freshness of states (shared by C08, C10, C15).

Abstract values of an expression denoting a state (StateVector / Orbit) or a container:
  'fresh'              built here, shares no mutable item with a longer-lived object
  ('shares', root)     shares mutable items (cov, maneuvers list, ...) with `root`
  ('alias', root)      IS the object `root` (parameter, self.orbit, ...)
The classification knows the sharing idioms of this repository (confirmed by reading):
  * `X._data.copy()` / `X._data` handed as **kwargs to a state constructor: shallow → shares with X
  * arithmetic / slicing on a state: numpy's __array_finalize__ shallow-copies `_data` → shares with the operand
  * `X.copy(...)`: per-item copy → fresh (decided for StateVector.copy itself by R15.1)
  * dict comprehension `{k: v.copy() if hasattr(v, 'copy') else v for k, v in X._data.items()}` → fresh
"""
import ast

from .flow import reaching
from .model import call_name, dotted, unparse

STATE_CTORS = {"StateVector", "Orbit", "cls", "self.__class__", "self.tle.__class__", "Ephem"}
MUTATORS = {"append", "extend", "insert", "pop", "remove", "clear", "update", "sort", "reverse", "setdefault", "popitem", "__setitem__"}
LONG_LIVED = ("self.orbit", "self._orbit", "self.tle", "self._orbits", "self.mask")


def per_item_copy_comprehension(node):
    """{k: v.copy() if hasattr(v, 'copy') else v for k, v in X._data.items()} → X text, else None"""
    if isinstance(node, ast.DictComp) and len(node.generators) == 1:
        g = node.generators[0]
        it = unparse(g.iter)
        if it.endswith("._data.items()") and isinstance(node.value, ast.IfExp) and ".copy()" in unparse(node.value.body):
            return it[: -len("._data.items()")]
    return None


class Fresh:
    def __init__(self, func, repo=None, summaries=None, depth=0):
        self.func = func
        self.repo = repo
        self.flow = reaching(func.node)
        self.summaries = summaries if summaries is not None else {}
        self.depth = depth

    def classify(self, node, seen=None):
        """Set of abstract values for `node` (memoised; chains longer than 40 definitions are scalars, not states)."""
        seen = seen or frozenset()
        if id(node) in seen:
            return set()
        if not hasattr(self, "_memo"):
            self._memo = {}
        if id(node) in self._memo:
            return self._memo[id(node)]
        if len(seen) > 40:
            return {"fresh"}
        res = self._classify(node, seen | {id(node)})
        if not seen:
            self._memo[id(node)] = res
        return res

    def _classify(self, node, seen):
        if isinstance(node, ast.Name):
            defs = self.flow.defs_of(node)
            out = set()
            for d in defs:
                if d[0] == "param":
                    out.add(("alias", d[1]))
                elif d[0] in ("assign",):
                    out |= self.classify(d[1], seen)
                elif d[0] == "unpack":
                    v, idx = d[1], d[2]
                    if isinstance(v, (ast.Tuple, ast.List)) and idx is not None and idx < len(v.elts):
                        out |= self.classify(v.elts[idx], seen)
                    else:
                        # element of an array / state: a view of its buffer when the source is long-lived
                        for x in self.classify(v, seen):
                            out.add("fresh" if x == "fresh" else ("view", x[1]) if x[0] in ("alias", "view") else ("shares", x[1]))
                elif d[0] == "aug":
                    for p in d[4]:
                        if p[0] == "assign":
                            out |= self.classify(p[1], seen)
                        elif p[0] == "param":
                            out.add(("alias", p[1]))
                elif d[0] == "for":
                    inner = self.classify(d[1], seen)
                    for v in inner:
                        out.add(("alias", f"element of {v[1]}") if v != "fresh" and v[0] in ("alias", "view") else "fresh" if v == "fresh" else ("shares", v[1]))
                    if not inner:
                        out.add("fresh")
                else:
                    out.add("fresh")
            return out or {"fresh"}
        if isinstance(node, ast.Attribute):
            t = unparse(node)
            if t in LONG_LIVED:
                return {("alias", t)}
            return {"fresh"}
        if isinstance(node, ast.Subscript):
            # a slice of an array is a VIEW: same buffer (element stores write through), own shallow copy of _data
            base = self.classify(node.value, seen)
            out = set()
            for v in base:
                if v == "fresh":
                    out.add("fresh")
                elif v[0] in ("alias", "view"):
                    out.add(("view", v[1]))
                else:
                    out.add(("shares", v[1]))
            return out
        if isinstance(node, ast.BinOp):
            out = set()
            for side in (node.left, node.right):
                for v in self.classify(side, seen):
                    if v != "fresh":
                        out.add(("shares", v[1]))
            return out or {"fresh"}
        if isinstance(node, ast.IfExp):
            return self.classify(node.body, seen) | self.classify(node.orelse, seen)
        if isinstance(node, ast.Call):
            f = node.func
            name = call_name(node)
            if isinstance(f, ast.Attribute) and name == "copy":
                recv = unparse(f.value)
                if recv.endswith("._data"):
                    return {("shares", recv[: -len("._data")])}
                return {"fresh"}
            ft = unparse(f)
            if ft in STATE_CTORS or ft.endswith(".__class__"):
                out = set()
                for k in node.keywords:
                    if k.arg is None:      # **splat
                        src = k.value
                        vals = self._dict_sources(src)
                        out |= vals
                return out or {"fresh"}
            if isinstance(f, ast.Attribute) and name in ("_propagate", "propagate", "interpolate", "as_orbit", "as_statevector") and self.repo is not None:
                tgt = self._resolve_method(f, name)
                if tgt is not None:
                    return self._summary(tgt, node, seen)
            return {"fresh"}
        return {"fresh"}

    def _dict_sources(self, node):
        """Abstract values contributed by a dict handed as **kwargs to a state constructor."""
        if isinstance(node, ast.Name):
            out = set()
            for d in self.flow.defs_of(node):
                if d[0] == "assign":
                    out |= self._dict_sources(d[1])
            return out
        if isinstance(node, ast.Call) and isinstance(node.func, ast.Attribute) and node.func.attr == "copy" and unparse(node.func.value).endswith("._data"):
            return {("shares", unparse(node.func.value)[: -len("._data")])}
        if isinstance(node, ast.Attribute) and node.attr == "_data":
            owner = self.classify(node.value)
            return {("shares", unparse(node.value))} if owner != {"fresh"} else {"fresh"}
        if per_item_copy_comprehension(node) is not None:
            return {"fresh"}
        return {"fresh"}

    def _resolve_method(self, f, name):
        recv = unparse(f.value)
        if recv == "self" and self.func.cls:
            c = self.repo.cls(self.func.module.rel, self.func.cls)
            return self.repo.lookup_method(c, name)
        return None

    def _summary(self, tgt, call, seen=frozenset()):
        """Values returned by `tgt`, with its parameters mapped to the caller's arguments."""
        if self.depth > 3:
            return {"fresh"}
        key = tgt.ref
        sub = Fresh(tgt, self.repo, self.summaries, self.depth + 1)
        out = set()
        params = tgt.params()
        for r in [n for n in ast.walk(tgt.node) if isinstance(n, ast.Return) and n.value is not None]:
            for v in sub.classify(r.value):
                if v == "fresh":
                    out.add(v)
                    continue
                kind, root = v
                base = root.split(" ")[-1]
                if base in params and base != "self":
                    i = params.index(base) - (1 if params and params[0] in ("self", "cls") else 0)
                    if 0 <= i < len(call.args):
                        for av in self.classify(call.args[i], seen):
                            out.add(av if av == "fresh" else ("shares" if kind == "shares" else av[0], av[1]))
                    else:
                        out.add("fresh")
                else:
                    out.add(v)
        return out or {"fresh"}


def stores_through(func, flow=None):
    """[(target text, root origin set, node)] for attribute/subscript stores and mutator calls in func."""
    flow = flow or reaching(func.node)
    out = []
    for n in ast.walk(func.node):
        targets = []
        if isinstance(n, ast.Assign):
            targets = [t for t in n.targets if isinstance(t, (ast.Attribute, ast.Subscript))]
        elif isinstance(n, ast.AugAssign) and isinstance(n.target, (ast.Attribute, ast.Subscript)):
            targets = [n.target]
        elif isinstance(n, ast.Call) and isinstance(n.func, ast.Attribute) and n.func.attr in MUTATORS:
            targets = [n.func]     # receiver is n.func.value
        for t in targets:
            root = t.value
            out.append((unparse(t), root, n))
    return out


# ---- memo census (D4 generalised) ------------------------------------------------------------------------------------

def memo_patterns(repo):
    """Every 'compute once, store, return' pattern in the package:
       `if <guard mentioning key K>: <store under the same K>` where the store target is self.<K>, self._data[K],
       cls.<K> or <obj>._cache[K].  Returns [(func, key, guard_text, store_node)]."""
    out = []
    for f in repo.all_funcs():
        for n in ast.walk(f.node):
            if not isinstance(n, ast.If):
                continue
            gt = unparse(n.test)
            stores = []
            for s in n.body:
                for x in ast.walk(s):
                    if isinstance(x, ast.Assign):
                        for t in x.targets:
                            stores.append((t, x))
            for t, st in stores:
                key = None
                if isinstance(t, ast.Attribute) and isinstance(t.value, ast.Name) and t.value.id in ("self", "cls"):
                    key = t.attr
                elif isinstance(t, ast.Subscript) and isinstance(t.slice, ast.Constant) and isinstance(t.slice.value, str):
                    base = unparse(t.value)
                    if base.endswith("._data") or base.endswith("._cache") or base in ("cache", "cls._dbs"):
                        key = t.slice.value
                if key is None:
                    continue
                mentions = (f"'{key}'" in gt or f'"{key}"' in gt or f".{key}" in gt) and ("not in" in gt or "hasattr" in gt or "is None" in gt)
                if mentions:
                    out.append((f, key, gt, st))
    out += keyed_memo_patterns(repo)
    return out


def keyed_memo_patterns(repo):
    """Look-up-then-store on a mapping that outlives the call: `K in D` / `D.get(K)` / `D.setdefault(K, …)` together with
    `D[K] = …` in one function, D being an attribute, a class attribute or a module-level name (not a local of the
    function) and K not a literal.  That is a cache (or a registry) keyed by K."""
    from .vgraph import assigned_names
    out = []
    for f in repo.all_funcs():
        locals_ = set(assigned_names(f.node.body)) | {x for x in f.params() if x not in ("self", "cls")}   # a mapping handed in by the caller is the caller's
        stores = {}
        for n in ast.walk(f.node):
            if isinstance(n, ast.Assign):
                for t in n.targets:
                    if isinstance(t, ast.Subscript) and not isinstance(t.slice, ast.Constant):
                        base = unparse(t.value)
                        root = base.split(".")[0].split("[")[0]
                        if root not in locals_ or root in ("self", "cls"):
                            stores.setdefault(base, []).append((unparse(t.slice), n))
        if not stores:
            continue
        tests = []
        for n in ast.walk(f.node):
            if isinstance(n, ast.Compare) and len(n.ops) == 1 and isinstance(n.ops[0], (ast.In, ast.NotIn)):
                tests.append((unparse(n.comparators[0]).replace(".keys()", ""), unparse(n.left), unparse(n)))
            if isinstance(n, ast.Call) and isinstance(n.func, ast.Attribute) and n.func.attr in ("get", "setdefault") and n.args:
                tests.append((unparse(n.func.value), unparse(n.args[0]), unparse(n)))
            if isinstance(n, ast.Try) and any(h.type is not None and "KeyError" in unparse(h.type) for h in n.handlers):
                for x in n.body:
                    y = x.value if isinstance(x, (ast.Return, ast.Assign)) else None
                    if isinstance(y, ast.Subscript) and isinstance(y.ctx, ast.Load):
                        tests.append((unparse(y.value), unparse(y.slice), "try: " + unparse(y)))
        done = set()
        for base, keys in stores.items():
            for tb, tk, gt in tests:
                for k, st in keys:
                    if tb == base and tk == k and (base,) not in done:
                        done.add((base,))
                        out.append((f, f"{base}[{k}]", gt, st))
    return out

# table A4 — memos confirmed by reading, with the reason each is safe
MEMO_TABLE = {
    ("beyond/dates/date.py::Date.__str__", "str"): "Date is immutable",
    ("beyond/dates/date.py::Date.datetime", "dt_scale"): "Date is immutable",
    ("beyond/dates/date.py::Date._datetime", "dt"): "Date is immutable",
    ("beyond/dates/eop.py::EopDb._load_entry_points", "_entry_points_loaded"): "process-wide one-shot flag",
    ("beyond/env/jpl.py::Bsp.__new__", "_instance"): "singleton of the configured kernels",
    ("beyond/env/jpl.py::Bsp.spk", "_spk"): "kernel files are read once",
    ("beyond/env/jpl.py::Pck.__new__", "_instance"): "singleton of the configured constants",
    ("beyond/orbits/ephem.py::Ephem.interp", "_interp"): "dropped by the frame/form setters (D4)",
    ("beyond/orbits/statevector.py::Infos.kep", "_kep"): "Infos is rebuilt at every `.infos` access, so the memo lives for one access chain",
    ("beyond/orbits/statevector.py::Infos.sphe", "_sphe"): "idem",
    ("beyond/propagators/cw.py::ClohessyWiltshire.n", "_n"): "sma and frame are only set by the constructor (D4)",
    # keyed mappings that outlive the call (registries, not caches of computed results)
    ("beyond/dates/eop.py::EopDb.db", "cls._dbs[dbname]"): "registry of EOP database instances by configured name",
    ("beyond/dates/eop.py::EopDb.register", "cls._dbs[name]"): "registry of EOP database classes by name",
    ("beyond/env/jpl.py::create_frames", "_frame_cache[center.name]"): "one JplFrame per kernel body, created when the kernels are read",
    ("beyond/env/jpl.py::create_frames", "_propagator_cache[target.name]"): "one JplPropagator per kernel body, created when the kernels are read",
    ("beyond/frames/frames.py::Frame.__init__", "dynamic[name]"): "registry of frames by name (re-registration warned and overriding)",
    ("beyond/utils/node.py::Node._update", "self.routes[name]"): "routing table rebuilt from scratch at every update (R20.4)",
}
CACHE_DECORATORS = ("lru_cache", "cache", "cached_property", "memoize")
MEMOIZE_DECORATED = {"beyond/frames/iau1980.py::_tab": "file table", "beyond/frames/iau1980.py::_nutation": "keyed by str(date) + options: pure function of its arguments",
                     "beyond/frames/iau2010.py::_tab": "file tables"}


def memo_census(chk, rule, only=None):
    """Every memo in the package is in table A4; `only` restricts the report to memos of the given function refs."""
    from .model import loc
    seen = set()
    for f, key, guard, st in memo_patterns(chk.repo):
        ent = (f.ref, key)
        if only is not None and f.ref not in only:
            continue
        seen.add(ent)
        reason = MEMO_TABLE.get(ent)
        chk.inst(rule, f"{f.ref}::memo::{key}", reason is not None, f"tabled memo: {reason}" if reason else
                 f"`if {guard}:` stores `{key}` and later accesses reuse it: a cache on a mutable object that no writer invalidates "
                 f"(derived quantities keep the values of the first access after the object changes, and copies carry the stale cache)", loc(f, st))
    for f in chk.repo.all_funcs():
        cached = [d for d in f.decorators if d.split("(")[0].split(".")[-1] in CACHE_DECORATORS]
        if cached and (only is None or f.ref in only):
            ok = f.ref in MEMOIZE_DECORATED
            chk.inst(rule, f"{f.ref}::memoize", ok, f"tabled: {MEMOIZE_DECORATED.get(f.ref)}" if ok else
                     f"new caching decorator @{cached[0]}: results now depend on what was asked before unless every input is in the key", loc(f, f.node))
    return seen


def memo_rule(chk, files):
    """MEMO: no cache in the anchored files beyond the tabled ones — a result that depends on what was computed before
    breaks every property that quantifies over histories / call sequences."""
    chk.rule("MEMO", "every look-up-then-store (cache, registry, memo decorator) in the anchored files and in the files of the DEP table is a tabled one")
    refs = {f.ref for f in chk.repo.all_funcs() if f.module.rel in files}
    memo_census(chk, "MEMO", only=refs)


def fresh_infos(chk, rule):
    """`StateVector.infos` hands out an Infos built from the current state at every access."""
    from .model import loc
    f = chk.repo.func("beyond/orbits/statevector.py", "StateVector.infos")
    memos = [m for m in memo_patterns(chk.repo) if m[0].ref == f.ref]
    builds = [n for n in ast.walk(f.node) if isinstance(n, ast.Call) and unparse(n.func) == "Infos" and [unparse(a) for a in n.args] == ["self"]]
    ok = not memos and len(builds) == 1
    chk.inst(rule, f"{f.ref}::rebuilt-per-access", ok, "Infos(self) is rebuilt at every access (its guard never finds a stored object), so derived quantities follow the state" if ok else
             "the Infos object is cached in the state's metadata: mean motion, period, … keep the values of the first access after the elements change, and copies carry it", loc(f, f.node))


def shared_class_state(chk, rule, only_modules=None):
    """`self.x = SomeClass` (the class object, not an instance) followed by `self.x.attr = …` stores: the writes land on the
    class, i.e. on state shared by every instance of the owner."""
    from .model import loc
    n = 0
    for c in chk.repo.all_classes():
        if only_modules is not None and c.module.rel not in only_modules:
            continue
        for f in list(c.methods.values()) + list(c.setters.values()):
            holders = {}
            for st in ast.walk(f.node):
                if isinstance(st, ast.Assign) and len(st.targets) == 1 and isinstance(st.targets[0], ast.Attribute) and unparse(st.targets[0].value) == "self":
                    v = st.value
                    is_cls = isinstance(v, ast.Name) and isinstance(chk.repo.resolve_name(c.module, v.id), type(c))
                    is_inst = isinstance(v, ast.Call) and isinstance(v.func, ast.Name) and isinstance(chk.repo.resolve_name(c.module, v.func.id), type(c))
                    if is_cls or is_inst:
                        holders[st.targets[0].attr] = (is_cls, st)
            for attr, (is_cls, st) in holders.items():
                writes = [w for w in ast.walk(f.node) if isinstance(w, ast.Assign) and any(
                    isinstance(t, ast.Attribute) and unparse(t.value) == f"self.{attr}" for t in w.targets)]
                if not writes:
                    continue
                n += 1
                chk.inst(rule, f"{f.ref}::self.{attr}", not is_cls, f"`self.{attr}` is a fresh instance; {len(writes)} attributes are stored on it" if not is_cls else
                         f"`self.{attr} = {unparse(st.value)}` binds the class itself, and {len(writes)} attributes are then stored on it: they are shared by every "
                         f"instance, so initialising a second object overwrites the constants of the first", loc(f, st))
    return n
