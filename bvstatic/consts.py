"""E4 — exact constant folding of literal expressions (Fractions), lists, dicts, array([...]) wrappers."""
import ast
from fractions import Fraction as F


class NotConstant(Exception):
    pass


def fold(node, env=None):
    """Evaluate a literal expression exactly.  Floats are taken at their decimal text value."""
    env = env or {}
    if isinstance(node, ast.Constant):
        v = node.value
        if isinstance(v, bool) or v is None or isinstance(v, str):
            return v
        if isinstance(v, int):
            return F(v)
        if isinstance(v, float):
            return F(repr(v))
        raise NotConstant(repr(v))
    if isinstance(node, ast.Name):
        if node.id in env:
            return env[node.id]
        raise NotConstant(node.id)
    if isinstance(node, ast.UnaryOp):
        v = fold(node.operand, env)
        if isinstance(node.op, ast.USub):
            return -v
        if isinstance(node.op, ast.UAdd):
            return v
    if isinstance(node, ast.BinOp):
        l, r = fold(node.left, env), fold(node.right, env)
        if isinstance(l, F) and isinstance(r, F):
            if isinstance(node.op, ast.Add):
                return l + r
            if isinstance(node.op, ast.Sub):
                return l - r
            if isinstance(node.op, ast.Mult):
                return l * r
            if isinstance(node.op, ast.Div):
                return l / r
            if isinstance(node.op, ast.Pow) and r.denominator == 1:
                return l ** int(r)
        raise NotConstant(ast.unparse(node))
    if isinstance(node, (ast.List, ast.Tuple)):
        return [fold(e, env) for e in node.elts]
    if isinstance(node, ast.Dict):
        return {fold(k, env): fold(v, env) for k, v in zip(node.keys, node.values)}
    if isinstance(node, ast.Call):
        fn = ast.unparse(node.func).split(".")[-1]
        if fn in ("array", "asarray") and node.args:
            return fold(node.args[0], env)
    raise NotConstant(ast.unparse(node)[:60])
