"""E4 — exact constant folding of literal expressions (Fractions), lists, dicts, array([...]) wrappers."""
import ast
from fractions import Fraction as F


class NotConstant(Exception):
    pass


def fold(node, env=None):
    """Evaluate a literal expression exactly.  Floats are taken at their decimal text value."""
    env = env or {}
    if isinstance(node, ast.Constant):
        v = node.value
        if isinstance(v, bool) or v is None or isinstance(v, str):
            return v
        if isinstance(v, int):
            return F(v)
        if isinstance(v, float):
            return F(repr(v))
        raise NotConstant(repr(v))
    if isinstance(node, ast.Name):
        if node.id in env:
            return env[node.id]
        raise NotConstant(node.id)
    if isinstance(node, ast.UnaryOp):
        v = fold(node.operand, env)
        if isinstance(node.op, ast.USub):
            return -v
        if isinstance(node.op, ast.UAdd):
            return v
    if isinstance(node, ast.BinOp):
        l, r = fold(node.left, env), fold(node.right, env)
        if isinstance(l, F) and isinstance(r, F):
            if isinstance(node.op, ast.Add):
                return l + r
            if isinstance(node.op, ast.Sub):
                return l - r
            if isinstance(node.op, ast.Mult):
                return l * r
            if isinstance(node.op, ast.Div):
                return l / r
            if isinstance(node.op, ast.Pow) and r.denominator == 1:
                return l ** int(r)
        raise NotConstant(ast.unparse(node))
    if isinstance(node, (ast.List, ast.Tuple)):
        return [fold(e, env) for e in node.elts]
    if isinstance(node, ast.Dict):
        return {fold(k, env): fold(v, env) for k, v in zip(node.keys, node.values)}
    if isinstance(node, ast.Call):
        fn = ast.unparse(node.func).split(".")[-1]
        if fn in ("array", "asarray") and node.args:
            return fold(node.args[0], env)
    raise NotConstant(ast.unparse(node)[:60])


# ---- finite string sets for keys built in loops -----------------------------------------------------------

def small_eval(node, env):
    """Evaluate a *literal computation* (lists, dict literals, ranges, slices, f-strings, + on ints) over `env`.
    Only the whitelisted node kinds are interpreted; anything else raises NotConstant."""
    if isinstance(node, ast.Constant):
        return node.value
    if isinstance(node, ast.Name):
        if node.id in env:
            return env[node.id]
        raise NotConstant(node.id)
    if isinstance(node, (ast.List, ast.Tuple)):
        return [small_eval(e, env) for e in node.elts]
    if isinstance(node, ast.Dict):
        return {small_eval(k, env): small_eval(v, env) if _is_lit(v, env) else None for k, v in zip(node.keys, node.values)}
    if isinstance(node, ast.BinOp) and isinstance(node.op, (ast.Add, ast.Sub)):
        l, r = small_eval(node.left, env), small_eval(node.right, env)
        return l + r if isinstance(node.op, ast.Add) else l - r
    if isinstance(node, ast.Subscript):
        v = small_eval(node.value, env)
        if isinstance(node.slice, ast.Slice):
            lo = small_eval(node.slice.lower, env) if node.slice.lower is not None else None
            hi = small_eval(node.slice.upper, env) if node.slice.upper is not None else None
            return v[lo:hi]
        return v[small_eval(node.slice, env)]
    if isinstance(node, ast.Call):
        fn = ast.unparse(node.func)
        if fn == "range":
            return list(range(*[small_eval(a, env) for a in node.args]))
        if fn == "enumerate":
            return [[i, x] for i, x in enumerate(small_eval(node.args[0], env))]
        if isinstance(node.func, ast.Attribute) and node.func.attr == "items":
            d = small_eval(node.func.value, env)
            return [[k, v] for k, v in d.items()]
        if isinstance(node.func, ast.Attribute) and node.func.attr == "keys":
            return list(small_eval(node.func.value, env).keys())
        if fn == "str":
            return str(small_eval(node.args[0], env))
    if isinstance(node, ast.JoinedStr):
        out = ""
        for p in node.values:
            if isinstance(p, ast.Constant):
                out += str(p.value)
            else:
                v = small_eval(p.value, env)
                spec = ""
                if p.format_spec is not None:
                    spec = "".join(str(x.value) for x in p.format_spec.values if isinstance(x, ast.Constant))
                out += format(v, spec)
        return out
    raise NotConstant(ast.unparse(node)[:60])


def _is_lit(node, env):
    try:
        small_eval(node, env)
        return True
    except (NotConstant, Exception):
        return False


def bind(target, value, env):
    if isinstance(target, ast.Name):
        env[target.id] = value
    elif isinstance(target, (ast.Tuple, ast.List)):
        for t, v in zip(target.elts, value):
            bind(t, v, env)


def relevant_loops(expr, loops):
    """Drop enclosing loops whose variables the expression (transitively) does not use."""
    needed = {n.id for n in ast.walk(expr) if isinstance(n, ast.Name)}
    keep = []
    for lp in reversed(loops):
        tn = {n.id for n in ast.walk(lp.target) if isinstance(n, ast.Name)}
        if tn & needed:
            keep.append(lp)
            needed -= tn          # bound here: outer loops with the same names are shadowed
            needed |= {n.id for n in ast.walk(lp.iter) if isinstance(n, ast.Name)}
    return list(reversed(keep))


def enum_in_loops(expr, loops, env, _filtered=False):
    """All values of `expr` when the enclosing `loops` (outermost first; ast.For or comprehension) run over literal domains."""
    if not _filtered:
        loops = relevant_loops(expr, loops)
    if not loops:
        try:
            return [small_eval(expr, env)]
        except NotConstant:
            return None
    lp = loops[0]
    try:
        dom = small_eval(lp.iter, env)
    except NotConstant:
        return None
    out = []
    for v in dom:
        e2 = dict(env)
        bind(lp.target, v, e2)
        sub = enum_in_loops(expr, loops[1:], e2, True)
        if sub is None:
            return None
        out.extend(sub)
    return out
