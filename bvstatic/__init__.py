"""bvstatic — static analysis deciding properties C01–C20 of galactics/beyond."""
