#!/venv/bin/python
"""Pin the E8 fingerprints of every function of the current /repo tree (bvstatic/data/vgraph.json) and the verdict of
every rule instance on it (bvstatic/data/pinned_verdicts.json).  Run after the tree or the rules change; never at check time."""
import json, os, subprocess, sys, tempfile
sys.path.insert(0, "/verif")
from bvstatic.model import Repo
from bvstatic import equiv
repo = Repo()
fp = equiv.tree_fingerprints(repo)
json.dump(fp, open("/verif/bvstatic/data/vgraph.json", "w"), indent=0, sort_keys=True)
n = sum(len(m["funcs"]) for m in fp["modules"].values())
tx = [f"{rel}::{k}" for rel, m in fp["modules"].items() for k, v in m["funcs"].items() if v.startswith("tx:")]
print("helpers evaluated in place:", len(fp["helpers"]), fp["helpers"])
print("actually inlined:", sorted({h for m in fp["modules"].values() for h in m["inlined"]}))
print(f"vgraph: {n} functions, {len(tx)} by text fallback")
for t in tx:
    print("   tx:", t)
