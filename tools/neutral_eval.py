#!/venv/bin/python
"""neutral_eval.py <dir with patch_*.diff> [props...]
False-alarm test: apply each behaviour-preserving patch to a scratch copy of /repo/beyond (never /repo itself), run every
quick check against the copy (BVSTATIC_REPO), and print the checks that fire (rc 1) or cannot analyse (rc 2).
The scratch copies live under a fresh temp dir and are removed at the end."""
import glob
import json
import os
import shutil
import subprocess
import sys
import tempfile
from concurrent.futures import ThreadPoolExecutor

PY = "/venv/bin/python"
ROOT = os.path.dirname(os.path.dirname(os.path.abspath(__file__)))      # the tree this tool lives in (a `vp run` snapshot, or /verif)


def sh(cmd, **kw):
    return subprocess.run(cmd, stdout=subprocess.PIPE, stderr=subprocess.STDOUT, text=True, **kw)


def one(patch, props, base):
    name = os.path.basename(os.path.dirname(patch)) + "/" + os.path.basename(patch)
    d = tempfile.mkdtemp(prefix="nt_", dir=base)
    try:
        shutil.copytree("/repo/beyond", os.path.join(d, "beyond"))
        r = sh(["git", "apply", patch], cwd=d)
        if r.returncode:
            r = sh(["patch", "-p1", "-s", "-i", patch], cwd=d)
            if r.returncode:
                return name, {"_apply": (3, [r.stdout.strip()[:200]])}
        ev = os.path.join(d, "_ev")
        env = dict(os.environ, BVSTATIC_REPO=d, BVSTATIC_EVIDENCE=ev)
        res = {}
        for p in props:
            r = sh([PY, "-B", "-m", "bvstatic", p, "--tier", "quick"], cwd=ROOT, env=env)
            if r.returncode:
                fails = [l.strip()[:260] for l in r.stdout.splitlines() if l.strip().startswith("FAIL") or "ANALYSIS-ERROR" in l]
                res[p] = (r.returncode, fails)
        return name, res
    finally:
        shutil.rmtree(d, ignore_errors=True)


def main():
    src = os.path.abspath(sys.argv[1])
    man = json.load(open("/verif/MANIFEST.json"))
    props = sys.argv[2:] or [c["property_id"] for c in man["checks"]]
    patches = sorted(glob.glob(os.path.join(src, "patch_*.diff")))
    base = tempfile.mkdtemp(prefix="neutral_")
    try:
        with ThreadPoolExecutor(8) as ex:
            out = list(ex.map(lambda p: one(p, props, base), patches))
    finally:
        shutil.rmtree(base, ignore_errors=True)
    bad = 0
    for name, res in out:
        if not res:
            print(f"{name}: silent")
            continue
        bad += 1
        print(f"{name}: ALARM {sorted(res)}")
        for p, (rc, fails) in sorted(res.items()):
            for f in fails[:5]:
                print(f"    {p} rc={rc} {f}")
    print(f"{len(out)} patches, {bad} raise an alarm")


if __name__ == "__main__":
    main()
