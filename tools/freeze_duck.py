#!/venv/bin/python
"""Pin, for every name probed by hasattr / getattr-with-default anywhere in the package, the classes that define it
(bvstatic/data/duck.json).  Run after the tree changes; never at check time."""
import json, sys
sys.path.insert(0, "/verif")
from bvstatic.model import Repo
from bvstatic.rules.common import duck_probes, duck_definers
repo = Repo()
probes = duck_probes(repo)
defs = duck_definers(repo, probes)
classes = sorted(f"{m.rel}::{c.name}" for m in repo.modules.values() for c in m.classes.values())
json.dump({"definers": defs, "classes": classes, "probes": {k: v for k, v in sorted(probes.items())}},
          open("/verif/bvstatic/data/duck.json", "w"), indent=0, sort_keys=True)
for k in sorted(probes):
    print(f"{k:22} probed {len(probes[k]):2}x  defined by {len(defs[k])}: {', '.join(d.split('::')[1] for d in defs[k])[:110]}")
