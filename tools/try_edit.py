#!/venv/bin/python
"""try_edit.py <rel file> <old> <new> [props...] : apply one textual replacement to a scratch copy of /repo/beyond and run
the quick checks against it (never /repo itself).  Prints which checks fire and their failing instances."""
import json, os, shutil, subprocess, sys, tempfile
from concurrent.futures import ThreadPoolExecutor

PY = "/venv/bin/python"


def run(edits, props=None, show=4):
    man = json.load(open("/verif/MANIFEST.json"))
    props = props or [c["property_id"] for c in man["checks"]]
    d = tempfile.mkdtemp(prefix="bvtry_")
    try:
        shutil.copytree("/repo/beyond", os.path.join(d, "beyond"))
        for rel, old, new in edits:
            p = os.path.join(d, rel)
            s = open(p).read()
            if old not in s:
                return {"error": f"text not found in {rel}: {old[:60]!r}"}
            s = s.replace(old, new, 1)
            compile(s, p, "exec")
            open(p, "w").write(s)
        env = dict(os.environ, BVSTATIC_REPO=d, BVSTATIC_EVIDENCE=os.path.join(d, "_ev"))

        def one(p):
            r = subprocess.run([PY, "-B", "-m", "bvstatic", p, "--tier", "quick"], cwd="/verif", env=env, capture_output=True, text=True)
            fails = [l.strip()[:200] for l in r.stdout.splitlines() if l.strip().startswith("FAIL") or "ANALYSIS-ERROR" in l]
            return p, (r.returncode, fails)
        with ThreadPoolExecutor(8) as ex:
            return dict(ex.map(one, props))
    finally:
        shutil.rmtree(d, ignore_errors=True)


if __name__ == "__main__":
    rel, old, new = sys.argv[1:4]
    res = run([(rel, old.encode().decode("unicode_escape"), new.encode().decode("unicode_escape"))], sys.argv[4:] or None)
    if "error" in res:
        print(res["error"]); sys.exit(2)
    for p, (rc, fails) in sorted(res.items()):
        if rc:
            print(p, "rc=", rc)
            for f in fails[:4]:
                print("    ", f)
    print("fired:", sorted(p for p, (rc, _) in res.items() if rc == 1), "exit2:", sorted(p for p, (rc, _) in res.items() if rc == 2))
