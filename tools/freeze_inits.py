#!/venv/bin/python
"""Pin the module-level statements of every package __init__.py (bvstatic/data/inits.json)."""
import json, sys
sys.path.insert(0, "/verif")
from bvstatic.model import Repo
from bvstatic.rules.common import init_statements
repo = Repo()
out = {rel: init_statements(repo, rel) for rel in sorted(repo.modules) if rel.endswith("__init__.py")}
json.dump(out, open("/verif/bvstatic/data/inits.json", "w"), indent=0, sort_keys=True)
for k, v in out.items():
    print(k, len(v))
