#!/venv/bin/python
"""e8_diff.py <patch.diff> [function-substring]: explain where the E8 value graphs of the reference and the patched
function first differ (debugging aid for vgraph.py)."""
import ast, os, re, shutil, subprocess, sys, tempfile
sys.path.insert(0, "/verif")
from bvstatic import vgraph, equiv
from bvstatic.model import Repo

def fps(root):
    vgraph.PRE = {}
    r = equiv.tree_fingerprints(Repo(root))
    pre = vgraph.PRE
    vgraph.PRE = None
    return r, pre

def show(h, pre, depth=0, maxd=2):
    p = pre.get(h[3:] if h.startswith(("vg:", "P:")) else h)
    if p is None or depth > maxd:
        return str(h)[:12]
    return "(" + " ".join(show(x, pre, depth + 1, maxd) if isinstance(x, str) and len(x) in (20, 22, 23) else str(x)[:30] for x in p) + ")"

def strip(h):
    h = str(h)
    for pfx in ("vg:", "P:"):
        if h.startswith(pfx):
            h = h[len(pfx):]
    return h

def diff(a, b, pa, pb, path, out, seen):
    a, b = strip(a), strip(b)
    if a == b or (a, b) in seen or len(out) > 6:
        return
    seen.add((a, b))
    x, y = pa.get(a), pb.get(b)
    if x is None or y is None or len(x) != len(y) or x[0] != y[0]:
        out.append((path, show(a, pa), show(b, pb)))
        return
    n0 = len(out)
    for i, (u, v) in enumerate(zip(x, y)):
        if str(u) != str(v):
            if strip(u) in pa and strip(v) in pb:
                diff(u, v, pa, pb, path + [f"{x[0]}[{i}]"], out, seen)
            else:
                out.append((path + [f"{x[0]}[{i}]"], str(u)[:60], str(v)[:60]))
    return

patch = os.path.abspath(sys.argv[1])
sub = sys.argv[2] if len(sys.argv) > 2 else ""
d = tempfile.mkdtemp(prefix="e8d_")
try:
    shutil.copytree("/repo/beyond", d + "/beyond")
    subprocess.check_call(["git", "apply", patch], cwd=d)
    ra, pa = fps("/repo")
    rb, pb = fps(d)
    for rel, m in ra["modules"].items():
        for k, fa in m["funcs"].items():
            fb = rb["modules"].get(rel, {"funcs": {}})["funcs"].get(k)
            if fb is not None and fa != fb and sub in k:
                print("==", rel, k, fa[:14], fb[:14])
                out = []
                diff(fa, fb, pa, pb, [], out, set())
                for path, u, v in out[:6]:
                    print("  at", "/".join(path[-6:]))
                    print("     ref:", u[:300])
                    print("     cur:", v[:300])
finally:
    shutil.rmtree(d, ignore_errors=True)
