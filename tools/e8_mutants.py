#!/venv/bin/python
"""Soundness audit of E8 by generated mutants: every single-point behaviour-changing edit of a function must change its
fingerprint.  Mutants whose fingerprint equals the original's are printed for triage (equivalent mutant, or E8 bug)."""
import ast, copy, sys, random
sys.path.insert(0, "/verif")
from concurrent.futures import ProcessPoolExecutor
from bvstatic.model import Repo
from bvstatic import vgraph

SWAP_BIN = {ast.Add: ast.Sub, ast.Sub: ast.Add, ast.Mult: ast.Div, ast.Div: ast.Mult, ast.Pow: ast.Mult, ast.Mod: ast.FloorDiv,
            ast.FloorDiv: ast.Mod, ast.MatMult: ast.Mult}
SWAP_CMP = {ast.Lt: ast.LtE, ast.LtE: ast.Lt, ast.Gt: ast.GtE, ast.GtE: ast.Gt, ast.Eq: ast.NotEq, ast.NotEq: ast.Eq,
            ast.Is: ast.IsNot, ast.IsNot: ast.Is, ast.In: ast.NotIn, ast.NotIn: ast.In}


def sites(fn):
    """(description, mutator) pairs; the mutator edits a deep copy located by node index."""
    nodes = list(ast.walk(fn))
    out = []
    for idx, n in enumerate(nodes):
        if isinstance(n, ast.BinOp) and type(n.op) in SWAP_BIN:
            out.append((idx, "binop", lambda m: setattr(m, "op", SWAP_BIN[type(m.op)]())))
            out.append((idx, "binswap", lambda m: (lambda l, r: (setattr(m, "left", r), setattr(m, "right", l)))(m.left, m.right)))
        if isinstance(n, ast.Compare):
            if type(n.ops[0]) in SWAP_CMP:
                out.append((idx, "cmpop", lambda m: m.ops.__setitem__(0, SWAP_CMP[type(m.ops[0])]())))
        if isinstance(n, ast.BoolOp):
            out.append((idx, "boolop", lambda m: setattr(m, "op", ast.Or() if isinstance(m.op, ast.And) else ast.And())))
        if isinstance(n, ast.UnaryOp) and isinstance(n.op, (ast.Not, ast.USub)):
            out.append((idx, "unary-drop", "replace-operand"))
        if isinstance(n, ast.Constant) and not isinstance(n.value, (bytes, type(None), type(Ellipsis))):
            if isinstance(n.value, bool):
                out.append((idx, "const", lambda m: setattr(m, "value", not m.value)))
            elif isinstance(n.value, (int, float)):
                out.append((idx, "const", lambda m: setattr(m, "value", m.value + 1)))
            elif isinstance(n.value, str) and n is not getattr(getattr(fn.body[0], "value", None), "value", None):
                out.append((idx, "const", lambda m: setattr(m, "value", m.value + "x")))
        if isinstance(n, ast.Call):
            if len(n.args) >= 2:
                out.append((idx, "argswap", lambda m: m.args.__setitem__(slice(0, 2), [m.args[1], m.args[0]])))
            if isinstance(n.func, ast.Attribute) and n.func.attr == "copy" and not n.args and not n.keywords:
                out.append((idx, "drop-copy", "replace-receiver"))
            if n.keywords:
                out.append((idx, "drop-kw", lambda m: m.keywords.pop()))
        if isinstance(n, ast.If):
            out.append((idx, "if-swap", lambda m: (lambda b, o: (setattr(m, "body", o or [ast.Pass()]), setattr(m, "orelse", b)))(m.body, m.orelse)))
            out.append((idx, "if-negate", lambda m: setattr(m, "test", ast.UnaryOp(op=ast.Not(), operand=m.test))))
        if isinstance(n, ast.Break):
            out.append((idx, "break->continue", "continue"))
        if isinstance(n, ast.Continue):
            out.append((idx, "continue->break", "break"))
        if isinstance(n, ast.Slice):
            if n.lower is not None:
                out.append((idx, "slice-lo", lambda m: setattr(m, "lower", ast.BinOp(left=m.lower, op=ast.Add(), right=ast.Constant(value=1)))))
            if n.upper is not None:
                out.append((idx, "slice-up", lambda m: setattr(m, "upper", ast.BinOp(left=m.upper, op=ast.Sub(), right=ast.Constant(value=1)))))
        if isinstance(n, ast.Return) and n.value is not None and not isinstance(n.value, ast.Constant):
            out.append((idx, "return-none", lambda m: setattr(m, "value", None)))
        if isinstance(n, ast.Attribute) and isinstance(n.ctx, ast.Load):
            out.append((idx, "attr-rename", lambda m: setattr(m, "attr", m.attr + "_")))
        if isinstance(n, ast.Subscript) and isinstance(n.slice, ast.Constant) and isinstance(n.slice.value, int):
            out.append((idx, "index", lambda m: setattr(m, "slice", ast.Constant(value=m.slice.value + 1))))
    # structural: a try / with / loop-else / decorator / default dissolved
    for idx, n in enumerate(nodes):
        for field in ("body", "orelse", "finalbody"):
            lst = getattr(n, field, None)
            if isinstance(lst, list) and lst and isinstance(lst[0], ast.stmt):
                for k, st in enumerate(lst):
                    if isinstance(st, ast.Try):
                        out.append((idx, f"untry-{field}-{k}", ("untry", field, k)))
                        if st.handlers:
                            out.append((idx, f"drop-handlers-{field}-{k}", ("unhandle", field, k)))
                    if isinstance(st, ast.With):
                        out.append((idx, f"unwith-{field}-{k}", ("unwith", field, k)))
                    if isinstance(st, (ast.For, ast.While)) and st.orelse:
                        out.append((idx, f"drop-loop-else-{field}-{k}", ("unelse", field, k)))
    if isinstance(fn, ast.FunctionDef) and fn.decorator_list:
        out.append((0, "drop-decorator", lambda m: m.decorator_list.pop()))
    if isinstance(fn, ast.FunctionDef) and fn.args.defaults:
        out.append((0, "drop-default", lambda m: m.args.defaults.pop(0) if len(m.args.defaults) and len(m.args.args) > len(m.args.defaults) else m.args.defaults.__setitem__(0, ast.Constant(value=12345))))
    # statement deletions / duplications / swaps
    for idx, n in enumerate(nodes):
        for field in ("body", "orelse", "finalbody"):
            lst = getattr(n, field, None)
            if isinstance(lst, list) and lst and isinstance(lst[0], ast.stmt):
                for k, st in enumerate(lst):
                    if isinstance(st, (ast.Assign, ast.AugAssign, ast.Expr, ast.Raise, ast.Return, ast.Continue, ast.Break)) \
                            and not (isinstance(st, ast.Expr) and isinstance(st.value, ast.Constant)):
                        out.append((idx, f"del-{field}-{k}", ("del", field, k)))
                    if k + 1 < len(lst):
                        out.append((idx, f"swap-{field}-{k}", ("swap", field, k)))
    return out


class Rep(ast.NodeTransformer):
    def __init__(self, target, how):
        self.target, self.how = target, how

    def visit(self, node):
        if node is self.target:
            if self.how == "replace-operand":
                return node.operand
            if self.how == "replace-receiver":
                return node.func.value
            if self.how == "continue":
                return ast.Continue()
            if self.how == "break":
                return ast.Break()
        return self.generic_visit(node)


def work(args):
    rel, = args
    repo = Repo()
    m = repo.modules[rel]
    tree = ast.parse(m.source)
    known = set(repo.by_name)
    res = []
    base = vgraph.module_fingerprints(tree, m.name, m.is_pkg, known, INL)

    def all_funcs(t):
        for st in t.body:
            if isinstance(st, ast.FunctionDef):
                yield st.name, st
            elif isinstance(st, ast.ClassDef):
                for x in st.body:
                    if isinstance(x, ast.FunctionDef):
                        yield f"{st.name}.{x.name}", x
    n_mut = 0
    rnd = random.Random(1)
    for fi, (key, fn) in enumerate(all_funcs(tree)):
        ss = sites(fn)
        if len(ss) > LIMIT:
            ss = rnd.sample(ss, LIMIT)
        for idx, what, mut in ss:
            t2 = copy.deepcopy(tree)
            fn2 = list(all_funcs(t2))[fi][1]
            nodes = list(ast.walk(fn2))
            target = nodes[idx]
            descr = (ast.unparse(target)[:100] if not isinstance(mut, tuple) else mut[0] + ": " + ast.unparse(getattr(target, mut[1])[mut[2]])[:100]).replace("\n", " ")
            try:
                if callable(mut):
                    mut(target)
                elif isinstance(mut, tuple) and mut[0] in ("untry", "unhandle", "unwith", "unelse"):
                    lst = getattr(target, mut[1])
                    st_ = lst[mut[2]]
                    if mut[0] == "untry":
                        lst[mut[2]:mut[2] + 1] = list(st_.body) + list(st_.orelse) + list(st_.finalbody)
                    elif mut[0] == "unhandle":
                        if st_.finalbody:
                            st_.handlers = []
                        else:
                            lst[mut[2]:mut[2] + 1] = list(st_.body) + list(st_.orelse)
                    elif mut[0] == "unwith":
                        lst[mut[2]:mut[2] + 1] = list(st_.body)
                    else:
                        st_.orelse = []
                elif isinstance(mut, tuple):
                    lst = getattr(target, mut[1])
                    if mut[0] == "del":
                        del lst[mut[2]]
                        if not lst:
                            lst.append(ast.Pass())
                    else:
                        lst[mut[2]], lst[mut[2] + 1] = lst[mut[2] + 1], lst[mut[2]]
                else:
                    Rep(target, mut).visit(t2)
                ast.fix_missing_locations(t2)
                compile(t2, rel, "exec")
            except Exception:
                continue
            n_mut += 1
            cur = vgraph.module_fingerprints(t2, m.name, m.is_pkg, known, INL)
            if cur["funcs"] == base["funcs"] and cur["residue"] == base["residue"]:
                res.append((rel, key, what, descr))
    return n_mut, res


LIMIT = int(sys.argv[1]) if len(sys.argv) > 1 else 40
repo0 = Repo()
trees0 = {m.name: ast.parse(m.source) for m in repo0.modules.values()}


def _sd(mod, cls, name):
    m = repo0.by_name.get(mod)
    c = m.classes.get(cls) if m else None
    if c is None:
        return True
    return any(name in sub.methods or name in sub.setters for sub in repo0.subclasses(c, strict=True))


INL = vgraph.inlinable_helpers(trees0, _sd)

if __name__ == "__main__":
    rels = sorted(repo0.modules)
    total, bad = 0, []
    with ProcessPoolExecutor(16) as ex:
        for n, res in ex.map(work, [(r,) for r in rels]):
            total += n
            bad += res
    for r in bad:
        print("SAME-FINGERPRINT", *r)
    print(f"{total} mutants, {len(bad)} with an unchanged fingerprint")
