#!/venv/bin/python
"""Writes bvstatic/data/constants.json from the CURRENT /repo tree (run by hand, once, on the pinned tree; the result is
committed and reviewed).  Keys: <file>::<qualname>."""
import json, sys
sys.path.insert(0, "/verif")
from bvstatic.model import Repo
from bvstatic.frozen import literal_multiset, DATA

TARGETS = [
    ("beyond/env/solarsystem.py", "MoonPropagator._propagate"), ("beyond/env/solarsystem.py", "SunPropagator._propagate"),
    ("beyond/frames/iau1980.py", "_precesion"), ("beyond/frames/iau1980.py", "_nutation"), ("beyond/frames/iau1980.py", "equinox"),
    ("beyond/frames/iau1980.py", "_sideral"), ("beyond/frames/iau2010.py", "_planets"), ("beyond/frames/iau2010.py", "_xysxy2"),
    ("beyond/frames/iau2010.py", "_sideral"), ("beyond/frames/iau2010.py", "_earth_orientation"),
    ("beyond/propagators/sgp4beta.py", "Sgp4Beta.orbit:setter"), ("beyond/propagators/sgp4beta.py", "Sgp4Beta.propagate"),
]
repo = Repo("/repo")
out = {}
for rel, q in TARGETS:
    setter = q.endswith(":setter")
    f = repo.func(rel, q.replace(":setter", ""), setter=setter)
    out[f"{rel}::{q}"] = dict(literal_multiset(f.node))
for rel, cls in (("beyond/propagators/sgp4beta.py", "WGS72Old"), ("beyond/propagators/sgp4beta.py", "WGS72"), ("beyond/propagators/sgp4beta.py", "WGS84")):
    c = repo.cls(rel, cls)
    out[f"{rel}::{cls}"] = dict(literal_multiset(c.node))
DATA.write_text(json.dumps(out, indent=1, sort_keys=True))
print("written", DATA, {k: sum(v.values()) for k, v in out.items()})
