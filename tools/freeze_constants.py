#!/venv/bin/python
"""Writes bvstatic/data/constants.json from the CURRENT /repo tree (run by hand, once, on the pinned tree; the result is
committed and reviewed).  Keys: <file>::<qualname>."""
import json, sys
sys.path.insert(0, "/verif")
from bvstatic.model import Repo
from bvstatic.frozen import literal_multiset, DATA

TARGETS = [
    ("beyond/env/solarsystem.py", "MoonPropagator._propagate"), ("beyond/env/solarsystem.py", "SunPropagator._propagate"),
    ("beyond/frames/iau1980.py", "_precesion"), ("beyond/frames/iau1980.py", "_nutation"), ("beyond/frames/iau1980.py", "equinox"),
    ("beyond/frames/iau1980.py", "_sideral"), ("beyond/frames/iau2010.py", "_planets"), ("beyond/frames/iau2010.py", "_xysxy2"),
    ("beyond/frames/iau2010.py", "_sideral"), ("beyond/frames/iau2010.py", "_earth_orientation"),
    ("beyond/propagators/sgp4beta.py", "Sgp4Beta.orbit:setter"), ("beyond/propagators/sgp4beta.py", "Sgp4Beta.propagate"),
]
repo = Repo("/repo")
out = {}
for rel, q in TARGETS:
    setter = q.endswith(":setter")
    f = repo.func(rel, q.replace(":setter", ""), setter=setter)
    out[f"{rel}::{q}"] = dict(literal_multiset(f.node))
for rel, cls in (("beyond/propagators/sgp4beta.py", "WGS72Old"), ("beyond/propagators/sgp4beta.py", "WGS72"), ("beyond/propagators/sgp4beta.py", "WGS84")):
    c = repo.cls(rel, cls)
    out[f"{rel}::{cls}"] = dict(literal_multiset(c.node))
DATA.write_text(json.dumps(out, indent=1, sort_keys=True))
from bvstatic.frozen import formula_fingerprints, FP_DATA
fp = {}
for rel, q in TARGETS + [("beyond/frames/iau2010.py", "_xys"), ("beyond/frames/iau2010.py", "precesion_nutation"), ("beyond/frames/iau1980.py", "rate"), ("beyond/frames/iau2010.py", "rate"),
                         ("beyond/dates/date.py", "Timescale._scale_tdb_minus_tt"), ("beyond/frames/lagrange.py", "LagrangePropagator.propagate"),
                         ("beyond/io/tle.py", "_float"), ("beyond/io/tle.py", "_unfloat"), ("beyond/io/tle.py", "Tle._checksum")]:
    setter = q.endswith(":setter")
    f = repo.func(rel, q.replace(":setter", ""), setter=setter)
    fp[f"{rel}::{q}"] = formula_fingerprints(f.node)
FP_DATA.write_text(json.dumps(fp, indent=0))
print("formulas:", {k: len(v) for k, v in fp.items()})
print("written", DATA, {k: sum(v.values()) for k, v in out.items()})
