#!/usr/bin/env python3
"""Hand tool to edit known_findings.json (never used by checks).
  kf.py fixed <id> <prop> <subject-substring> <what failed>
  kf.py known <id> <prop> <rule> <instance> <what fails> <witness> <why not fixed>
  kf.py drop <id>"""
import json, subprocess, sys
P = "/verif/known_findings.json"
kf = json.load(open(P))
cmd = sys.argv[1]
if cmd == "fixed":
    _, _, fid, prop, subj, what = sys.argv
    log = subprocess.run(["git", "-C", "/repo", "log", "--format=%h %s"], capture_output=True, text=True).stdout.splitlines()
    sha = next(l.split()[0] for l in log if subj in l)
    kf["fixed"] = [e for e in kf["fixed"] if e["id"] != fid or e["property"] != prop]
    kf["fixed"].append({"id": fid, "property": prop, "commit": sha, "line": f"fixed: property={prop} {sha} {what}"})
elif cmd == "known":
    _, _, fid, prop, rule, inst, what, witness, why = sys.argv
    kf["known"] = [e for e in kf["known"] if not (e["id"] == fid and e["property"] == prop and e["instance"] == inst)]
    kf["known"].append({"id": fid, "property": prop, "rule": rule, "instance": inst, "what_fails": what, "witness": witness, "why_not_fixed": why})
elif cmd == "drop":
    kf["known"] = [e for e in kf["known"] if e["id"] != sys.argv[2]]
json.dump(kf, open(P, "w"), indent=1, ensure_ascii=False)
print(len(kf["known"]), "known,", len(kf["fixed"]), "fixed")
