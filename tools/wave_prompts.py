#!/venv/bin/python
"""wave_prompts.py <dir> : writes <dir>/Cxx.prompt.txt for a wave of seed sub-agents (each gets only the property text, its
scratch worktree <dir>/Cxx and the first sentences of the ideas already filed for that property)."""
import json, glob, os, sys
root = sys.argv[1]
wave = sys.argv[2] if len(sys.argv) > 2 else "g"
ROUNDS = {}
ROUNDS["g"] = 'THIS ROUND: make it a STRUCTURAL or API-LEVEL change rather than a changed expression inside one function body. Examples of the kind wanted: a method moved to / overridden in / removed from a class of the hierarchy so that another implementation is picked for one subclass; the order of base classes, of registrations, of entries in a table, of decorators; a `@property` / `@classmethod` / `@staticmethod` / cache decorator added, dropped or swapped; a class attribute turned into an instance attribute or vice versa (shared mutable state); a new optional parameter or keyword pass-through that is forwarded on one path but not on another; a changed exception type or a broadened `except` that swallows a case; a `__eq__` / `__hash__` / `__lt__` / `__copy__` / `__reduce__` / `__array_finalize__` / `__getattr__` hook added or changed; a module-level table, alias or registration edited; an import of the same name from another module; a generator turned into a list (or back) where laziness matters; a context / try-finally restructured. The location is free (anchored files or anything they use). Do NOT simply change an arithmetic expression, a comparison operator or a constant inside a function, and do not add a plain memo cache — those have been done many times. Keep it small; do not add comments that give it away.'
ROUNDS["h"] = """THIS ROUND: make it TWO COOPERATING EDITS at two different sites (two functions, preferably in two different files), each of which looks fine - even like an improvement - when reviewed alone, and each of which ALONE leaves the property intact (check that: with only edit A, or only edit B, your demo must pass); only together do they break the property. Examples of the kind wanted: a producer starts returning a value in another unit / convention / order / type and ONE of several consumers is updated but another is not; a default is changed in a callee and a caller that relied on the old default is left; a validation is moved from one layer to another and one entry path now skips it; a normalisation (copy, change of scale, form conversion, modulo, sort) is removed at one site "because the other site already does it" while that other site is simultaneously relaxed; a helper gains a keyword whose default differs from what one caller needs. The location is free (anchored files or anything they use). Keep both edits small; do not add comments that give it away."""
ROUNDS["i"] = """THIS ROUND: exploit a PYTHON / NUMPY SEMANTIC SUBTLETY, so that the edited code reads as equivalent to the original to somebody comparing the two versions expression by expression, yet behaves differently for some inputs. Examples of the kind wanted: a name that now resolves to something else (a local, module-level name or import that shadows a builtin / numpy function / another helper of the same name; `from math import ...` instead of `from numpy import ...` where arrays or out-of-domain values occur; an import of the same name from a different module); in-place versus rebinding (`a += b` vs `a = a + b` on arrays or lists that are shared; a slice view modified where a copy was; `sorted(x)` vs `x.sort()`); integer versus float arithmetic or dtype (an integer array receiving floats, `//` vs `/`, `int()` vs `round()`, float vs Decimal / Fraction / timedelta arithmetic, microsecond truncation); mutable default arguments or class attributes shared between instances; late-binding closures / lambdas in loops; generator exhausted on second use; `is` vs `==`; truthiness of 0 / 0.0 / empty arrays / None (`x or default`); dict / set ordering and key identity; `and`/`or` returning operands; chained comparisons; operator precedence (`-x ** 2`, `a % b * c`, unary minus and `%`); exception class hierarchy (`except` order, a subclass relationship); attribute lookup order (instance vs class vs `__getattr__`, property vs attribute, MRO of multiple inheritance); `copy` vs `deepcopy`; `np.array` vs `np.asarray`; `arctan2` argument order hidden behind a helper; string formatting that rounds differently. The location is free (anchored files or anything they use). Keep it small; do not add comments that give it away."""
ROUNDS["k"] = """THIS ROUND: the defect must be placed OUTSIDE the files listed under "Anchored in" above: in code those files depend on, directly or - better - through one or two intermediate calls (helper modules under beyond/utils, beyond/config.py, beyond/errors.py, beyond/constants.py, package __init__ files and registries, base classes and mixins, sibling modules that share a helper, readers of data files, objects handed in by the caller such as Date / StateVector / Frame / Ephem methods that the anchored code calls). First trace what the mechanism of the property actually calls and reads (follow imports, attribute accesses, dunder methods, inherited methods), then pick a unit that is NOT in the anchored files and whose change breaks the property although every anchored file is byte-identical. Prefer units that look unrelated to the property at first sight (a formatting helper, an exception class, a unit constant, a container method, a comparison or hash method, a default configuration value). The defect may be of any kind. Keep it small; do not add comments that give it away."""
ROUNDS["l"] = ROUNDS["k"]
ROUNDS["j"] = """THIS ROUND: put the defect into a RARELY EXERCISED PATH of the mechanism: an option, keyword, branch, subclass, error path, fallback or input class that ordinary use and the test-suite never reach (check with a quick grep of tests/ that nothing there exercises it), but that the property statement nevertheless covers (it says "every", "any", "whichever", "forwards and backwards", "for all"). Look for: `else` / `elif` arms and `except` handlers; keyword arguments with non-default values; hyperbolic / retrograde / equatorial / circular / polar / backward-in-time / negative-step / empty / single-element / duplicate / unsorted / boundary-equal inputs; non-default configuration values; secondary subclasses; the XML twin of a KVN path or vice versa; re-use of an object a second time. The defect itself may be of any kind (logic, missing update of a sibling, wrong variable, wrong index, stale state), but it must sit on such a path. Keep it small; do not add comments that give it away."""
tried = {}
for d in sorted(glob.glob('/verif/seeded/*')):
    m = json.load(open(d + '/meta.json'))
    summ = (m.get('summary') or '').split('. ')[0][:170]
    tried.setdefault(m.get('property'), []).append(summ)
for l in open('/verif/properties.jsonl'):
    d = json.loads(l); pid = d['id']
    avoid = "\n".join("  - " + t for t in tried.get(pid, [])) or "  (none)"
    ROUND = ROUNDS[wave]
    txt = f"""You work ONLY inside the git worktree {root}/{pid} (a checkout of the Python flight-dynamics library "beyond"). Do not look at or touch /repo, /verif or any other directory. Python with the library's dependencies is /venv/bin/python; run things with PYTHONPATH={root}/{pid}.

PROPERTY {pid}: {d['title']}

Statement: {d['statement']}

Quantifier: {d['quantifier']['text']}

Why the existing tests cannot settle it: {d['why_tests_cant']}

Anchored in: {json.dumps(d['anchors'], ensure_ascii=False)}

YOUR TASK: inject ONE realistic defect into the library that BREAKS this property, such that
  (a) the code still imports/compiles and the existing test-suite result is UNCHANGED (11 tests already fail on the clean tree; exactly the same set must fail and pass afterwards — run `cd {root}/{pid} && PYTHONPATH={root}/{pid} /venv/bin/python -m pytest -q -p no:cacheprovider --no-cov -n 4 2>&1 | tail -20` before and after and compare the FAILED ids);
  (b) the defect needs something specific to manifest (a particular input region, call sequence, option, ordering or state) — ordinary use and the tests look fine;
  (c) it looks like something a competent but hurried maintainer could plausibly commit.
{ROUND}
Ideas ALREADY USED by others for this property — do something DIFFERENT in kind and location:
{avoid}

DELIVERABLES in {root}/{pid}/_out/ :
  - patch.diff  : `git diff` of the defect against the clean tree (leave the defect applied in the worktree, uncommitted);
  - demo.py     : a standalone script that exits 1 (printing what is wrong) with the defect and exits 0 on the clean tree (check both by writing your diff to a file and using `git apply -R <file>` / `git apply <file>`; do NOT use `git stash`: the stash is shared by every worktree of this repository and other people are working in sibling worktrees), demonstrating the property violation through the public API, comparing against an independent oracle or an invariant stated in the property (not against stored outputs of the clean code). It must locate the library through PYTHONPATH / the current directory, NOT through its own file path;
  - meta.json   : {{"property": "{pid}", "summary": "<what the defect is and why it breaks the property>", "needs": "<what is needed for it to manifest>", "files": [...], "suite": {{"before": "...", "after": "..."}}}}
Never use pkill / killall (other people's test runs share this machine). Finish with a short report (what, why it breaks the property, what it needs, suite result)."""
    open(f"{root}/{pid}.prompt.txt", "w").write(txt)
print("ok")
