#!/venv/bin/python
"""Audit of E8 (vgraph): every behaviour-changing variant of the self-test corpus and every seeded change must be
*unproven* (not equivalent to the reference tree); reports which behaviour-preserving refactors E8 proves equal."""
import glob, os, shutil, subprocess, sys, tempfile
sys.path.insert(0, "/verif")
from concurrent.futures import ProcessPoolExecutor
from bvstatic.model import Repo
from bvstatic import equiv
from bvstatic.selftest.corpus import CORPUS


def variant(args):
    prop, name, kind, edits = args
    d = tempfile.mkdtemp(prefix="e8_")
    try:
        shutil.copytree("/repo/beyond", d + "/beyond")
        for rel, old, new in edits:
            p = os.path.join(d, rel)
            s = open(p).read()
            if s.count(old) < 1:
                return (prop, name, kind, "NOAPPLY", [])
            open(p, "w").write(s.replace(old, new, 1))
        os.environ["BVSTATIC_NO_ALPHA"] = "1"
        r = equiv.compare(Repo(d))
        return (prop, name, kind, "equal" if r["equivalent"] else "differs", r["unproven"][:3])
    finally:
        shutil.rmtree(d, ignore_errors=True)


def patch(path):
    d = tempfile.mkdtemp(prefix="e8_")
    try:
        shutil.copytree("/repo/beyond", d + "/beyond")
        r = subprocess.run(["git", "apply", path], cwd=d, capture_output=True, text=True)
        if r.returncode:
            return (path, "NOAPPLY", [r.stderr[:100]])
        r = equiv.compare(Repo(d))
        return (path, "equal" if r["equivalent"] else "differs", r["unproven"][:3])
    finally:
        shutil.rmtree(d, ignore_errors=True)


if __name__ == "__main__":
    jobs = [(p, n, k, e) for p, vs in CORPUS.items() for (n, k, e, _r) in vs]
    bad = 0
    with ProcessPoolExecutor(16) as ex:
        for prop, name, kind, res, un in ex.map(variant, jobs):
            if kind == "fire" and res != "differs":
                bad += 1
                print(f"UNSOUND? mutation {prop}/{name}: {res}")
            if kind == "silent":
                print(f"refactor {prop}/{name}: {res} {un if res != 'equal' else ''}")
        seeds = sorted(glob.glob("/verif/seeded/*/patch.diff"))
        for path, res, un in ex.map(patch, seeds):
            if res != "differs":
                bad += 1
                print(f"UNSOUND? seed {path}: {res} {un}")
        for extra in sys.argv[1:]:
            for path, res, un in ex.map(patch, sorted(glob.glob(os.path.join(os.path.abspath(extra), "patch_*.diff")))):
                print(f"neutral {path}: {res} {un if res != 'equal' else ''}")
    print(f"{len(jobs)} corpus variants, {len(seeds)} seeds; {bad} behaviour-changing variants E8 could not tell from the reference")
    sys.exit(1 if bad else 0)
