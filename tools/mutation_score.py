#!/venv/bin/python
"""mutation_score.py [per-function limit] [file substring]
Mutation testing of the *checks*: single-point mutants of the functions in the files the properties are anchored in are
applied to scratch copies; the quick checks of the properties anchored in that file are run against the copy.  Mutants that
E8 proves equal to the original are skipped (equivalent).  Prints the survivors (no check fired) for triage."""
import ast, copy, json, os, random, shutil, subprocess, sys, tempfile
sys.path.insert(0, "/verif")
sys.path.insert(0, "/verif/tools")
from concurrent.futures import ProcessPoolExecutor

LIMIT = int(sys.argv[1]) if len(sys.argv) > 1 else 8
ONLY = sys.argv[2] if len(sys.argv) > 2 else ""
PY = "/venv/bin/python"


def file_props():
    m = {}
    for l in open("/verif/properties.jsonl"):
        d = json.loads(l)
        for f in d["anchors"]["files"]:
            if f.endswith(".py"):
                m.setdefault(f, []).append(d["id"])
    return m


def gen(rel):
    import e8_mutants as E
    from bvstatic.model import Repo
    from bvstatic import vgraph
    repo = Repo()
    m = repo.modules[rel]
    tree = ast.parse(m.source)
    known = set(repo.by_name)
    base = vgraph.module_fingerprints(tree, m.name, m.is_pkg, known, E.INL)
    rnd = random.Random(7)
    out = []

    def all_funcs(t):
        for st in t.body:
            if isinstance(st, ast.FunctionDef):
                yield st.name, st
            elif isinstance(st, ast.ClassDef):
                for x in st.body:
                    if isinstance(x, ast.FunctionDef):
                        yield f"{st.name}.{x.name}", x
    for fi, (key, fn) in enumerate(all_funcs(tree)):
        ss = [s for s in E.sites(fn) if not s[1].startswith("swap-")]
        rnd.shuffle(ss)
        kept = 0
        for idx, what, mut in ss:
            if kept >= LIMIT:
                break
            t2 = copy.deepcopy(tree)
            fn2 = list(all_funcs(t2))[fi][1]
            nodes = list(ast.walk(fn2))
            target = nodes[idx]
            descr = ast.unparse(target)[:90].replace("\n", " ") if not isinstance(mut, tuple) else mut[0] + ": " + ast.unparse(getattr(target, mut[1])[mut[2]])[:90].replace("\n", " ")
            try:
                if callable(mut):
                    mut(target)
                elif isinstance(mut, tuple):
                    lst = getattr(target, mut[1])
                    del lst[mut[2]]
                    if not lst:
                        lst.append(ast.Pass())
                else:
                    E.Rep(target, mut).visit(t2)
                ast.fix_missing_locations(t2)
                src = ast.unparse(t2)
                compile(src, rel, "exec")
            except Exception:
                continue
            cur = vgraph.module_fingerprints(t2, m.name, m.is_pkg, known, E.INL)
            if cur["funcs"] == base["funcs"] and cur["residue"] == base["residue"]:
                continue                     # equivalent for E8
            kept += 1
            out.append((rel, key, what, descr, src))
    return out


def run(job):
    rel, key, what, descr, src, props = job
    d = tempfile.mkdtemp(prefix="ms_")
    try:
        shutil.copytree("/repo/beyond", d + "/beyond")
        open(os.path.join(d, rel), "w").write(src)
        env = dict(os.environ, BVSTATIC_REPO=d, BVSTATIC_EVIDENCE=d + "/_ev")
        fired = []
        for p in props:
            r = subprocess.run([PY, "-B", "-m", "bvstatic", p, "--tier", "quick"], cwd="/verif", env=env, capture_output=True, text=True)
            if r.returncode != 0:
                fired.append(p)
                break
        return (rel, key, what, descr, fired)
    finally:
        shutil.rmtree(d, ignore_errors=True)


if __name__ == "__main__":
    fp = file_props()
    files = [f for f in sorted(fp) if ONLY in f]
    jobs = []
    with ProcessPoolExecutor(12) as ex:
        for lst in ex.map(gen, files):
            for rel, key, what, descr, src in lst:
                jobs.append((rel, key, what, descr, src, fp[rel]))
        n, surv = 0, []
        for rel, key, what, descr, fired in ex.map(run, jobs, chunksize=4):
            n += 1
            if not fired:
                surv.append((rel, key, what, descr))
    for s in surv:
        print("SURVIVED", *s)
    print(f"{n} mutants (not E8-equivalent), {n - len(surv)} detected, {len(surv)} survived")
