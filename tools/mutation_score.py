#!/venv/bin/python
"""mutation_score.py [per-function limit] [file substring]
Mutation testing of the *checks*: single-point mutants of the functions in the files the properties are anchored in are
applied to scratch copies; the quick checks of the properties anchored in that file are run against the copy.  Mutants that
E8 proves equal to the original are skipped (equivalent).  Prints the survivors (no check fired) for triage."""
import ast, copy, json, os, random, shutil, subprocess, sys, tempfile
sys.path.insert(0, "/verif")
sys.path.insert(0, "/verif/tools")
from concurrent.futures import ProcessPoolExecutor

LIMIT = int(sys.argv[1]) if len(sys.argv) > 1 else 8
ONLY = sys.argv[2] if len(sys.argv) > 2 else ""
PY = "/venv/bin/python"


def file_props():
    m = {}
    for l in open("/verif/properties.jsonl"):
        d = json.loads(l)
        for f in d["anchors"]["files"]:
            if f.endswith(".py"):
                m.setdefault(f, []).append(d["id"])
    return m


def gen(rel):
    import e8_mutants as E
    from bvstatic.model import Repo
    from bvstatic import vgraph
    repo = Repo()
    m = repo.modules[rel]
    tree = ast.parse(m.source)
    known = set(repo.by_name)
    base = vgraph.module_fingerprints(tree, m.name, m.is_pkg, known, E.INL)
    rnd = random.Random(int(os.environ.get("MS_SEED", "7")))
    out = []

    def all_funcs(t):
        for st in t.body:
            if isinstance(st, ast.FunctionDef):
                yield st.name, st
            elif isinstance(st, ast.ClassDef):
                for x in st.body:
                    if isinstance(x, ast.FunctionDef):
                        yield f"{st.name}.{x.name}", x
    for fi, (key, fn) in enumerate(all_funcs(tree)):
        def subtle(site):
            idx, what, mut = site
            node = nodes0[idx]
            if what in ("attr-rename", "return-none", "argswap", "drop-kw", "if-swap") or what.startswith("swap-"):
                return False
            if what == "binswap":
                return isinstance(node.op, (ast.Sub, ast.Div, ast.Pow, ast.MatMult, ast.Mod, ast.FloorDiv))
            if what == "const":
                return isinstance(node.value, (int, float, bool))
            if what.startswith("del-"):
                st_ = getattr(node, mut[1])[mut[2]]
                return isinstance(st_, (ast.AugAssign, ast.Expr)) and not (isinstance(st_, ast.Expr) and isinstance(st_.value, ast.Call)
                                                                          and ast.unparse(st_.value.func).startswith(("log.", "warnings.")))
            return True
        nodes0 = list(ast.walk(fn))
        ss = [s for s in E.sites(fn) if subtle(s)]
        rnd.shuffle(ss)
        kept = 0
        for idx, what, mut in ss:
            if kept >= LIMIT:
                break
            t2 = copy.deepcopy(tree)
            fn2 = list(all_funcs(t2))[fi][1]
            nodes = list(ast.walk(fn2))
            target = nodes[idx]
            descr = ast.unparse(target)[:90].replace("\n", " ") if not isinstance(mut, tuple) else mut[0] + ": " + ast.unparse(getattr(target, mut[1])[mut[2]])[:90].replace("\n", " ")
            try:
                if callable(mut):
                    mut(target)
                elif isinstance(mut, tuple):
                    lst = getattr(target, mut[1])
                    del lst[mut[2]]
                    if not lst:
                        lst.append(ast.Pass())
                else:
                    E.Rep(target, mut).visit(t2)
                ast.fix_missing_locations(t2)
                src = ast.unparse(t2)
                compile(src, rel, "exec")
            except Exception:
                continue
            cur = vgraph.module_fingerprints(t2, m.name, m.is_pkg, known, E.INL)
            if cur["funcs"] == base["funcs"] and cur["residue"] == base["residue"]:
                continue                     # equivalent for E8
            kept += 1
            out.append((rel, key, what, descr, src))
    return out


def run(job):
    rel, key, what, descr, src, props = job
    d = tempfile.mkdtemp(prefix="ms_")
    try:
        shutil.copytree("/repo/beyond", d + "/beyond")
        open(os.path.join(d, rel), "w").write(src)
        env = dict(os.environ, BVSTATIC_REPO=d, BVSTATIC_EVIDENCE=d + "/_ev")
        fired = []
        for p in props:
            r = subprocess.run([PY, "-B", "-m", "bvstatic", p, "--tier", "quick"], cwd="/verif", env=env, capture_output=True, text=True)
            if r.returncode != 0:
                fired.append(p)
                break
        return (rel, key, what, descr, fired)
    finally:
        shutil.rmtree(d, ignore_errors=True)


def suite(job):
    """Does the pinned suite still pass with this mutant?  (-x: stop at the first failure among the stable tests)"""
    rel, key, what, descr, src, props = job
    base = json.load(open("/root/.vp/BASELINE.json"))
    d = tempfile.mkdtemp(prefix="mss_")
    try:
        for item in ("beyond", "tests", "setup.cfg", "setup.py", "README.rst"):
            srcp = os.path.join("/repo", item)
            (shutil.copytree if os.path.isdir(srcp) else shutil.copy)(srcp, os.path.join(d, item))
        open(os.path.join(d, rel), "w").write(src)
        desel = []
        for t in base["always_fail"]:
            mod, name = t.split("::", 1)
            desel += ["--deselect", mod.replace(".", "/") + ".py::" + name]
        env = dict(os.environ, PYTHONPATH=d, PYTHONDONTWRITEBYTECODE="1")
        cmd = [PY, "-m", "pytest", "-q", "-p", "no:cacheprovider", "--timeout=900", "--no-cov", "-x", "-n", "6"] + desel
        r = subprocess.run(cmd, cwd=d, env=env, capture_output=True, text=True)
        tail = r.stdout.strip().splitlines()[-1] if r.stdout.strip() else ""
        ok = r.returncode == 0 and " failed" not in tail and " error" not in tail
        return rel, key, what, descr, "suite-passes" if ok else "suite-fails"
    finally:
        shutil.rmtree(d, ignore_errors=True)


if __name__ == "__main__":
    fp = file_props()
    files = [f for f in sorted(fp) if ONLY in f]
    jobs = []
    with ProcessPoolExecutor(12) as ex:
        for lst in ex.map(gen, files):
            for rel, key, what, descr, src in lst:
                jobs.append((rel, key, what, descr, src, fp[rel]))
        n, surv = 0, []
        for rel, key, what, descr, fired in ex.map(run, jobs, chunksize=4):
            n += 1
            if not fired:
                surv.append((rel, key, what, descr))
    print(f"{n} mutants (not E8-equivalent), {n - len(surv)} detected by a check, {len(surv)} not", flush=True)
    json.dump([(j[0], j[1], j[2], j[3], j[4]) for j in jobs if (j[0], j[1], j[2], j[3]) in set(surv)], open("/tmp/mutscore_survivors.json", "w"))
    if os.environ.get("MS_SUITE"):
        todo = [j for j in jobs if (j[0], j[1], j[2], j[3]) in set(surv)]
        with ProcessPoolExecutor(int(os.environ.get("MS_SUITE"))) as ex:
            for rel, key, what, descr, verdict in ex.map(suite, todo):
                print(("GAP " if verdict == "suite-passes" else "killed-by-suite ") + f"{rel} {key} {what} {descr}", flush=True)
