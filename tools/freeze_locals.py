#!/venv/bin/python
"""Writes bvstatic/data/locals.json: the local-binding order of every function of the CURRENT /repo tree (run by hand on the
tree the rules were written against)."""
import ast, json, os, sys
os.environ["BVSTATIC_NO_ALPHA"] = "1"
sys.path.insert(0, "/verif")
from bvstatic.model import Repo, local_bindings
repo = Repo("/repo")
out = {}
for m in repo.modules.values():
    d = {}
    for f in m.functions.values():
        d[f.name] = local_bindings(f.node)
    for c in m.classes.values():
        for f in c.methods.values():
            d[f"{c.name}.{f.name}"] = local_bindings(f.node)
        for f in c.setters.values():
            d[f"{c.name}.{f.name}:setter"] = local_bindings(f.node)
    out[m.rel] = {k: v for k, v in d.items() if v}
json.dump(out, open("/verif/bvstatic/data/locals.json", "w"), indent=0, ensure_ascii=False)
print(sum(len(v) for v in out.values()), "functions")
