#!/venv/bin/python
"""Run the pinned test-suite on a commit (or the working tree) of /repo in a scratch worktree and compare
with the stable baseline.  usage: suite.py [<commit>|WORKTREE] [-n JOBS]
Exit 0 iff every test of BASELINE.stable_pass passes."""
import json, os, shutil, subprocess, sys, tempfile, xml.etree.ElementTree as ET

def main():
    commit = sys.argv[1] if len(sys.argv) > 1 else "HEAD"
    jobs = "4"
    if "-n" in sys.argv:
        jobs = sys.argv[sys.argv.index("-n") + 1]
    base = json.load(open("/root/.vp/BASELINE.json"))
    stable = set(base["stable_pass"])
    tmp = tempfile.mkdtemp(prefix="bvsuite_")
    wt = os.path.join(tmp, "wt_" + os.path.basename(tmp))
    try:
        if commit == "WORKTREE":
            subprocess.check_call(["git", "-C", "/repo", "worktree", "add", "-q", "--detach", wt, "HEAD"])
            diff = subprocess.run(["git", "-C", "/repo", "diff", "HEAD"], capture_output=True).stdout
            if diff.strip():
                subprocess.run(["git", "-C", wt, "apply"], input=diff, check=True)
        elif commit.startswith("PATCH:"):
            subprocess.check_call(["git", "-C", "/repo", "worktree", "add", "-q", "--detach", wt, "HEAD"])
            subprocess.check_call(["git", "-C", wt, "apply", os.path.abspath(commit[6:])])
        else:
            subprocess.check_call(["git", "-C", "/repo", "worktree", "add", "-q", "--detach", wt, commit])
        junit = os.path.join(tmp, "junit.xml")
        env = dict(os.environ, PYTHONPATH=wt, PYTHONDONTWRITEBYTECODE="1")
        cmd = ["/venv/bin/python", "-m", "pytest", "-q", "-p", "no:cacheprovider", "--timeout=900", "--no-cov",
               "--continue-on-collection-errors", f"--junitxml={junit}", "-o", "junit_family=xunit1"]
        if jobs != "0":
            cmd += ["-n", jobs]
        p = subprocess.run(cmd, cwd=wt, env=env, capture_output=True, text=True)
        passed, failed = set(), set()
        for tc in ET.parse(junit).getroot().iter("testcase"):
            tid = f"{tc.get('classname')}::{tc.get('name')}"
            bad = any(ch.tag in ("failure", "error", "skipped") for ch in tc)
            (failed if bad else passed).add(tid)
        missing = sorted(stable - passed)
        print(f"commit={commit} passed={len(passed)} failed={len(failed)} stable_missing={len(missing)}")
        for m in missing:
            print("  NOT PASSING:", m)
        if missing:
            print("\n".join(l for l in p.stdout.splitlines() if l.startswith(("FAILED", "ERROR")))[:3000])
        return 1 if missing else 0
    finally:
        subprocess.run(["git", "-C", "/repo", "worktree", "remove", "--force", wt], capture_output=True)
        shutil.rmtree(tmp, ignore_errors=True)
        subprocess.run(["git", "-C", "/repo", "worktree", "prune"], capture_output=True)

sys.exit(main())
