#!/bin/sh
# run every claimed check (quick or $1 tier) and summarise
tier=${1:-quick}
cd /verif
for p in $(/venv/bin/python -c "import json;print(' '.join(c['property_id'] for c in json.load(open('MANIFEST.json'))['checks']))"); do
  out=$(BVSTATIC_NO_E8=1 /venv/bin/python -B -m bvstatic $p --tier $tier 2>&1); rc=$?
  nk=$(echo "$out" | grep -c '^KNOWN-FINDING')
  nv=$(echo "$out" | grep -c '^VIOLATION')
  echo "$p rc=$rc known=$nk violations=$nv $(echo "$out" | grep ANALYSIS-ERROR | head -1)"
done
