#!/venv/bin/python
"""e8_attacks.py : hand-written soundness attacks on the equivalence prover (E8).

Each attack is a small edit of /repo/beyond (on a scratch copy) that CHANGES BEHAVIOUR through a Python / numpy subtlety
while every expression still reads the same (or nearly).  E8 must NOT prove the tree equal to the reference: an attack for
which `equiv.compare` says "equivalent" is an unsoundness of the prover (a rule's report could be dismissed).

  tools/e8_attacks.py            run all, print the ones E8 identifies with the reference (exit 1 if any)
  tools/e8_attacks.py -v         also print which units changed for each attack
"""
import os, re, shutil, sys, tempfile
sys.path.insert(0, "/verif")
from bvstatic import equiv
from bvstatic.model import Repo

# (name, file, old, new[, count])  -- `old` must occur in the file; replaced once unless count given
A = []


def attack(name, rel, old, new, count=1):
    A.append((name, rel, old, new, count))


# --- name resolution -------------------------------------------------------------------------------------------
attack("import-shadow: math.cos over numpy.cos (module level, after the numpy import)", "beyond/orbits/forms.py",
       "import numpy as np\n", "import numpy as np\nfrom math import cos, sin\n")
attack("import-target: sideral imported from the other model", "beyond/frames/orient.py",
       "from . import iau1980, iau2010, local", "from . import iau2010 as iau1980, iau2010, local")
attack("module-level def shadows an imported function (norm)", "beyond/frames/local.py",
       "def to_local(", "def norm(v):\n    return abs(v).sum()\n\n\ndef to_local(")
attack("module-level rebinding of a builtin (abs = float) used by the functions below", "beyond/orbits/forms.py",
       "class Form(Node):", "abs = float\n\n\nclass Form(Node):")
attack("module-level assignment at the END of the module rebinds a name functions read (sqrt)", "beyond/orbits/forms.py",
       "\nTLE = Form(", "\nsqrt = np.cbrt\nTLE = Form(")
attack("module constant changed (forms: none) -> date.py JD_MJD", "beyond/dates/date.py",
       "JD_MJD = 2400000.5", "JD_MJD = 2400001.5")
attack("class constant changed (Date.MJD_T0 day)", "beyond/dates/date.py",
       "MJD_T0 = datetime(1858, 11, 17)", "MJD_T0 = datetime(1858, 11, 16)")
# --- numbers ---------------------------------------------------------------------------------------------------
attack("int literal for float literal in an array display (dtype int)", "beyond/utils/matrix.py",
       "[1, 0, 0]", "[1, 0, 0][:]" if False else "[True, 0, 0]")
attack("float literal to int literal (86400.0 -> 86400: % and / keep float only by the other operand)", "beyond/dates/date.py",
       "86400.0", "86400", count=0)
# --- order -----------------------------------------------------------------------------------------------------
attack("decorator order swapped (classmethod under/over)", "beyond/dates/eop.py",
       "    @classmethod\n    def policy(cls):", "    @staticmethod\n    def policy(cls=None):")
attack("except handlers swapped / broadened", "beyond/io/tle.py",
       "except ValueError as e:", "except Exception as e:")
# --- behaviour that E8 deliberately ignores: logging ----------------------------------------------------------------
attack("missing-policy WARN arm no longer logs", "beyond/dates/eop.py",
       "                log.warning(msg)", "                pass")
attack("TLE from_string error='warn' arm no longer logs", "beyond/io/tle.py",
       "log.warning(str(e))", "pass")
# --- in place / aliasing -------------------------------------------------------------------------------------------
attack("class bases changed (TleParseError no longer a ValueError)", "beyond/io/tle.py",
       "class TleParseError(ParseError):", "class TleParseError(Exception):")
attack("class bases changed (ParseError)", "beyond/errors.py",
       "class ParseError(ValueError):", "class ParseError(Exception):")

attack("in-place add on a slice view of the initial orbit (new = self.orbit[:]; new += delta)", "beyond/propagators/j2.py",
       "new = self.orbit[:] + delta", "new = self.orbit[:]\n        new += delta")
attack("rebinding instead of in-place wrap (new[3:] = ... -> tail = new[3:]; tail = tail % 2pi)", "beyond/propagators/j2.py",
       "new[3:] = new[3:] % (2 * np.pi)", "tail = new[3:]\n        tail = tail % (2 * np.pi)")
attack("float for int in an array display ([1, 0, 0] -> [1.0, 0, 0]); harmless here, never to be identified in general", "beyond/utils/matrix.py",
       "[1, 0, 0]", "[1.0, 0, 0]")
attack("`not x` for `x is None` (0 / 0.0 / empty array are falsy too)", "beyond/orbits/man.py",
       "if accel is None and dv is None:", "if not accel and not dv:")
attack("`x or default` for an explicit None test", "beyond/propagators/keplernum.py",
       "if b_star is None:", "if not b_star:")


def run(verbose=False):
    bad = []
    for name, rel, old, new, count in A:
        d = tempfile.mkdtemp(prefix="e8atk_")
        try:
            shutil.copytree("/repo/beyond", d + "/beyond")
            p = os.path.join(d, rel)
            s = open(p).read()
            if old not in s:
                print(f"SKIP   {name}: anchor text not found in {rel}")
                continue
            s2 = s.replace(old, new) if count == 0 else s.replace(old, new, count)
            open(p, "w").write(s2)
            try:
                compile(s2, p, "exec")
            except SyntaxError as e:
                print(f"SKIP   {name}: does not compile ({e})")
                continue
            res = equiv.compare(Repo(d))
            tag = "EQUAL " if res["equivalent"] else "differs"
            print(f"{tag} {name}   [{len(res['unproven'])} units]")
            if verbose:
                for u in res["unproven"][:6]:
                    print("         ", u)
            if res["equivalent"] and "(must stay equal" not in name:
                bad.append(name)
            if not res["equivalent"] and "(must stay equal" in name:
                print("       ^ control unexpectedly differs")
        finally:
            shutil.rmtree(d, ignore_errors=True)
    print(f"\n{len(A)} attacks, {len(bad)} identified with the reference by E8")
    for b in bad:
        print("  UNSOUND:", b)
    return 1 if bad else 0


if __name__ == "__main__":
    sys.exit(run("-v" in sys.argv))
