#!/venv/bin/python
"""benign_prompts.py <dir> : prompts for the 'benign behaviour change' wave: commits that DO change behaviour but do NOT
break the property (bug fix elsewhere, new optional feature, validation, convenience API).  Measures how often the checks
alarm on code where the property still holds."""
import json, sys
root = sys.argv[1]
for l in open('/verif/properties.jsonl'):
    d = json.loads(l); pid = d['id']
    txt = f"""You work ONLY inside the git worktree {root}/{pid} (a checkout of the Python flight-dynamics library "beyond"). Do not look at or touch /repo, /verif or any other directory. Python with the library's dependencies is /venv/bin/python; run things with PYTHONPATH={root}/{pid}.

PROPERTY {pid}: {d['title']}

Statement: {d['statement']}

Quantifier: {d['quantifier']['text']}

Anchored in: {json.dumps(d['anchors'], ensure_ascii=False)}

YOUR TASK: produce SIX independent, realistic maintenance commits, each of which CHANGES THE OBSERVABLE BEHAVIOUR of the library in some way but leaves the property above FULLY INTACT. They are the kind of commit a maintainer merges every month: a genuine bug fix of something the property does not talk about; a new optional argument / keyword with a default that keeps the old behaviour; a new convenience method, alias, classmethod or property; input validation that turns a late obscure crash into an early clear exception; a more informative error or warning; support for one more accepted input type or format; a changed default of an option unrelated to the property; a small feature in a sibling code path. They are NOT refactors (a refactor changes no behaviour) and NOT defects.
Rules for every one of the six:
  (a) it touches at least one of the files listed under "Anchored in" (or, for at most two of the six, a module those files import directly);
  (b) the existing test-suite result is unchanged (11 tests already fail on the clean tree; the same set must fail and pass afterwards: `cd {root}/{pid} && PYTHONPATH={root}/{pid} /venv/bin/python -m pytest -q -p no:cacheprovider --no-cov -n 4 2>&1 | tail -15`; you may run the suite once for all six applied together first, and only bisect if something changes);
  (c) the property still holds for every input it quantifies over: write ONE property test `_out/proptest.py` (public API only, independent oracle or invariant from the statement, a few hundred sampled inputs, exits 0 when the property holds and 1 otherwise, locates the library through PYTHONPATH / current directory) and check that it exits 0 on the clean tree and with each of the six commits applied;
  (d) the behaviour change is real: for each commit give a two-line snippet in meta.json whose output differs between the clean tree and the patched tree;
  (e) the six are independent of each other (each is a diff against the clean tree) and different in kind and location.
Work with patch files, not with `git stash` (the stash is shared with sibling worktrees): make an edit, `git diff > _out/benign_N.diff`, `git checkout -- .`, next one.

DELIVERABLES in {root}/{pid}/_out/ : benign_1.diff … benign_6.diff (each `git diff` against the clean tree), proptest.py, meta.json = {{"property": "{pid}", "commits": [{{"file": "benign_1.diff", "kind": "...", "what_changes": "...", "snippet": "...", "why_property_intact": "..."}}, ...], "suite": "..."}}. Leave the worktree clean at the end. Never use pkill / killall. Finish with a short report."""
    open(f"{root}/{pid}.prompt.txt", "w").write(txt)
print("ok")
