#!/venv/bin/python
"""Regenerates /verif/MANIFEST.json from the table below (kept by hand)."""
import json
import os

HERE = os.path.dirname(os.path.dirname(os.path.abspath(__file__)))

PY = "/venv/bin/python -B -m bvstatic"

# id -> dict(text=..., note=..., technique=..., design=...)
CLAIMED = {}


def claim(pid, text, note, technique, design):
    CLAIMED[pid] = dict(text=text, note=note, technique=technique, design=design)


claim("C04",
      "Decides the property whole by a necessary-and-sufficient structural condition: every read of a "
      "label-relative member of a Date (d, s, mjd, jd, julian_century, datetime, strftime, format spec) anywhere in "
      "the package is enumerated (exhaustive site census, table re-derived from date.py on each run) and must have a "
      "receiver normalised by change_scale(<literal>), built in place, or whose own label is emitted in the same "
      "record; elapsed times in propagators must be invariant Date differences; no control flow on .scale.",
      "Trusted: CPython ast; the reaching-definitions engine (bvstatic/flow.py); receivers of the short names .d/.s "
      "are taken to be Dates unless tabled; R03.2/R03.5 for Date's own implementation (checked under C03). Not "
      "decided: numerical size of any label dependence (the rule is qualitative).",
      "ast site census + reaching-definitions dataflow (receiver normalisation must-analysis)", "§3 C04")

NOT_YET = "check not built yet in this revision; rules designed in DESIGN.md §3 — claimed once its checker is committed"

ALL = [f"C{i:02d}" for i in range(1, 21)]


def main():
    checks = []
    for pid in ALL:
        if pid not in CLAIMED:
            continue
        c = CLAIMED[pid]
        checks.append({
            "property_id": pid,
            "quick_cmd": f"{PY} {pid} --tier quick",
            "thorough_cmd": f"{PY} {pid} --tier thorough",
            "evidence_file": f"/verif/evidence/{pid}.json",
            "replay_cmd_template": f"{PY} {pid} --replay {{path}}",
            "engine": "bvstatic",
            "level_claimed": {"category": "other", "text": c["text"], "design_ref": c["design"]},
            "level_note": c["note"],
            "technique": "static analysis: " + c["technique"],
        })
    man = {
        "version": 1,
        "setup_cmd": "true",
        "hooks": {
            "guard": "GALACTICS_BEYOND_VERIF",
            "enable": "no hooks: the checks read /repo's source with ast and never import it",
            "baseline_off_cmd": "cd /repo && /venv/bin/python -m pytest -ra -q -p no:cacheprovider --timeout=900 "
                                "--continue-on-collection-errors",
            "source_commits": [],
            "add_only": True,
        },
        "engines": [{
            "name": "bvstatic",
            "path": "/verif/bvstatic",
            "serves_properties": sorted(CLAIMED),
            "kind_free_text": "repository-specific static analysis on Python ast: source model with class hierarchy and "
                              "import resolution, structured reaching-definitions dataflow, constant folding, format "
                              "layout, canonical term algebra (normal forms of straight-line arithmetic), "
                              "physical-dimension inference",
        }],
        "checks": checks,
        "not_applicable": [{"property_id": p, "reason": NOT_YET} for p in ALL if p not in CLAIMED],
        "notes": "Exit codes of every command: 0 pass (known findings printed as KNOWN-FINDING), 1 VIOLATION, "
                 "2 ANALYSIS-ERROR (anchor vanished / vacuous rule / internal error). known_findings.json is committed "
                 "and never written at run time.",
    }
    with open(os.path.join(HERE, "MANIFEST.json"), "w") as f:
        json.dump(man, f, indent=1, ensure_ascii=False)
    print(f"MANIFEST.json: {len(checks)} checks, {len(man['not_applicable'])} not applicable")


if __name__ == "__main__":
    main()
