#!/venv/bin/python
"""Regenerates /verif/MANIFEST.json from the table below (kept by hand)."""
import json
import os

HERE = os.path.dirname(os.path.dirname(os.path.abspath(__file__)))

PY = "/venv/bin/python -B -m bvstatic"

# id -> dict(text=..., note=..., technique=..., design=...)
CLAIMED = {}


def claim(pid, text, note, technique, design):
    CLAIMED[pid] = dict(text=text, note=note, technique=technique, design=design)


claim("C04",
      "Decides the property whole by a necessary-and-sufficient structural condition: every read of a "
      "label-relative member of a Date (d, s, mjd, jd, julian_century, datetime, strftime, format spec) anywhere in "
      "the package is enumerated (exhaustive site census, table re-derived from date.py on each run) and must have a "
      "receiver normalised by change_scale(<literal>), built in place, or whose own label is emitted in the same "
      "record; elapsed times in propagators must be invariant Date differences; no control flow on .scale.",
      "Trusted: CPython ast; the reaching-definitions engine (bvstatic/flow.py); receivers of the short names .d/.s "
      "are taken to be Dates unless tabled; R03.2/R03.5 for Date's own implementation (checked under C03). Not "
      "decided: numerical size of any label dependence (the rule is qualitative).",
      "ast site census + reaching-definitions dataflow (receiver normalisation must-analysis)", "§3 C04")

claim("C01",
      "Clause-level: (i) the form graph, conversion table, dispatch and name caches agree (tree, both directions per edge, "
      "no orphan, element order of all 18 conversions = param_names); (ii) symbolic identities decided by a canonical "
      "term algebra over the real ASTs: spherical/cylindrical definitions, rates = total time-derivatives and reverse "
      "formulas, true<->eccentric anomaly pairs mutually inverse (elliptic and hyperbolic), Newton step of M2E against "
      "the sibling's Kepler equation with loop polarity, mean-motion pair, circular/mean-circular siblings, the polar-pair "
      "decoders of the circular, mean-circular and equinoctial forms inverting their encoders, keplerian->cartesian "
      "equal to the textbook position and its time-derivative, cartesian->keplerian inverting it symbolically (norms "
      "replaced by closed forms each justified by its own obligation), the sign of the anomaly carried by sin(nu) through "
      "data flow, and the defining relations of 19 Infos quantities; (iii) alias closure of Form.alt.",
      "Not decided: numerical round-trip error (conditioning), convergence of M2E (start-value branches), behaviour at "
      "the singular elements (e=0, i=0). Positive-atom assumption for sqrt(x^2)=x; angles modulo 2 pi; textbook "
      "definitions listed in the evidence assumptions.",
      "table agreement over ast + canonical term algebra (normal forms, symbolic derivation) on straight-line arms",
      "§3 C01")

claim("C16",
      "Clause-level: the closed-form state-transition and thrust matrices read from ClohessyWiltshire._propagate "
      "satisfy Hill's equations and initial values entry by entry for all n, t (108 symbolic obligations discharged by "
      "term-algebra normal forms + derivation); QSW2TNW is the signed permutation (q,s,w)->(s,-q,w) with det +1 and the "
      "TNW arm a similarity transform with it; maneuver sequencing in propagate() (impulse: free flight then dv on the "
      "velocity once; continuous: thrust to min(date, stop); two-sided applicability window, open at the epoch of the state and closed at the target date; half-open thrust window); "
      "every CWHelper maneuver pushed through the matrices read from cw.py realises the distances it announces and "
      "leaves the chaser where it says (16 symbolic obligations); impulses land on states built in the call and results "
      "share nothing with the stored initial orbit (ownership analysis).",
      "Not decided: second-order agreement with Keplerian differences. "
      "Trusted: Hill's equations as written in the checker; the term algebra.",
      "canonical term algebra (ODE + initial value obligations) + ast pattern rules on the sequencing", "§3 C16")

claim("C03",
      "Clause-level: the six-scale graph is a tree with exactly one offset provider per link, the exact constants "
      "(32.184, 19.0, tabulated TAI-UTC / UT1-UTC, the two-term TDB-TT series) and the add/subtract orientation in "
      "offset(); one invariant key for the five comparisons and the hash; direction symmetry of DateRange "
      "(membership, iteration, length); exhaustive three-way missing-data policy with an all-zero nine-field fallback; "
      "immutability (slots, raising __setattr__, slot writes only at construction) and scale-carrying arithmetic; the "
      "constructor's carry/wrap and _convert_to_scale as exact inverses; the EOP day chosen by the instant; IERS day "
      "lookup and leap-second table; no Date is built at import time (the first Date instantiates the EOP database).",
      "Not decided: microsecond bounds of round trips, UT1/TDB accuracy, behaviour inside leap-second windows. Several "
      "R03.5/R03.6/R03.8 instances are frozen-shape rules on 1-3 line accessors (any edit of those lines is reported).",
      "graph/table agreement + ast pattern rules + data-dependence over reaching definitions", "§3 C03")

claim("C02",
      "Clause-level (structural part only): the orientation graph is a tree with exactly one rotation provider per "
      "link and frames pairing equal names; a rate vector is returned exactly by the two sidereal providers, from the "
      "same model and with the same sign; composition discipline (inverse of the EXPANDED 6x6 on reverse steps, left "
      "accumulation, negated reverse centre offsets, m @ state + offset in the new orientation); rot1/2/3 are proper "
      "rotations of one sense and expand() builds the -[rate]x R coupling (term algebra); the IAU models read TT/UT1 "
      "clock fields from normalised dates only; EOP fields, series<->model pairing, IERS column layout and unit "
      "constants; rotation sequences, model wiring and rotation-ness of the constant matrices; numeric literals and "
      "value-numbered normal forms of the IAU model functions and token digests of the four IERS coefficient tables "
      "equal the committed references.",
      "Not decided: IAU series values, sub-arcsecond agreement of the 1980 and 2010 chains, numeric path independence, "
      "sign conventions beyond the frozen sequences. R02.7 sequences are frozen from Vallado/IERS by reading.",
      "graph/table agreement + canonical term algebra (rotations) + site census with reaching definitions", "§3 C02")

claim("C20",
      "Narrow, structural clauses only: the three built-in graphs are trees; every registration site (stations, "
      "orbit-attached and Lagrange orientations, centres, JPL frames) creates its node in the call and attaches it to "
      "exactly one pre-existing node with a registry key that starts with the new name (one tabled bridge exception); "
      "registries and Node.routes/neighbors are written only at the listed sites; __add__ links both ways before "
      "_update, path() follows routes[goal].direction; the routing update has the shape frozen by reading.",
      "Not decided: correctness of Node._update over all insertion orders and the shortest-path clause on cyclic "
      "graphs (not visible in the shape of the code; exhaustive enumeration belongs to another family). Given leaf "
      "attachment the graphs stay trees, where routes are unique.",
      "ast pattern rules over registration sites + who-may-write census", "§3 C20")

claim("C05",
      "Clause-level: the setters snapshot the orbit in keplerian_mean form; Kepler.propagate writes only M and the "
      "date (index resolved through the form table) and ΔM = n·Δt symbolically; J2's increment has literal zeros "
      "for (a, e, i) and its three rates equal the first-order secular formulas as term-algebra normal forms, with "
      "the polar-orbit and critical-inclination corollaries and no angle atom in any rate (additivity in Δt, hence "
      "composition and inverse); initial orbit never written directly, through an alias or through a numpy view of its "
      "buffer; result a fresh cartesian copy; the mean motion comes from an Infos object rebuilt at every access (memo "
      "census); and, because forms.py is an anchor, the C01 clauses on the chain cartesian<->keplerian<->eccentric<->mean "
      "(R01.2/6/8/11/13) are run as part of this check.",
      "Not decided: agreement with an independent universal-variable two-body solution, periodicity as numbers. "
      "Relies on C01 for the conversions keplerian_mean <-> cartesian and Infos.n.",
      "ast write-set rules + canonical term algebra on the rate expressions", "§3 C05")

claim("C06",
      "Clause-level: the three hypotheses of the convergence theorem as visible in the source — all four Butcher "
      "tableaux satisfy shapes, row sums and every rooted-tree order condition up to the claimed order in exact "
      "rational arithmetic (euler 1, rk4 4, rkf54/dopri54 5 with embedded 4); the stage loop pairs a[k] with c[k], "
      "forms y_n + h a.ks at t_n + h c, combines with b and estimates the error with b - b*, accepts on error <= tol, "
      "raises on non-convergence, marches by the accepted step; the right-hand side is x'=v, v'=sum mu_b d/|d|^3 plus "
      "thrust inside burn windows; the accepted quantity is a norm (non-negative for backward steps too); copy() forwards "
      "every constructor parameter.",
      "Not decided: measured order, energy/momentum drift, millimetre independence from the output step (numerical). "
      "R06.2/R06.3 are shape rules on the 25 statements of _make_step/_accel.",
      "exact constant folding of the tableaux (order conditions) + ast pattern rules", "§3 C06")

claim("C12",
      "Clause-level: the column span of each of the 15 quantities the writer formats (computed from the format "
      "templates' static widths) equals the union of the slices the reader takes for the same quantity, the total "
      "width + 1 equals the tested length and the checksum index + 1; writer scale x reader scale = 1 for the eight "
      "scaled fields (term algebra), designator/epoch encodings inverse, every attribute the writer reads is carried by "
      "Tle.orbit(); validation dominates parsing, with the three documented rejections and the checksum definition; "
      "from_string's grouping resets its cache on every path; the epoch is written from and read as UTC.",
      "Not decided: preservation of every printable value to its printed precision (numeric formatting), behaviour "
      "for values that do not fit their field. Assumes each value fits its field.",
      "format-layout analysis of the templates vs slice census + term algebra on scale factors + ast pattern rules", "§3 C12")

claim("C13",
      "Clause-level, table agreement between the 8 writers, 8 readers and the covariance codec, all extracted from the "
      "source on each run: (B1) both encodings write the same keys up to a reasoned table of containers and "
      "informational keys, with the same CENTER_NAME rule, exhaustive type/format dispatch and header detection; "
      "(B2) every key a reader requires is written by the matching writer and every state-bearing key written is read; "
      "(B3) units written = default units assumed, all in units_dict, conversions inverse; (B4) covariance key table "
      "(36 entries + row structure of the OEM KVN block); (B5) QSW<->RSW alias maps inverse at every site; (B6) Cov "
      "receives a Frame or a local tag; (B7) repeated XML elements normalised before iteration; (B8) writers read only "
      "what every producer provides; (B9) measurement names written = accepted; (B10) per-record accumulators of the "
      "line-oriented readers created where the record starts; (B11) numbered/ordered components agree between both "
      "encodings and readers; (B12) tokenisers; (N1) optional centre body tested before dereference.",
      "Not decided: precision of written numbers (1 mm / 1 mm/s is a property of the format specs, not checked), XML "
      "schema validity, epoch round trip to the microsecond (dates under one TIME_SYSTEM are decided under C04).",
      "keyword/tag extraction from templates and ET.SubElement calls (finite string sets over literal loops) + "
      "set comparison against reader key census + ast pattern rules", "§3 C13")

claim("C08",
      "Clause-level: inclusive bounds and verbatim date lists of the iteration front-ends; sibling agreement of the "
      "two iter() front-ends and of Orbit.propagate/iter; direction symmetry of every date-marching loop; padding of "
      "tables before interpolation; `dates` used through iteration only; and the ownership rules that make propagation a "
      "pure function of (initial orbit, date): every propagate() result is fresh (abstract interpretation over the "
      "sharing idioms: shallow _data copies, numpy views), no store or in-place mutation reaches the initial orbit or "
      "an argument through an alias (reaching definitions), orbit setters snapshot their source, Ephem drops its "
      "interpolator when its points change, copy() forwards every constructor parameter; memo census (every cache in "
      "the package is tabled with the reason it is safe), no instance state stored on a shared class, listeners "
      "cleared inside the generator that listens (R10.1 = R08.5).",
      "Not decided: numeric equality of iterated and directly propagated states. Known findings: backward ranges "
      "(D19), short spans in KeplerNum (D20), Sgp4 results sharing one Cov (D21, pinned by the suite).",
      "ownership/freshness abstract interpretation on reaching definitions + sibling comparison + ast pattern rules", "§3 C08")

claim("C14",
      "Clause-level: the representation invariant that makes the result path independent — the reference frame is "
      "assigned only at attachment, the local axes are always built from the snapshot kept in that frame, and nothing "
      "inside Cov moves that snapshot; the congruence M C M^T with one M = m2 @ m1, transposition only on the "
      "local->reference arm, identity arms when frames coincide, commit after everything that can raise; a covariance "
      "expressed in its state's frame follows the state after the state's own frame is committed.",
      "Not decided: the spectrum / positive semi-definiteness as numbers (follows from congruence with an orthogonal M, "
      "which is C02/C17's clause), conversion back restoring the matrix to rounding.",
      "ast who-may-write census on Cov's state + pattern rules on the two-step conversion", "§3 C14")

claim("C15",
      "Clause-level: StateVector.copy copies every copyable item, builds on a fresh buffer and never writes to the "
      "receiver; as_orbit / as_statevector results are fresh (ownership abstract interpretation); the form and frame "
      "setters compute before they commit and restore the form on failure; reading and writing by name use the same "
      "alias map and decision order against the current form, with alias closure; pickling keys agree, array "
      "finalisation copies the metadata dict, Orbit<->StateVector conversion keeps everything but the propagator, "
      "Cov.copy is complete and snapshots its state; the covariance pickles everything its constructor stores and `.base` "
      "of an unpickled object falls back on a view; the functions on the path of a frame change store only into objects they "
      "created; every `copy` method of the package (what the per-item copy calls) returns an object built in the call (R15.6).",
      "Not decided: behaviour for sequences of operations as executed (only the per-operation invariants that make any "
      "sequence safe). Known finding D31: Man objects inside the maneuvers list are shared by copy().",
      "ownership/freshness abstract interpretation + ast pattern rules (compute-then-commit, sibling agreement)", "§3 C15")

claim("C09",
      "Clause-level: out-of-table queries raise before any interpolation (inclusive bounds) and the refusal is re-raised "
      "on both arms of the dated wrapper; abscissas are reference-scale MJDs at construction and at call; interpolated "
      "points carry the ephemeris' own frame and form and the cached interpolator is dropped when the points change; "
      "Lagrange window arithmetic as integer term algebra (stop - start = order, edge shifts preserve the length, the "
      "bracket lies inside, short tables raise); the linear formula is y0 + (y1-y0)(x-x0)/(x1-x0) on consecutive nodes "
      "and exact at both nodes.",
      "Not decided: node exactness and polynomial reproduction of the vectorised Lagrange basis (numpy broadcasting is "
      "outside the term algebra; only its expression shape is frozen), centimetre accuracy.",
      "ast pattern rules + canonical term algebra on the window arithmetic and the linear formula", "§3 C09")

claim("C10",
      "Clause-level (protocol): listeners are cleared unconditionally before the first listen() of every iteration; "
      "listen() checks against the previous sample, bisects (prev, orb), then remembers orb unconditionally, resets the "
      "sample's event label, returns events sorted by date, and both iter()s yield events before the sample; the "
      "bisection keeps the crossing inside, halves, and stops below the 1 us resolution; every override of check() "
      "conjoins the base sign test; the nine-listener table (event classes returned by info(), label direction "
      "expressions, watched quantities, same frame/form for watch and label); visibility() does not mutate the caller's "
      "list, filters on the station's own event classes, and no consumer of iter() inside the package writes to the "
      "yielded samples (the listeners keep them as their previous sample); every named intermediate of the conical-shadow and "
      "terminator geometry equals its expression (term algebra) with the documented branch structure.",
      "Not decided: completeness w.r.t. sampling for discontinuous quantities, sharpness in microseconds, agreement of "
      "the shadow model with an independent one (the code's own cone formulas are frozen, including its use of one "
      "angle for umbra and penumbra), agreement with closed-form event times.",
      "ast protocol rules (ordering/dominance in generator bodies), override census over the class hierarchy, "
      "reaching-definitions mutation check", "§3 C10")

claim("C11",
      "Clause-level: the columns of rot3(-lon) @ rot2(lat - pi/2) @ rot3(pi) are the geodetic north, west and up unit "
      "vectors (9 symbolic obligations with quarter-turn shift rules); the geodetic->cartesian closed form and "
      "e^2 = 2f - f^2 (term algebra); create_station wiring (exactly lat/lon to radians, centre under the parent's "
      "centre with the offset in the parent's orientation); horizon mask: modulo, exact node, bracket, wrap with x0 = 0 "
      "and the linear formula; simulated measures are r x legs, theta, phi, r_dot of the topocentric spherical state.",
      "Not decided: numeric equality with an independent ENU computation, Earth-rotation kinematics of the station "
      "(C02's clause), azimuth sign convention beyond theta.",
      "canonical term algebra on rotation products and the geodetic formula + ast wiring rules", "§3 C11")

claim("C17",
      "Clause-level: QSW and TNW triads by construction (27 symbolic obligations on 3-vectors: unit first axis, unit "
      "angular momentum third axis, second = third x first, rows in name order); transposition pairing at the seven "
      "local-axes sites with the state made cartesian in the parent frame first; half-open maneuver windows "
      "(date, date+step] and [start, stop), tested by the integrator with the step it actually took; orbit2frame wiring; ContinuousMan dv = accel x duration; dkep2dv identities "
      "(first-order vis-viva, plane-rotation angle, law of cosines, dv_w^2 = dv^2 - dv_t^2).",
      "Not decided: first-order realisation of Keplerian increments as numbers; 'no later than one step' timing as executed "
      "(the window tiling makes it once-only given C06's use of the accepted step).",
      "canonical term algebra on vectors + ast pattern rules at enumerated sites", "§3 C17")

claim("C18",
      "Wiring clauses + frozen coefficients: velocities of the analytical bodies are centred differences; the Moon and "
      "Sun direction vectors are the ecliptic->equator rotation of (lambda, phi) (12 symbolic obligations), distance "
      "wiring, TDB / UT1 time arguments from normalised dates, and both the multiset of series coefficients and the "
      "value-numbered normal form of the series equal the committed reference; JPL lookups use the TDB julian date, divide the rate by S_PER_DAY only on the 3-vector arm, "
      "scale km->m and take the sign from the (centre, target) pair convention; kernel and analytical frames are "
      "attached to the right parents.",
      "Not decided: agreement with DE to 0.02 deg / 0.7 deg (the coefficients are frozen from the pinned tree, whose "
      "agreement the suite tests at sample dates), chaining of kernel segments as numbers.",
      "term algebra on direction vectors + frozen-constant multisets + ast wiring rules", "§3 C18")

claim("C19",
      "Clause-level: Lambert's loop is z <- z - F/F' leaving when |F/F'| < tol, with Stumpff functions, y, A and the "
      "Lagrange coefficients as in Curtis 5.3; ltan2raan o raan2ltan = id modulo one turn with consistent moduli; the "
      "three arms of sso() solve one relation and that relation makes the J2 node rate read from j2.py equal the mean "
      "solar rate (term algebra with rational exponents); Walker plane spacing, in-plane spacing and inter-plane phasing "
      "2 pi f / t for both patterns; beta and the B-plane vectors by construction; the J2 clauses of C05 (j2.py is an "
      "anchor: write set, rates, snapshot never written).",
      "Not decided: convergence of Lambert in general, metre-level arrival as numbers, F' = dF/dz (dropped: nested "
      "radicals are outside the normal form).",
      "canonical term algebra (inverse and sibling identities) + loop-polarity rule + ast pattern rules", "§3 C19")

claim("C07",
      "Narrow, wiring clauses + frozen coefficients: the default propagator initialises the reference sgp4 library "
      "with (line1, line2, wgs72) of the TLE regenerated from the orbit, hands it the UTC calendar fields, scales all "
      "six components km->m and returns a cartesian state at the requested date; the native model is bound to WGS-72 "
      "whose constants equal the published set by value (k_e as formula or number), converts rev/day->rad/min, "
      "minutes and Earth radii consistently, solves Kepler's equation with a Newton step verified symbolically and the "
      "right exit polarity, measures elapsed time on instants, keeps its initialisation record per instance (not on a "
      "shared class); the numeric literals AND the value-numbered algebraic normal forms of every output of its "
      "initialisation and of its secular/periodic terms equal the committed reference.",
      "Not decided: that the native model's formulas are the published ones (they are frozen against the pinned tree, "
      "whose agreement with the reference the suite samples), deep-space behaviour, 1 cm / |v| x 50 us as numbers.",
      "ast wiring rules + published-constant comparison + frozen-constant multisets + term algebra on the Kepler step", "§3 C07")

NOT_YET = "check not built yet in this revision; rules designed in DESIGN.md §3 — claimed once its checker is committed"

ALL = [f"C{i:02d}" for i in range(1, 21)]


def main():
    checks = []
    for pid in ALL:
        if pid not in CLAIMED:
            continue
        c = CLAIMED[pid]
        checks.append({
            "property_id": pid,
            "quick_cmd": f"{PY} {pid} --tier quick",
            "thorough_cmd": f"{PY} {pid} --tier thorough",
            "evidence_file": f"/verif/evidence/{pid}.json",
            "replay_cmd_template": f"{PY} {pid} --replay {{path}}",
            "engine": "bvstatic",
            "level_claimed": {"category": "other", "text": c["text"], "design_ref": c["design"]},
            "level_note": c["note"],
            "technique": "static analysis: " + c["technique"],
        })
    man = {
        "version": 1,
        "setup_cmd": "true",
        "hooks": {
            "guard": "GALACTICS_BEYOND_VERIF",
            "enable": "no hooks: the checks read /repo's source with ast and never import it",
            "baseline_off_cmd": "cd /repo && /venv/bin/python -m pytest -ra -q -p no:cacheprovider --timeout=900 "
                                "--continue-on-collection-errors",
            "source_commits": [],
            "add_only": True,
        },
        "engines": [{
            "name": "bvstatic",
            "path": "/verif/bvstatic",
            "serves_properties": sorted(CLAIMED),
            "kind_free_text": "repository-specific static analysis on Python ast: source model with class hierarchy and "
                              "import resolution, structured reaching-definitions dataflow, constant folding, format "
                              "layout, canonical term algebra (normal forms of straight-line arithmetic), ownership / "
                              "freshness abstract interpretation, value-numbering fingerprints, and E8: a value-graph "
                              "equivalence prover (vgraph.py) that proves a restructured function equal to the reference "
                              "function before a shape rule is allowed to report",
        }],
        "checks": checks,
        "not_applicable": [{"property_id": p, "reason": NOT_YET} for p in ALL if p not in CLAIMED],
        "notes": "Exit codes of every command: 0 pass (known findings printed as KNOWN-FINDING), 1 VIOLATION, "
                 "2 ANALYSIS-ERROR (anchor vanished / vacuous rule / internal error). known_findings.json is committed "
                 "and never written at run time. When a rule that recognises code by its shape fails, the check first tries "
                 "to prove every function of the tree equal to the reference tree (E8, DESIGN section 9); only if that "
                 "fails is the violation reported. bvstatic/data/*.json are references frozen from the confirmed tree by "
                 "tools/freeze_*.py and are never written by a check. Besides its own rules every check runs generic "
                 "clauses on the files / functions of its property (DESIGN section 10): SIG (parameter defaults; a mutable default is only read), MEMO (no "
                 "untabled cache or registry), PIN / ANCHOR / FILE (the functions the property depends on, every function its "
                 "rules read, every other function and every class- or module-level name of its anchored files) and DEP (the "
                 "units outside the anchored files that the anchored code reads directly: a table frozen from the reference "
                 "graph of bvstatic/cone.py, each group with its reason) are proven equal to their reference version by E8; "
                 "a DEP report names the reference path from the anchored files to the changed unit. Display methods: only "
                 "__repr__ bodies are exempt from those pins (not Date.__repr__, which is the key of the memoised IAU tables), and "
                 "REPR checks that every display method of the package has no effect. DUCK: for every name probed by hasattr / "
                 "getattr-with-default in the anchored files, the classes of the package defining that name are the reference ones "
                 "(bvstatic/data/duck.json). CONV (R15.5 / R02.9 / R20.6): the functions on the path of a frame change store only "
                 "into objects they created. INIT: the import-time statements of the package __init__ modules on the path of the "
                 "anchored files are the reference ones. The DEP table also attaches three cores (time: dates/date.py, dates/eop.py, "
                 "config.py; state: orbits/forms.py, statevector.py, orbit.py, constants.py, utils/node.py; frame: frames/*.py, "
                 "utils/matrix.py, utils/memoize.py; offset, for C02 / C20: the propagators, env/solarsystem.py, the JPL propagator) to every property whose mechanism runs through them (DESIGN 11.5, 11.11): a DEP report "
                 "means 'a dependency of this property changed and could not be proven equal', and names the unit; "
                 "BVSTATIC_NO_DEPS=1 gives the verdicts without it.",
    }
    with open(os.path.join(HERE, "MANIFEST.json"), "w") as f:
        json.dump(man, f, indent=1, ensure_ascii=False)
    print(f"MANIFEST.json: {len(checks)} checks, {len(man['not_applicable'])} not applicable")


if __name__ == "__main__":
    main()
