#!/venv/bin/python
"""cone_eval.py <patch> <prop> : which units does the patch change (E8), and which of them lie in the property's cone?"""
import os, shutil, subprocess, sys, tempfile
sys.path.insert(0, "/verif")
patch, prop = os.path.abspath(sys.argv[1]), sys.argv[2]
d = tempfile.mkdtemp(prefix="ce_")
try:
    shutil.copytree("/repo/beyond", d + "/beyond")
    r = subprocess.run(["git", "apply", patch], cwd=d)
    if r.returncode:
        subprocess.run(["patch", "-p1", "-s", "-i", patch], cwd=d, check=True)
    from bvstatic.model import Repo
    from bvstatic import cone, equiv
    from bvstatic.rules.common import anchored_files
    repo = Repo(d)
    ref = equiv.reference()["modules"]
    changed = []
    for rel in repo.modules:
        cur = equiv.module_fingerprints(repo, rel)
        for kind in ("funcs", "scopes", "consts"):
            for k, v in cur.get(kind, {}).items():
                if ref.get(rel, {}).get(kind, {}).get(k) != v:
                    changed.append((rel, ("const:" if kind == "consts" else "") + k))
    g = cone.Graph(repo, precise=True)
    ent = {u for u in g.units if u[0] in anchored_files()[prop]}
    c = g.cone(ent)
    for u in changed:
        hits = [x for x in c if x == u]
        if hits:
            path = g.path(c, hits[0])
            print("IN ", u, "depth", len(path) - 1, " -> ".join(f"{x[0].split('/')[-1]}::{x[1]}@{l}" for x, l in path))
        else:
            print("OUT", u)
finally:
    shutil.rmtree(d, ignore_errors=True)
